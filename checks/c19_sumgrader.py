"""C19 - SumGrader accepts exactly the sums equal in value to the author's."""
import cmath
import hashlib
import math

from hypothesis import strategies as st
from voluptuous import Schema, Required

from vlib import rivals
from vlib import forms
from vlib.core import call_twice, Part, Violation, Discard, watchdog, call

from mitxgraders import SumGrader
from mitxgraders.sampling import VariableSamplingSet, set_seed
from mitxgraders.exceptions import MITxError, StudentFacingError, ConfigError

RULE = ("Cases are (author sum, student sum, input_positions subset, samples, tolerance) tuples. 'ranges' "
        "(exhaustive): every limit pair in [-12,12]^2 in both orders x even_odd 0/1/2 with summand 2^(n+14), whose "
        "sum is a bit mask of the integers summed, compared (tolerance 0.25) with the reference mask entered as a "
        "one-term sum, once with the swept sum as author and once as student. 'sums' (random): author summand from "
        "an expression-tree generator (integer polynomials, real polynomials in n,x,y, r^n, sin/cos/exp, complex, "
        "vector-valued), scripted sample values, student built from the author by sum-preserving edits (swap, "
        "rename, shift, reversal, algebraic rewrite) or sum-changing ones (limit off by 1-2, odd shift under a "
        "parity filter, perturbed summand scaled to the tolerance, agreement at one sample only, unrelated summand), "
        "restricted to a uniformly drawn non-empty subset of input_positions in random order. 'infinite': r^n-type "
        "summands with |r|<=0.5 and infty limits against infty_val in {default,15,20,50,1000}, student entering the "
        "cutoff explicitly, one less, shifted, reversed. 'errors' (exhaustive over pools): non-integer / complex "
        "limits, clashing or invalid summation variables, blank fields, instructor-only variables in each field, "
        "failing author sums, for every subset of input_positions that contains the faulty field. Oracle: Python "
        "reference sum over the integers between the sorted limits inclusive, parity-filtered, infinite limits "
        "replaced by int(infty_val), terms by an independent tree evaluator (math.* on reals, cmath only on complex "
        "values); verdict correct iff |S_author-S_student| <= tol at every sample. Non-trivial = the student's text "
        "differs from the author's and the sums are equal, or the sums differ by between 100 x tol and 10 %, or the "
        "parity filter removes at least one term, or (errors) an error input; distinct by spec."
        " Every graded sum is preceded by a companion problem over the same summand texts with function calls in its limits; the ranges part grades each limit pair by three variable-free graders differing in even_odd only, in one process.")
ASSUMPTIONS = [
    "floating point: a case is judged only when |diff - tol| > 1e-9*max(1, largest intermediate magnitude) at the "
    "deciding samples (otherwise discarded), except (a) author and student sums that are the same computation "
    "(identical term list and summand tree up to renaming: bitwise equal in the library) and (b) sums whose every "
    "intermediate is an integer below 2^50 (exact in binary64), which are judged at any tolerance including 0",
    "a student-facing error is any StudentFacingError instance (including the library's generic 'Could not check "
    "inputs'); a configuration error is ConfigError",
    "a vector sum compared with a scalar (empty range on one side, unrelated summand) must merely not be graded "
    "correct: ok False and a student-facing error are both accepted",
    "generated but not judged beyond 'raises an MITxError / is not graded': summation variable equal to an "
    "instructor-only variable, an author summation variable that clashes while the variable is not requested from "
    "the student, an unparsable author expression, an instructor-only variable inside an author field that the "
    "student does not enter (the statement does not settle which family applies)",
    "failable_evals stays 0 (the statement says 'at every sample'); factorials (scipy) and infty_val_fact are out "
    "of scope",
    "a sum is given 60 s (normal: < 1 s) before it counts as non-terminating",
]
REQUIRED = {
    'range/all': 600, 'range/odd': 600, 'range/even': 600,
    'kind/same': 20, 'kind/swap': 30, 'kind/rename': 30, 'kind/shift': 30, 'kind/reverse': 30, 'kind/rewrite': 30,
    'kind/off': 60, 'kind/perturb': 40, 'kind/onesample': 15, 'kind/other': 20, 'kind/compose': 30,
    'expected/correct': 400, 'expected/wrong': 400,
    'equal-but-textually-different': 250, 'near-miss': 30, 'parity-removes-term': 300,
    'exact-integer': 150, 'bitwise-same': 60, 'mode/complex': 100, 'mode/vector': 100,
    'positions/1': 200, 'positions/2': 200, 'positions/3': 200, 'positions/4': 60,
    'tol/percent': 200, 'tol/zero': 60, 'tol/default': 60,
    'infinite/cutoff-explicit': 15, 'infinite/cutoff-matters': 5, 'infinite/1000': 10,
    'error/nonint-limit': 100, 'error/complex-limit': 100, 'error/var-constant': 50, 'error/var-declared': 20,
    'error/var-function': 50, 'error/var-invalid': 80, 'error/blank': 50, 'error/instructor-var': 40,
    'error/author-fault': 60, 'instructor/control': 10,
}

FIELDS = ['lower', 'upper', 'summand', 'summation_variable']
SUBSETS = [[f for k, f in enumerate(FIELDS) if m >> k & 1] for m in range(1, 16)]
WEIGHTED_SUBSETS = SUBSETS + [sub for sub in SUBSETS if len(sub) == 3] * 2 + [list(FIELDS)] * 5
INF = float('inf')
GUARD = 1e-9
EXACT_LIMIT = 2 ** 50


class Scripted(VariableSamplingSet):
    """Sampling set that hands out the values the oracle chose, in order (one per sample)."""
    schema_config = Schema({Required('values'): list})

    def __init__(self, config=None, **kwargs):
        super(Scripted, self).__init__(config, **kwargs)
        self.pos = 0

    def gen_sample(self):
        vals = self.config['values']
        v = vals[self.pos % len(vals)]
        self.pos += 1
        return v


# ----------------------------------------------------------------------------------------------------
# expression trees: ['n'] summation variable, ['v', name], ['c', non-negative number], ['i'], ['neg', t],
# ['+'|'-'|'*'|'/'|'^', a, b], ['f', name, t], ['vec', [t, ...]]

N = ['n']


def C(v):
    return ['c', v]


def V(name):
    return ['v', name]


def num(v):
    return C(v) if v >= 0 else ['neg', C(-v)]


def cnum(z):
    if isinstance(z, complex):
        return ['+', num(z.real), ['*', num(z.imag), ['i']]]
    return num(z)


def render(t, var):
    tag = t[0]
    if tag == 'n':
        return var
    if tag == 'v':
        return t[1]
    if tag == 'c':
        return repr(t[1]) if isinstance(t[1], float) else str(t[1])
    if tag == 'i':
        return 'i'
    if tag == 'neg':
        return '(-%s)' % render(t[1], var)
    if tag == 'f':
        return '%s(%s)' % (t[1], render(t[2], var))
    if tag == 'vec':
        return '[%s]' % ', '.join(render(c, var) for c in t[1])
    return '(%s%s%s)' % (render(t[1], var), tag, render(t[2], var))


def has_n(t):
    if t[0] == 'n':
        return True
    if t[0] in ('v', 'c', 'i'):
        return False
    if t[0] == 'vec':
        return any(has_n(c) for c in t[1])
    if t[0] == 'f':
        return has_n(t[2])
    return any(has_n(c) for c in t[1:])


def subst(t, repl):
    """Replace the summation variable by the tree repl."""
    if t[0] == 'n':
        return repl
    if t[0] in ('v', 'c', 'i'):
        return t
    if t[0] == 'vec':
        return ['vec', [subst(c, repl) for c in t[1]]]
    if t[0] == 'f':
        return ['f', t[1], subst(t[2], repl)]
    return [t[0]] + [subst(c, repl) for c in t[1:]]


class RefState(object):
    def __init__(self):
        self.mag = 0.0
        self.exact = True


def _is_exact(v):
    if isinstance(v, bool):
        return False
    if isinstance(v, int):
        return abs(v) < EXACT_LIMIT
    if isinstance(v, float):
        return v.is_integer() and abs(v) < EXACT_LIMIT
    return False


def _track(v, stt):
    if isinstance(v, list):
        for c in v:
            _track(c, stt)
        return v
    a = abs(v)
    if a != a or a == INF:
        raise Discard('reference value overflows / is nan')
    if a > stt.mag:
        stt.mag = a
    if stt.exact and not _is_exact(v):
        stt.exact = False
    return v


class ShapeMismatch(Exception):
    pass


def _binop(op, a, b):
    la, lb = isinstance(a, list), isinstance(b, list)
    if op in '+-':
        if la != lb or (la and len(a) != len(b)):
            raise ShapeMismatch()
        if la:
            return [x + y if op == '+' else x - y for x, y in zip(a, b)]
        return a + b if op == '+' else a - b
    if op == '*':
        if la and lb:
            raise ShapeMismatch()
        if la:
            return [x * b for x in a]
        if lb:
            return [a * y for y in b]
        return a * b
    if op == '/':
        if lb:
            raise ShapeMismatch()
        if la:
            return [x / b for x in a]
        return a / b
    if op == '^':
        if la or lb:
            raise ShapeMismatch()
        return a ** b
    raise AssertionError(op)


REAL_F = {'sin': math.sin, 'cos': math.cos, 'exp': math.exp, 'abs': abs}
CPLX_F = {'sin': cmath.sin, 'cos': cmath.cos, 'exp': cmath.exp, 'abs': abs}


def ev(t, n, env, stt):
    """Independent evaluation of a tree at summation index n (a Python int).  Reals stay real."""
    tag = t[0]
    if tag == 'n':
        v = n
    elif tag == 'v':
        v = env[t[1]]
    elif tag == 'c':
        v = t[1]
    elif tag == 'i':
        v = 1j
    elif tag == 'neg':
        a = ev(t[1], n, env, stt)
        v = [-x for x in a] if isinstance(a, list) else -a
    elif tag == 'f':
        a = ev(t[2], n, env, stt)
        if isinstance(a, list):
            raise ShapeMismatch()
        stt.exact = False
        v = (CPLX_F if isinstance(a, complex) else REAL_F)[t[1]](a)
    elif tag == 'vec':
        v = [ev(c, n, env, stt) for c in t[1]]
        if any(isinstance(c, list) for c in v):
            raise ShapeMismatch()
    else:
        a = ev(t[1], n, env, stt)
        b = ev(t[2], n, env, stt)
        v = _binop(tag, a, b)
    return _track(v, stt)


def term_indices(lo, hi, eo, cutoff):
    """The integers the statement says are summed."""
    lo, hi = (lo, hi) if lo <= hi else (hi, lo)
    if lo == -INF:
        lo = -cutoff
    if hi == INF:
        hi = cutoff
    return [n for n in range(int(lo), int(hi) + 1) if eo == 0 or (eo == 1 and n % 2 == 1) or (eo == 2 and n % 2 == 0)]


def ref_sum(tree, idx, env, stt):
    total = 0
    for n in idx:
        term = ev(tree, n, env, stt)
        if isinstance(total, list) or isinstance(term, list):
            if isinstance(total, list) and isinstance(term, list):
                total = _binop('+', total, term)
            elif isinstance(term, list) and total == 0 and not isinstance(total, list):
                total = list(term)
            else:
                raise ShapeMismatch()
        else:
            total = total + term
        _track(total, stt)
    return total


def norm(v):
    if isinstance(v, list):
        return math.sqrt(sum(abs(c) ** 2 for c in v))
    return abs(v)


def decode_val(v):
    if isinstance(v, dict):
        return complex(v['re'], v['im'])
    return v


def tol_kind(tol):
    if tol is None:
        return 'default'
    if isinstance(tol, str):
        return 'percent'
    return 'zero' if tol == 0 else 'absolute'


# ----------------------------------------------------------------------------------------------------
# the library call


def build_config(spec):
    a = spec['a']
    cfg = {
        'answers': {'lower': a['lo'][1], 'upper': a['hi'][1], 'summand': a.get('text') or render(a['tree'], a['var']),
                    'summation_variable': a['var']},
        'variables': sorted(spec['vars']),
        'sample_from': {k: Scripted(values=[decode_val(v) for v in vals]) for k, vals in spec['vars'].items()},
        'samples': spec['samples'],
        'even_odd': spec['eo'],
        'input_positions': {f: k + 1 for k, f in enumerate(spec['pos'])},
    }
    if spec.get('tol') is not None:
        cfg['tolerance'] = spec['tol']
    if spec.get('infty_val') is not None:
        cfg['infty_val'] = spec['infty_val']
    if spec.get('instructor_vars'):
        cfg['instructor_vars'] = list(spec['instructor_vars'])
    if spec.get('numbered'):
        cfg['numbered_vars'] = sorted(spec['numbered'])
        for k, vals in spec['numbered'].items():
            cfg['sample_from'][k] = Scripted(values=[decode_val(v) for v in vals])
    if spec.get('user_f'):
        cfg['user_functions'] = {'f': _user_f}
        if spec['user_f'] == 'with-random':
            # ... and author-declared RANDOM functions (sampled per evaluation): names with a meaning all the same
            from mitxgraders import RandomFunction
            cfg['user_functions'].update({'rf': RandomFunction(), 'rg': [_user_f, _user_f]})
    return cfg


def _user_f(x):
    return x * x


def student_texts(spec):
    s = spec['s']
    return {'lower': s['lo'][1], 'upper': s['hi'][1],
            'summand': s.get('text') if s.get('text') is not None else render(s['tree'], s['tvar']),
            'summation_variable': s['var']}


def run_library(spec, rec):
    cfg = build_config(spec)
    texts = student_texts(spec)
    inp = [texts[f] for f in spec['pos']]
    if spec.get('bare') and len(inp) == 1:
        inp = inp[0]

    def companion():
        # another problem of the same page: the SAME summand texts (author's and student's) between limits that are written
        # with function calls, among them an author-supplied 'fact' - graded first.  What it leaves behind (in the parse
        # cache, in per-class tables) must not reach the sum under test: not its cut-off, not its function restrictions.
        texts_c = [cfg['answers']['summand'], texts['summand']]
        for summand in texts_c:
            kw = {k: v for k, v in cfg.items() if k not in ('answers', 'input_positions', 'infty_val', 'sample_from')}
            kw['sample_from'] = {k: Scripted(values=list(v.config['values'])) for k, v in cfg['sample_from'].items()}
            kw['user_functions'] = dict(cfg.get('user_functions', {}), fact=_companion_fact)
            kw['suppress_warnings'] = True        # 'fact' replaces the default of that name (which needs scipy)
            kw['answers'] = {'lower': 'fact(2)-1', 'upper': 'sqrt(16)', 'summand': summand,
                             'summation_variable': cfg['answers']['summation_variable']}
            try:
                g2 = SumGrader(**kw)
            except Exception:  # noqa: BLE001 - e.g. the configuration under test is itself meant to be refused
                rec.note('companion-not-constructible')
                continue
            try:
                g2(None, ['fact(2)-1', 'abs(-3)', summand, cfg['answers']['summation_variable']])
                rec.note('companion-graded')
            except Exception:  # noqa: BLE001 - whatever the companion does is its own business
                rec.note('companion-raised')

    def go():
        if not spec.get('no_companion') and spec['seed'] % 2 == 0:
            companion()
        grader = forms.make(SumGrader, cfg)
        rivals.after_build(grader)     # vlib/rivals.py: another SumGrader (cut-off 12, even terms only, ...) built and used now
        with watchdog(120):
            # the same submission twice on the same grader object: same outcome (vlib.core.call_twice)
            k, v = call_twice(grader, lambda: set_seed(spec['seed']), None, inp)
        if k == 'err':
            raise v
        return v
    out = call(go)
    rec.calls()
    return out, cfg['answers'], inp


def _companion_fact(n):
    return float(math.factorial(int(round(n)))) if 0 <= n < 20 else 1.0


def lim_value(l):
    v = l[0]
    if v == 'inf':
        return INF
    if v == '-inf':
        return -INF
    return v


# ----------------------------------------------------------------------------------------------------
# oracle for value cases


def expectation(spec, rec):
    """-> (expected in {'correct','wrong','not-correct','error'}, info dict)."""
    a, s, eo = spec['a'], spec['s'], spec['eo']
    cutoff = int(spec['infty_val']) if spec.get('infty_val') is not None else 1000
    idx_a = term_indices(lim_value(a['lo']), lim_value(a['hi']), eo, cutoff)
    idx_s = term_indices(lim_value(s['lo']), lim_value(s['hi']), eo, cutoff)
    full_a = term_indices(lim_value(a['lo']), lim_value(a['hi']), 0, cutoff)
    info = {'terms': [len(idx_a), len(idx_s)]}
    if len(idx_a) < len(full_a):
        rec.cls('parity-removes-term')
        info['parity_removed'] = True
    if s['tvar'] != s['var'] and has_n(s['tree']) and idx_s:
        # the summand speaks of a name that is not the summation variable (and is nothing else either)
        return 'error', info
    tol = spec.get('tol')
    same_computation = (idx_a == idx_s and a['tree'] == s['tree'])
    info['same_computation'] = same_computation
    verdicts = []
    near = False
    exact_all = True
    for k in range(spec['samples']):
        env = {name: decode_val(vals[k]) for name, vals in spec['vars'].items()}
        stt = RefState()
        try:
            sa = ref_sum(a['tree'], idx_a, env, stt)
            ss = ref_sum(s['tree'], idx_s, env, stt)
        except OverflowError:
            raise Discard('reference value overflows / is nan')
        except ZeroDivisionError:
            raise Discard('reference division by zero')
        if stt.mag > 1e12:
            raise Discard('intermediate above 1e12')
        exact_all = exact_all and stt.exact
        if isinstance(sa, list) != isinstance(ss, list) or (isinstance(sa, list) and len(sa) != len(ss)):
            if not (isinstance(sa, list) and isinstance(ss, list)):
                vec, sca = (sa, ss) if isinstance(sa, list) else (ss, sa)
                if sca == 0:
                    # a zero sum (empty range) against a vector: the statement does not say whether 0 counts as
                    # the zero vector; only a vector farther than the tolerance from zero is surely "not equal"
                    t_abs = norm(sa) * float(tol[:-1]) / 100.0 if isinstance(tol, str) else (
                        1e-12 if tol is None else tol)
                    if norm(vec) <= t_abs + GUARD * max(1.0, stt.mag):
                        raise Discard('zero sum against a vector within tolerance of zero')
            verdicts.append('mismatch')
            continue
        if isinstance(sa, list):
            diff = norm([x - y for x, y in zip(sa, ss)])
        else:
            diff = abs(sa - ss)
        na = norm(sa)
        if isinstance(tol, str):
            tol_abs = na * float(tol[:-1]) / 100.0
        else:
            tol_abs = 1e-12 if tol is None else tol
        rec.maximum('largest intermediate magnitude judged', stt.mag)
        if same_computation:
            verdicts.append('in')
            continue
        if stt.exact and not isinstance(sa, list) and not isinstance(sa, complex) and not isinstance(ss, complex):
            # integer arithmetic below 2^50: the library's binary64 sums are these very integers
            if diff == 0:
                verdicts.append('in')
                continue
            if not isinstance(tol, str):
                verdicts.append('in' if diff <= tol_abs else 'out')
                if diff > 100 * tol_abs and diff <= 0.1 * na:
                    near = True
                continue
        elif stt.exact and isinstance(sa, list) and sa == ss:
            verdicts.append('in')
            continue
        g = GUARD * max(1.0, stt.mag)
        if diff > tol_abs + g:
            verdicts.append('out')
            if diff > 100 * tol_abs and diff <= 0.1 * na:
                near = True
        elif diff < tol_abs - g:
            verdicts.append('in')
        else:
            verdicts.append('guard')
    info['exact'] = exact_all
    info['near'] = near
    if 'mismatch' in verdicts:
        return 'not-correct', info
    if 'out' in verdicts:
        return 'wrong', info
    if 'guard' in verdicts:
        raise Discard('difference within the guard band of the tolerance')
    return 'correct', info


def judge_value(spec, rec):
    try:
        expected, info = expectation(spec, rec)
    except ShapeMismatch:
        raise Discard('summand shapes inconsistent inside the expression')
    (status, val), answers, inp = run_library(spec, rec)
    kind = spec.get('kind', '?')
    texts = student_texts(spec)
    differs = any(texts[f] != answers[f] for f in spec['pos'])
    obs = {'expected': expected, 'input': inp, 'author': answers, 'terms': info['terms']}
    rec.cls('kind/' + kind.split('+')[0] if '+' not in kind else 'kind/compose')
    rec.cls('expected/' + expected)
    rec.cls('positions/%d' % len(spec['pos']))
    rec.cls('tol/' + tol_kind(spec.get('tol')))
    rec.cls('mode/' + spec.get('mode', '?'))
    if spec['eo']:
        rec.cls('parity/%d' % spec['eo'])
    if info.get('exact'):
        rec.cls('exact-integer')
    if info.get('same_computation'):
        rec.cls('bitwise-same')
    if expected == 'correct' and differs:
        rec.cls('equal-but-textually-different')
    if info.get('near'):
        rec.cls('near-miss')
    if spec.get('infinite'):
        rec.cls('infinite/' + kind)
        rec.cls('infinite/%d' % (int(spec['infty_val']) if spec.get('infty_val') is not None else 1000))
        if kind == 'cutoff-minus' and expected == 'wrong':
            rec.cls('infinite/cutoff-matters')
    rec.nontrivial((expected == 'correct' and differs) or info.get('near') or info.get('parity_removed'))

    if status == 'ok':
        obs['result'] = val
        if not isinstance(val, dict) or 'ok' not in val:
            raise Violation('result-shape', 'grader returned %r' % (val,), **obs)
        good = val['ok'] is True and val.get('grade_decimal') == 1
        bad = val['ok'] is False and val.get('grade_decimal') == 0
        if not (good or bad):
            raise Violation('result-shape', 'neither correct nor incorrect: %r' % (val,), **obs)
        if expected == 'correct' and not good:
            raise Violation('rejects-equal-sum/' + kind, 'the sums are equal within tolerance at every sample but '
                            'the submission was graded %r' % (val,), **obs)
        if expected in ('wrong', 'not-correct') and good:
            raise Violation('accepts-unequal-sum/' + kind, 'the sums differ by more than the tolerance at some '
                            'sample but the submission was graded correct', **obs)
        if expected == 'error':
            raise Violation('no-error/undefined-name', 'summand uses a name that is not the summation variable; '
                            'expected a student-facing error, got %r' % (val,), **obs)
        return obs
    obs['error'] = '%s: %s' % (type(val).__name__, str(val)[:200])
    if expected in ('error', 'not-correct') and isinstance(val, StudentFacingError):
        return obs
    raise Violation('error-on-valid-sum/' + type(val).__name__, 'valid submission (expected %s) raised %s: %s' % (
        expected, type(val).__name__, str(val)[:300]), **obs)


# ----------------------------------------------------------------------------------------------------
# part 'ranges': exhaustive limit pairs x parity with a bit-mask summand

MASK_TREE = ['^', C(2), ['+', N, C(14)]]


EO_ORDERS = [(0, 1, 2), (1, 2, 0), (2, 0, 1), (0, 2, 1), (2, 1, 0), (1, 0, 2)]


def items_ranges(tier):
    # one item = one pair of limits graded by THREE graders that differ in even_odd only, one after the other in one
    # process (same summand text, limits and cut-off: nothing but the parity option distinguishes them - a seeded change
    # remembered sums of variable-free problems per class, keyed without the parity option)
    for lo in range(-12, 13):
        for hi in range(-12, 13):
            for role in ('author', 'student'):
                yield {'lo': lo, 'hi': hi, 'eos': list(EO_ORDERS[(lo + 5 * hi + (role == 'author')) % 6]), 'role': role}


def judge_ranges(spec, rec):
    if 'eos' in spec:
        out = None
        for eo in spec['eos']:
            out = judge_ranges({'lo': spec['lo'], 'hi': spec['hi'], 'role': spec['role'], 'eo': eo}, rec)
        return out
    lo, hi, eo = spec['lo'], spec['hi'], spec['eo']
    idx = term_indices(lo, hi, eo, 1000)
    mask = sum(2 ** (n + 14) for n in idx)
    t0 = 1 if eo == 1 else 0       # an index that survives the parity filter: one-term sum
    swept = {'lo': [lo, str(lo)], 'hi': [hi, str(hi)], 'tree': MASK_TREE, 'tvar': 'n', 'var': 'n'}
    const = {'lo': [t0, str(t0)], 'hi': [t0, str(t0)], 'tree': C(mask), 'tvar': 'n', 'var': 'n'}
    a, s = (swept, const) if spec['role'] == 'author' else (const, swept)
    full = {'seed': 0, 'eo': eo, 'a': a, 's': s, 'vars': {}, 'samples': 1, 'tol': 0.25, 'pos': list(FIELDS),
            'no_companion': True}
    # the cutoff for INFINITE limits must not touch finite ones: two thirds of the grid run with a cutoff that is
    # smaller than most of the finite limits (a seeded change clipped finite limits to the cutoff)
    iv = (None, 5, 7.0)[(lo + 2 * hi) % 3]
    if iv is not None:
        full['infty_val'] = iv
        rec.cls('range/cutoff-below-finite-limits')
    (status, val), answers, inp = run_library(full, rec)
    label = {0: 'all', 1: 'odd', 2: 'even'}[eo]
    rec.cls('range/' + label)
    rec.nontrivial(lo != hi and (eo != 0 or lo > hi))
    obs = {'integers': idx if len(idx) < 8 else [idx[0], '...', idx[-1]], 'mask': mask}
    if status != 'ok':
        raise Violation('range/%s/error' % label, 'finite integer limits %d, %d raised %s: %s' % (
            lo, hi, type(val).__name__, str(val)[:200]), input=inp, author=answers)
    if not (val['ok'] is True and val.get('grade_decimal') == 1):
        raise Violation('range/%s' % label, 'sum of 2^(n+14) from %d to %d (even_odd=%d, as %s) is not the mask of '
                        'the integers %s' % (lo, hi, eo, spec['role'], obs['integers']), input=inp, author=answers,
                        result=val)
    return obs


# ----------------------------------------------------------------------------------------------------
# generators


def _bin(op):
    return lambda a, b: [op, a, b]


def poly(depth, atoms, divide):
    """Polynomial expressions over the atoms: + - * neg, (n+c)^2|3, optionally / small constant."""
    if depth == 0:
        return atoms
    sub = poly(depth - 1, atoms, divide)
    powbase = st.sampled_from([N, N, ['+', N, C(1)], ['-', N, C(2)], ['*', C(2), N]])
    options = [atoms,
               st.builds(_bin('+'), sub, sub), st.builds(_bin('-'), sub, sub), st.builds(_bin('*'), sub, sub),
               st.builds(lambda b, e: ['^', b, C(e)], powbase, st.sampled_from([2, 2, 3])),
               st.builds(lambda a: ['neg', a], sub)]
    if divide:
        options.append(st.builds(lambda a, d: ['/', a, C(d)], sub, st.sampled_from([2, 3, 7])))
    return st.one_of(options)


INT_ATOMS = st.sampled_from([N, N, N, C(1), C(2), C(3), C(5), V('x')])
REAL_ATOMS = st.sampled_from([N, N, N, C(1), C(2), C(3), C(0.5), C(1.5), V('x'), V('x'), V('y')])
EXPONENTS = st.sampled_from([N, N, ['+', N, C(1)], ['-', N, C(1)], ['neg', N]])
EXPONENTS2 = st.sampled_from([N, ['+', N, C(1)], ['*', C(2), N], ['neg', N]])


def geom(cplx):
    small = [C(2), C(0.5), ['neg', C(2)], ['neg', C(1)], C(1.5)]
    if cplx:
        small += [['i'], ['i'], ['neg', ['i']], ['*', C(0.5), ['+', C(1), ['i']]]]
    return st.one_of(
        st.builds(_bin('^'), st.sampled_from(small), EXPONENTS2),
        st.builds(_bin('^'), st.sampled_from([V('x'), V('x'), V('y'), ['neg', V('y')]]), EXPONENTS))


TRIG = st.one_of(
    st.builds(lambda f, a: ['f', f, a], st.sampled_from(['sin', 'cos']),
              st.sampled_from([['*', N, V('x')], ['/', N, C(3)], N, ['+', ['*', C(2), N], V('y')],
                               ['/', ['*', N, V('x')], C(4)]])),
    st.builds(lambda a: ['f', 'exp', a],
              st.sampled_from([['/', ['neg', N], C(4)], ['/', N, C(5)], ['/', ['*', ['neg', N], V('y')], C(10)]])),
    st.just(['/', C(1), ['+', ['^', N, C(2)], C(1)]]),
    st.just(['/', V('x'), ['+', ['^', ['-', N, C(1)], C(2)], C(2)]]))


def scalar_summand(mode):
    small = poly(1, REAL_ATOMS, True)
    if mode == 'exactint':
        return poly(2, INT_ATOMS, False)
    if mode == 'poly':
        return poly(2, REAL_ATOMS, True)
    if mode == 'geom':
        return st.one_of(geom(False), st.builds(_bin('*'), small, geom(False)), st.builds(_bin('+'), geom(False), small))
    if mode == 'trig':
        return st.one_of(TRIG, st.builds(_bin('*'), small, TRIG), st.builds(_bin('+'), TRIG, small),
                         st.builds(_bin('*'), TRIG, geom(False)))
    if mode == 'complex':
        return st.one_of(
            st.builds(_bin('*'), geom(True), small),
            st.builds(lambda a, b: ['+', a, ['*', ['i'], b]], small, small),
            geom(True),
            st.builds(lambda a: ['f', 'exp', ['*', ['i'], a]], st.sampled_from([['/', N, C(3)], ['*', N, V('y')]])),
            poly(2, REAL_ATOMS, True))      # complex through a complex sample value of x
    raise AssertionError(mode)


def vector_summand():
    comp = st.one_of(poly(1, REAL_ATOMS, True), poly(1, REAL_ATOMS, True), geom(False), TRIG)

    def of_len(k):
        vec = st.lists(comp, min_size=k, max_size=k).map(lambda cs: ['vec', cs])
        atom = st.sampled_from([V('x'), N, C(2), V('y'), ['+', N, C(1)]])
        return st.one_of(
            vec,
            st.builds(_bin('*'), vec, atom),
            st.builds(_bin('*'), atom, vec),
            st.builds(_bin('+'), vec, vec),
            st.builds(lambda a, b: ['-', a, ['*', C(2), b]], vec, vec),
            st.builds(lambda a: ['/', a, C(2)], vec))
    return st.sampled_from([2, 2, 3]).flatmap(of_len)


def summand(mode):
    return vector_summand() if mode == 'vector' else scalar_summand(mode)


def real_sample():
    return st.one_of(st.floats(0.5, 3.0), st.floats(0.5, 3.0), st.floats(-2.5, -0.5),
                     st.sampled_from([1.0, 2.0, 0.75, 1.25, -1.5])).map(lambda v: round(v, 6))


def sample_values(draw, mode, ns):
    if mode == 'exactint':
        xs = draw(st.lists(st.sampled_from([2.0, 3.0, -1.0, 4.0, 1.0, -2.0]), min_size=ns, max_size=ns))
    elif mode == 'complex' and draw(st.booleans()):
        zs = draw(st.lists(st.tuples(st.floats(-1.5, 1.5), st.floats(0.3, 1.5)), min_size=ns, max_size=ns))
        xs = [{'re': round(re, 6), 'im': round(im, 6)} for re, im in zs]
    else:
        xs = draw(st.lists(real_sample(), min_size=ns, max_size=ns))
    ys = draw(st.lists(st.floats(1.0, 3.0).map(lambda v: round(v, 6)), min_size=ns, max_size=ns))
    return {'x': xs, 'y': ys}


def limit_text(draw, v):
    form = draw(st.sampled_from(['plain'] * 6 + ['sum', 'diff', 'half', 'float']))
    if form == 'sum':
        b = draw(st.integers(-5, 5))
        return '(%d)+(%d)' % (v - b, b)
    if form == 'diff':
        b = draw(st.integers(1, 9))
        return '%d-%d' % (v + b, b)
    if form == 'half':
        return '(%d)/2' % (2 * v)
    if form == 'float':
        return '%d.0' % v
    return str(v)


TOLS = [None, None, 0, 0, 1e-12, 1e-9, 1e-6, 1e-4, 1e-4, 0.01, 0.01, 1, '0%', '0.0001%', '0.01%', '1%', '1%', '10%']
TOLS_INEXACT = [1e-4, 0.01, 0.01, 1, '0.01%', '1%', '1%', '10%', None, 1e-6]
RENAMES = ['k', 'm', 'N', 'idx', "n'", 'n_1', 'nu', 'q', "k''", 'Sum1']

REWRITES = ['commute', 'double-half', 'split', 'negneg', 'two-minus-one', 'times-one']


def rewrite(t, how):
    if how == 'commute' and t[0] in '+*' and len(t) == 3:
        return [t[0], t[2], t[1]]
    if how == 'double-half':
        return ['/', ['*', t, C(2)], C(2)]
    if how == 'split':
        return ['+', ['/', t, C(2)], ['/', t, C(2)]]
    if how == 'negneg':
        return ['neg', ['neg', t]]
    if how == 'two-minus-one':
        return ['-', ['*', C(2), t], t]
    return ['*', t, C(1)]


PRESERVING = {'swap': {'lower', 'upper'}, 'rename': {'summand', 'summation_variable'},
              'shift': {'lower', 'upper', 'summand'}, 'reverse': {'lower', 'upper', 'summand'},
              'rewrite': {'summand'}}
OTHERS = {'same': set(), 'perturb': {'summand'}, 'onesample': {'summand'}, 'other': {'summand'},
          'rename-var-only': {'summation_variable'}, 'rename-summand-only': {'summand'},
          'shift-summand-only': {'summand'}, 'shift-limits-only': {'lower', 'upper'}}


def n_terms(lo, hi, eo):
    return len(term_indices(lo, hi, eo, 1000))


def apply_op(draw, op, s, ctx):
    """Edit the student dict s in place; ctx carries eo, tol, samples, vars, pos, mode."""
    eo, pos = ctx['eo'], ctx['pos']
    if op == 'swap':
        s['lo'], s['hi'] = s['hi'], s['lo']
    elif op == 'rename':
        new = draw(st.sampled_from([r for r in RENAMES if r != s['var']]))
        s['var'] = s['tvar'] = new
    elif op == 'rename-var-only':
        s['var'] = draw(st.sampled_from([r for r in RENAMES if r != s['var']]))
    elif op == 'rename-summand-only':
        s['tvar'] = draw(st.sampled_from([r for r in RENAMES if r != s['tvar']]))
    elif op in ('shift', 'shift-summand-only', 'shift-limits-only'):
        if eo:
            sh = draw(st.sampled_from([2, -2, 4, -4, 2, -2, 1, -1, 3]))
        else:
            sh = draw(st.sampled_from([1, -1, 2, -2, 3, -3, 4]))
        if op != 'shift-limits-only':
            s['tree'] = subst(s['tree'], ['-', N, C(sh)] if sh > 0 else ['+', N, C(-sh)])
        if op != 'shift-summand-only':
            for key in ('lo', 'hi'):
                if isinstance(s[key][0], int):
                    s[key] = [s[key][0] + sh, limit_text(draw, s[key][0] + sh)]
    elif op == 'reverse':
        s['tree'] = subst(s['tree'], ['neg', N])
        for key in ('lo', 'hi'):
            v = s[key][0]
            if isinstance(v, int):
                s[key] = [-v, limit_text(draw, -v)]
            else:
                s[key] = ['-inf', '-infty'] if v == 'inf' else ['inf', 'infty']
    elif op == 'rewrite':
        s['tree'] = rewrite(s['tree'], draw(st.sampled_from(REWRITES)))
    elif op == 'off':
        keys = [k for k, f in (('lo', 'lower'), ('hi', 'upper')) if f in pos and isinstance(s[k][0], int)]
        key = draw(st.sampled_from(keys))
        d = draw(st.sampled_from([1, -1, 1, -1, 2, -2]))
        s[key] = [s[key][0] + d, limit_text(draw, s[key][0] + d)]
    elif op == 'perturb':
        tol = ctx['tol']
        if isinstance(tol, str):
            p = float(tol[:-1]) / 100.0
            ratio = draw(st.sampled_from([0.5, 0.9, 1.1, 2.0, 150.0, 1000.0])) if p > 0 else 1.0
            eps = ratio * p if p > 0 else draw(st.sampled_from([1e-3, 1e-6, 0.05]))
            s['tree'] = ['*', s['tree'], C(round(1.0 + min(eps, 0.5), 12))]
        else:
            t = 1e-12 if tol is None else tol
            cnt = max(1, n_terms(lim_or(s['lo']), lim_or(s['hi']), eo))
            if t >= 1e-4:
                total = t * draw(st.sampled_from([0.5, 0.9, 1.1, 2.0, 150.0, 1000.0]))
            else:
                total = draw(st.sampled_from([1e-3, 1e-5, 0.02, 0.3]))
            c = float('%.6g' % (total / cnt))
            if ctx['mode'] == 'vector':
                s['tree'] = ['*', s['tree'], C(round(1.0 + min(c, 0.5), 12))]
            else:
                s['tree'] = ['+', s['tree'], C(c)]
    elif op == 'onesample':
        j = draw(st.integers(0, ctx['samples'] - 1))
        x0 = decode_val(ctx['vars']['x'][j])
        d = draw(st.sampled_from([0.5, 0.01, 1e-4, 3.0]))
        s['tree'] = ['*', s['tree'], ['+', C(1), ['*', C(d), ['-', V('x'), cnum(x0)]]]]
    elif op == 'other':
        s['tree'] = draw(summand(ctx['mode']))
    elif op == 'same':
        pass
    else:
        raise AssertionError(op)


def lim_or(l):
    v = lim_value(l)
    return v


class Ctl(object):
    """Categorical choices (mode, edit kind, subset of positions, tolerance ...) decoded from ONE drawn integer through
    a hash.  Hypothesis often copies one drawn value into another draw of the same example, which makes
    sampled_from() choices lumpy within a few hundred examples; decoding them from a hashed integer keeps the
    class counts near their nominal weights at every seed while the case remains a pure function of the draws."""

    def __init__(self, u):
        self.h = hashlib.blake2b(str(u).encode(), digest_size=64).digest()
        self.i = 0

    def pick(self, options):
        b = self.h[self.i] * 256 + self.h[self.i + 1]
        self.i += 2
        return options[b % len(options)]


CTL = st.integers(0, 2 ** 40)


@st.composite
def sum_cases(draw, tier):
    ctl = Ctl(draw(CTL))
    mode = ctl.pick(['exactint', 'exactint', 'poly', 'poly', 'geom', 'trig', 'complex', 'complex', 'vector',
                     'vector'])
    eo = ctl.pick([0, 0, 1, 1, 2, 2])
    span = ctl.pick(['any', 'any', 'short'])
    lo = draw(st.integers(-12, 12))
    hi = draw(st.integers(-12, 12)) if span == 'any' else max(-12, min(12, lo + draw(st.integers(-3, 3))))
    ns = ctl.pick([1, 2, 2, 3])
    variables = sample_values(draw, mode, ns)
    tree = draw(summand(mode))
    avar = ctl.pick(['n', 'n', 'k', 'm', 'p'])
    tol = ctl.pick(TOLS if mode == 'exactint' else TOLS_INEXACT + TOLS)
    pos = list(draw(st.permutations(ctl.pick(WEIGHTED_SUBSETS))))
    a = {'lo': [lo, limit_text(draw, lo)], 'hi': [hi, limit_text(draw, hi)], 'tree': tree, 'var': avar}
    s = {'lo': list(a['lo']), 'hi': list(a['hi']), 'tree': tree, 'tvar': avar, 'var': avar}
    ctx = {'eo': eo, 'tol': tol, 'samples': ns, 'vars': variables, 'pos': pos, 'mode': mode, 'ctl': ctl}
    have = set(pos)
    preserving = [op for op in sorted(PRESERVING) if PRESERVING[op] <= have]
    allowed = preserving * 3
    allowed += [op for op in sorted(OTHERS) if OTHERS[op] <= have and (op != 'onesample' or ns >= 2)]
    if 'summand' in have and ns >= 2:
        allowed += ['onesample']
    if 'lower' in have or 'upper' in have:
        allowed += ['off', 'off', 'off']
    if len(preserving) >= 2:
        allowed += ['compose', 'compose', 'compose']
    op = ctl.pick(allowed)
    if op == 'compose':
        ops = draw(st.permutations(preserving))[:ctl.pick([2, 2, 3][:len(preserving)])]
        for o in ops:
            apply_op(draw, o, s, ctx)
        kind = '+'.join(ops)
    else:
        apply_op(draw, op, s, ctx)
        kind = op
    for f, key in (('lower', 'lo'), ('upper', 'hi')):
        if f in have and s[key] == a[key] and draw(st.integers(0, 3)) == 0:
            s[key] = [s[key][0], limit_text(draw, s[key][0])]     # same value written differently
    return {'seed': draw(st.integers(0, 2 ** 31 - 1)), 'mode': mode, 'kind': kind, 'eo': eo, 'a': a, 's': s,
            'vars': variables, 'samples': ns, 'tol': tol, 'pos': pos, 'bare': draw(st.booleans())}


def strat_sums(tier):
    return sum_cases(tier)


# ---- infinite limits


@st.composite
def inf_cases(draw, tier):
    ctl = Ctl(draw(CTL))
    kind = ctl.pick(['same', 'swap', 'rename', 'shift', 'shift', 'reverse', 'reverse',
                     'cutoff-explicit', 'cutoff-explicit', 'cutoff-explicit',
                     'cutoff-minus', 'cutoff-minus', 'cutoff-minus', 'cutoff-minus',
                     'start-off', 'start-off', 'perturb', 'rewrite'])
    infty_val = ctl.pick([15, 15, 20, 20, 50, 50.0, 15.0, None, 1000] if kind != 'cutoff-minus' else
                         [15, 15, 20, 15.0, 20, 15, 50, None])
    cutoff = 1000 if infty_val is None else int(infty_val)
    direction = ctl.pick(['up', 'up', 'down'] + (['both'] if cutoff <= 50 else []))
    eo = ctl.pick([0, 0, 1, 2])
    ns = ctl.pick([1, 2])
    cplx = ctl.pick([0, 1, 2, 3]) == 0
    if cplx:
        zs = draw(st.lists(st.tuples(st.floats(-0.3, 0.3), st.floats(0.05, 0.35)), min_size=ns, max_size=ns))
        xs = [{'re': round(re, 6), 'im': round(im, 6)} for re, im in zs]
    else:
        xs = draw(st.lists(st.one_of(st.floats(0.2, 0.5), st.floats(0.05, 0.5),
                                     st.floats(-0.5, -0.2)).map(lambda v: round(v, 6)),
                           min_size=ns, max_size=ns))
    ys = draw(st.lists(st.floats(1.0, 3.0).map(lambda v: round(v, 6)), min_size=ns, max_size=ns))
    variables = {'x': xs, 'y': ys}
    base = ctl.pick([V('x'), V('x'), C(0.5), C(0.25), C(0.3), ['neg', C(0.5)], ['neg', C(0.4)],
                     ['/', V('x'), C(2)], ['*', C(0.5), ['i']]])
    expo = {'up': N, 'down': ['neg', N], 'both': ['f', 'abs', N]}[direction]
    g = ['^', base, expo]
    # (the last two: every second term is of rounding size, ~6e-17, between terms that matter - a series that "has
    # converged" by a term-size criterion long before the configured cut-off)
    quarter = ['*', C(1.5707963267948966), N]
    factor = ctl.pick([None, None, ['f', 'cos', N], ['+', expo, C(1)], V('y'),
                       ['/', C(1), ['+', ['^', N, C(2)], C(1)]], C(3), ['f', 'cos', quarter], ['f', 'sin', quarter]])
    if factor is not None and factor[-1] is quarter:
        eo = 0
    tree = g if factor is None else ['*', factor, g]
    mode = 'geom'
    if ctl.pick(range(6)) == 0:
        tree = ['vec', [tree, ['^', ['neg', base], expo]]]
        mode = 'vector'
    k = draw(st.integers(-3, 6))
    if direction == 'up':
        lo, hi = [k, str(k)], ['inf', 'infty']
    elif direction == 'down':
        lo, hi = ['-inf', '-infty'], [-k, str(-k)]
    else:
        lo, hi = ['-inf', '-infty'], ['inf', 'infty']
    if ctl.pick([False, True]):
        lo, hi = hi, lo
    tol = ctl.pick([None, 1e-12, 1e-9, 1e-6, 1e-6, 1e-4, 1e-4, '0.01%', '1%'] if kind != 'cutoff-minus' else
                   [None, 1e-12, 1e-9, 1e-9, 1e-6, 1e-6, '0.0001%'])
    avar = ctl.pick(['n', 'k', 'm'])
    a = {'lo': lo, 'hi': hi, 'tree': tree, 'var': avar}
    s = {'lo': list(lo), 'hi': list(hi), 'tree': tree, 'tvar': avar, 'var': avar}
    pos = list(draw(st.permutations(FIELDS)))
    ctx = {'eo': eo, 'tol': tol, 'samples': ns, 'vars': variables, 'pos': pos, 'mode': mode, 'ctl': ctl}
    if kind in ('cutoff-explicit', 'cutoff-minus'):
        d = 0 if kind == 'cutoff-explicit' else draw(st.sampled_from([1, 2, 3]))
        for key in ('lo', 'hi'):
            if s[key][0] == 'inf':
                s[key] = [cutoff - d, str(cutoff - d)]
            elif s[key][0] == '-inf':
                s[key] = [-(cutoff - d), str(-(cutoff - d))]
    elif kind == 'start-off':
        keys = [key for key in ('lo', 'hi') if isinstance(s[key][0], int)]
        if keys:
            d = draw(st.sampled_from([1, -1, 2]))
            s[keys[0]] = [s[keys[0]][0] + d, str(s[keys[0]][0] + d)]
        else:
            kind = 'same'
    elif kind == 'perturb':
        eps = draw(st.sampled_from([1e-3, 1e-5, 0.05, 1e-8]))
        s['tree'] = ['*', s['tree'], C(1.0 + eps)]
    else:
        apply_op(draw, kind, s, ctx)
    return {'seed': draw(st.integers(0, 2 ** 31 - 1)), 'mode': mode, 'kind': kind, 'eo': eo, 'a': a, 's': s,
            'vars': variables, 'samples': ns, 'tol': tol, 'pos': pos, 'infty_val': infty_val, 'infinite': True}


def strat_infinite(tier):
    return inf_cases(tier)


# ----------------------------------------------------------------------------------------------------
# part 'errors': exhaustive over pools of faulty inputs

AUTHORS = [
    {'eo': 0, 'a': {'lo': [1, '1'], 'hi': [4, '4'], 'tree': ['*', N, V('x')], 'var': 'n'}},
    {'eo': 1, 'a': {'lo': [-3, '-3'], 'hi': [5, '5'], 'tree': ['+', ['^', N, C(2)], V('x')], 'var': 'k'}},
    {'eo': 2, 'a': {'lo': [6, '6'], 'hi': [0, '0'], 'tree': ['*', ['vec', [N, C(1)]], V('y')], 'var': 'm'}},
]
ERR_VARS = {'x': [1.37, 2.21], 'y': [1.5, 2.75]}
NONINT = ['1.5', '7/2', 'pi', '-0.5', 'sqrt(2)', 'x', 'e', '2.0000001', '1/3', 'y-0.25',
          # within rounding of an integer, but not one: 2.9999999999999996, 5.999999999999999, 7.000000000000001
          'sqrt(3)^2', 'sqrt(6)^2', 'sqrt(7)^2', '3-1e-12']
COMPLEX = ['i', '1+i', '2*i', 'sqrt(-4)', 'j', 'x*i', '(1+i)^2', '3-2*j']
VAR_CONSTANT = ['i', 'j', 'e', 'pi', 'infty']
VAR_DECLARED = ['x', 'y']
VAR_FUNCTION = ['sin', 'cos', 'exp', 'sqrt', 'abs', 'ln', 're', 'f', 'rf', 'rg']
VAR_INVALID = ['2n', '_n', 'n+1', "n'a", 'n m', 'n.', '1', '-n', 'n*', 'n^2', '[n]', 'n(1)', "'", '$', 'n-']


def _with_field(field):
    return [sub for sub in SUBSETS if field in sub]


def items_errors(tier):
    count = 0
    for ai, au in enumerate(AUTHORS):
        for field in ('lower', 'upper'):
            for cls, pool in (('nonint-limit', NONINT), ('complex-limit', COMPLEX)):
                for text in pool:
                    for sub in _with_field(field):
                        count += 1
                        yield {'author': ai, 'fault': cls, 'field': field, 'text': text, 'pos': _rot(sub, count)}
        for cls, pool in (('var-constant', VAR_CONSTANT), ('var-declared', VAR_DECLARED),
                          ('var-function', VAR_FUNCTION), ('var-invalid', VAR_INVALID)):
            for text in pool:
                for sub in _with_field('summation_variable'):
                    for use in ((False, True) if cls != 'var-invalid' and 'summand' in sub else (False,)):
                        count += 1
                        yield {'author': ai, 'fault': cls, 'field': 'summation_variable', 'text': text,
                               'use_in_summand': use, 'pos': _rot(sub, count)}
        for field in FIELDS:
            for sub in _with_field(field):
                count += 1
                yield {'author': ai, 'fault': 'blank', 'field': field, 'text': '', 'pos': _rot(sub, count)}
        # instructor-only variables
        # (['a_{1}']: an INSTANCE of the numbered variable a - such names exist only once a submission mentions them)
        for ivars in (['c'], ['c', 'pi'], ['c', 'nothere'], ['a_{1}'], ['a_{1}', 'pi']):
            for field, text in (('lower', None), ('upper', None), ('summand', None), ('summand', 'pi'),
                                ('summation_variable', 'c'), ('control', None), ('control-wrong', None)):
                if field == 'summation_variable' and ivars[0] != 'c':
                    continue
                for sub in SUBSETS:
                    if field in FIELDS and field not in sub:
                        continue
                    if field.startswith('control') and 'summand' not in sub:
                        continue
                    count += 1
                    yield {'author': ai, 'fault': 'instructor', 'field': field, 'text': text, 'ivars': ivars,
                           'pos': _rot(sub, count)}
        # an author field outside the student's hands that needs the instructor variable (not judged)
        for sub in SUBSETS:
            if 'summand' not in sub:
                yield {'author': ai, 'fault': 'instructor', 'field': 'author-summand', 'text': None, 'ivars': ['c'],
                       'pos': list(sub)}
        # failing author sums
        for afield, atext, strict in AUTHOR_FAULTS:
            for sub in SUBSETS:
                count += 1
                yield {'author': ai, 'fault': 'author', 'field': afield, 'text': atext, 'strict': strict,
                       'pos': _rot(sub, count)}


AUTHOR_FAULTS = [
    ('lower', '1.5', True), ('upper', 'x', True), ('lower', 'i', True), ('upper', '2+3*i', True),
    ('summand', '1/((VAR-1)*(VAR-2))', True), ('summand', 'VAR*q', True), ('summand', 'g(VAR)', True),
    ('summand', 'VAR+[1,2]', True),
    ('limits', 'infty', True), ('limits', '-infty', True),
    ('summation_variable', 'pi', 'var'), ('summation_variable', 'x', 'var'), ('summation_variable', 'i', 'var'),
    ('summand', 'VAR+', False), ('lower', '(1', False),
]


def _rot(sub, k):
    sub = list(sub)
    k %= len(sub)
    out = sub[k:] + sub[:k]
    return out if (k // 2) % 2 == 0 else out[::-1]


def judge_errors(spec, rec):
    au = AUTHORS[spec['author']]
    a = dict(au['a'])
    s = {'lo': list(a['lo']), 'hi': list(a['hi']), 'tree': a['tree'], 'tvar': a['var'], 'var': a['var']}
    full = {'seed': 11, 'eo': au['eo'], 'a': a, 's': s, 'vars': {k: list(v) for k, v in ERR_VARS.items()},
            'samples': 2, 'tol': 1e-6, 'pos': spec['pos'], 'user_f': 'with-random'}
    fault, field, text = spec['fault'], spec['field'], spec['text']
    expect = 'student-error'
    label = fault
    if fault in ('nonint-limit', 'complex-limit'):
        s['lo' if field == 'lower' else 'hi'] = [None, text]
    elif fault.startswith('var-'):
        s['var'] = text
        if spec.get('use_in_summand'):
            s['tvar'] = text
    elif fault == 'blank':
        if field == 'summand':
            s['text'] = ''
        elif field == 'summation_variable':
            s['var'] = ''
        else:
            s['lo' if field == 'lower' else 'hi'] = [None, '']
    elif fault == 'instructor':
        nm = spec['ivars'][0]
        if nm == 'c':
            full['vars']['c'] = [2.5, 2.5]
        else:
            full['numbered'] = {'a': [2.5, 2.5]}
        full['instructor_vars'] = spec['ivars']
        a['tree'] = ['*', V(nm), a['tree']]
        s['tree'] = ['*', C(2.5), s['tree']]          # what a student can write: the value of c
        label = 'instructor-var'
        if field == 'lower':
            s['lo'] = [None, '%s+%s-%s' % (s['lo'][1], nm, nm)]
        elif field == 'upper':
            s['hi'] = [None, '%s*(%s)/%s' % (nm, s['hi'][1], nm)]
        elif field == 'summand' and text is None:
            s['tree'] = a['tree']
        elif field == 'summand':
            s['tree'] = ['/', ['*', s['tree'], V(text)], V(text)]
            if text not in spec['ivars']:
                expect, label = 'correct', 'instructor/control'
        elif field == 'summation_variable':
            s['var'] = s['tvar'] = 'c'
            expect, label = 'unjudged', 'unjudged/variable-is-instructor-var'
        elif field == 'control':
            expect, label = 'correct', 'instructor/control'
        elif field == 'control-wrong':
            s['tree'] = ['*', C(2.4), au['a']['tree']]
            expect, label = 'wrong', 'instructor/control'
        elif field == 'author-summand':
            # the student never mentions c; a correct submission must be graded correct (known finding while the
            # author's fields are evaluated in the student's scrubbed scope)
            expect, label = 'correct', 'instructor/author-only-field'
    elif fault == 'author':
        label = 'author-fault'
        atext = text.replace('VAR', a['var'])
        strict = spec['strict']
        if field == 'limits':
            a['lo'] = [None, atext]
            a['hi'] = [None, atext]
            touched = ['lower', 'upper']
        elif field == 'summand':
            a['text'] = atext
            touched = ['summand']
        elif field == 'summation_variable':
            a['var'] = atext
            touched = ['summation_variable']
        else:
            a['lo' if field == 'lower' else 'hi'] = [None, atext]
            touched = [field]
        # the student enters a sound value wherever asked; elsewhere the author's faulty value is used
        # every failure of the author's own sum is a configuration error (statement, last clause) - also an
        # unparsable author expression and an author's clashing summation variable that students do not enter
        expect = 'config-error'
        for f in touched:
            if f not in spec['pos']:
                # the faulty author value also fills the student's slot
                if f == 'summand':
                    s['text'] = atext
                elif f == 'summation_variable':
                    s['var'] = atext
                else:
                    s['lo' if f == 'lower' else 'hi'] = [None, atext]
    (status, val), answers, inp = run_library(full, rec)
    rec.cls(label if label.startswith(('unjudged', 'instructor/')) else 'error/' + label)
    rec.nontrivial()
    obs = {'expect': expect, 'input': inp, 'author': answers, 'positions': spec['pos']}
    if status == 'ok':
        obs['result'] = val
        good = isinstance(val, dict) and val.get('ok') is True and val.get('grade_decimal') == 1
        bad = isinstance(val, dict) and val.get('ok') is False and val.get('grade_decimal') == 0
        if expect == 'correct' and good or expect == 'wrong' and bad:
            return obs
        if expect == 'unjudged':
            rec.note(label + '/graded')
            return obs
        if label == 'instructor/author-only-field':
            raise Violation('instructor-var-in-author-only-field', 'a correct submission was graded %r' % (val,), **obs)
        if expect in ('correct', 'wrong'):
            raise Violation('instructor-vars/control', 'a sum that never mentions the instructor-only variable '
                            'should be graded %s, got %r' % (expect, val), **obs)
        raise Violation('no-error/' + label, 'expected a %s (%s: %s=%r, input %r) but the submission was graded %r' % (
            'configuration error' if expect == 'config-error' else 'student-facing error', fault, field, text, inp,
            val), **obs)
    obs['error'] = '%s: %s' % (type(val).__name__, str(val)[:160])
    if not isinstance(val, MITxError):
        raise Violation('foreign-exception/' + type(val).__name__, 'raised %s: %s' % (type(val).__name__, val), **obs)
    if expect == 'unjudged':
        rec.note('%s/%s' % (label, 'ConfigError' if isinstance(val, ConfigError) else 'StudentFacingError'))
        return obs
    if label == 'instructor/author-only-field':
        raise Violation('instructor-var-in-author-only-field', 'a correct submission that never mentions the '
                        'instructor-only variable raised %s: %s' % (type(val).__name__, str(val)[:200]), **obs)
    if expect == 'student-error':
        if isinstance(val, StudentFacingError):
            if type(val) is StudentFacingError:
                rec.note('generic-error/' + label)
            return obs
        raise Violation('wrong-error-family/' + label, 'a student fault (%s=%r) must raise a student-facing error, '
                        'got %s: %s' % (field, text, type(val).__name__, val), **obs)
    if expect == 'config-error':
        if isinstance(val, ConfigError):
            return obs
        raise Violation('author-fault-not-config-error', 'the author\'s own sum fails (%s=%r) but the error raised is '
                        '%s: %s' % (field, text, type(val).__name__, str(val)[:200]), **obs)
    raise Violation('error-on-valid-sum/' + type(val).__name__, 'expected the submission to be graded %s, got %s: %s'
                    % (expect, type(val).__name__, str(val)[:200]), **obs)


PARTS = [
    Part('ranges', 'enum', judge_ranges, items=items_ranges, exhaustive=True),
    Part('errors', 'enum', judge_errors, items=items_errors, exhaustive=True),
    Part('sums', 'hyp', judge_value, strategy=strat_sums, budget={'quick': 3000, 'thorough': 120000}),
    Part('infinite', 'hyp', judge_value, strategy=strat_infinite, budget={'quick': 600, 'thorough': 15000}),
]


# ----------------------------------------------------------------------------------------------------------------
# sums whose terms call a RANDOMLY SAMPLED function (redrawn at every sample) and use no sampled variable: author and
# student must be evaluated with the same draw at every sample (a seeded change reused the author's value of the first
# sample whenever "nothing variable" was sampled)

RF_AUTHORS = [
    {'lower': '1', 'upper': '4', 'summand': 'f(n)', 'summation_variable': 'n'},
    {'lower': '0', 'upper': '3', 'summand': 'f(n)*n+h(n,1)', 'summation_variable': 'n'},
    {'lower': '-2', 'upper': '2', 'summand': 'f(n/2)', 'summation_variable': 'n'},
]
RF_STUDENTS = [
    ('same', lambda a: [a['lower'], a['upper'], a['summand'], a['summation_variable']], True),
    ('renamed', lambda a: [a['lower'], a['upper'], a['summand'].replace('n', 'k'), 'k'], True),
    ('swapped-limits', lambda a: [a['upper'], a['lower'], a['summand'], a['summation_variable']], True),
    ('plus-zero', lambda a: [a['lower'], a['upper'], '(%s)+0' % a['summand'], a['summation_variable']], True),
    ('offset', lambda a: [a['lower'], a['upper'], '(%s)+3' % a['summand'], a['summation_variable']], False),
]


def items_randfunc(tier):
    for ai in range(len(RF_AUTHORS)):
        for si in range(len(RF_STUDENTS)):
            for samples in (2, 3, 5):
                for seed in (0, 1, 2):
                    yield {'author': ai, 'student': si, 'samples': samples, 'seed': seed}


def judge_randfunc(spec, rec):
    from mitxgraders import RandomFunction
    a = RF_AUTHORS[spec['author']]
    label, mk, good = RF_STUDENTS[spec['student']]
    inp = mk(a)
    g = SumGrader(answers=dict(a), samples=spec['samples'], tolerance=1e-9,
                  user_functions={'f': RandomFunction(), 'h': RandomFunction(input_dim=2)})
    set_seed(spec['seed'])
    status, val = call(g, None, inp)
    rec.calls()
    rec.cls('random-function/' + label)
    rec.nontrivial()
    if status != 'ok':
        if isinstance(val, MITxError):
            raise Violation('random-function/raised', 'sum over a random function: %r raised %s: %s' % (
                inp, type(val).__name__, str(val)[:150]))
        raise val
    ok = val.get('ok') is True
    if ok != good:
        # 'offset' misses by 3 per term at every sample (|terms| <= 10, tolerance 1e-9): never correct
        raise Violation('random-function/' + ('equal-sum-rejected' if good else 'unequal-sum-accepted'),
                        'author %r, student %r (%s), %d samples: graded %r' % (a, inp, label, spec['samples'], val))
    return {'student': inp, 'result': val}


PARTS.append(Part('randfunc', 'enum', judge_randfunc, items=items_randfunc, exhaustive=True))
REQUIRED['random-function/same'] = 20
