"""Brute-force / DP reference oracles that never touch the library under test."""
import itertools


def min_cost_matching(M):
    """Exact minimum total cost over all matchings of size min(r, c) (each row/col used at most once).

    Subset DP over the longer side; M is a list of equal-length lists of finite numbers.
    """
    r, c = len(M), len(M[0])
    if r > c:
        M = [list(col) for col in zip(*M)]
        r, c = c, r
    # every row must be matched, to distinct columns
    INF = float('inf')
    dp = {0: 0}
    for i in range(r):
        nd = {}
        row = M[i]
        for mask, cost in dp.items():
            for j in range(c):
                b = 1 << j
                if mask & b:
                    continue
                v = cost + row[j]
                m2 = mask | b
                if v < nd.get(m2, INF):
                    nd[m2] = v
        dp = nd
    return min(dp.values())


def brute_min_cost(M):
    r, c = len(M), len(M[0])
    if r <= c:
        return min(sum(M[i][cols[i]] for i in range(r)) for cols in itertools.permutations(range(c), r))
    return min(sum(M[rows[j]][j] for j in range(c)) for rows in itertools.permutations(range(r), c))


def best_assignments(credit, tol=1e-9):
    """credit: n x n matrix credit[answer][input].  Returns (best_total, list of optimal permutations p
    with p[answer] = input)."""
    n = len(credit)
    best, perms = None, []
    for p in itertools.permutations(range(n)):
        t = sum(credit[a][p[a]] for a in range(n))
        if best is None or t > best + tol:
            best, perms = t, [p]
        elif abs(t - best) <= tol:
            perms.append(p)
    return best, perms
