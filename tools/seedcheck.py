#!/venv/bin/python
"""Confirm a seeded change and run the checks against it.

usage: tools/seedcheck.py <dir with patch.diff, demo.py, meta.json> [--keep <id>] [--checks C03,C10] [--tier quick]

1. scratch copy of /repo HEAD (git archive) outside /repo and /verif; apply patch.diff
2. the repository's test suite on the patched copy (must equal the baseline: 365 passed / 36 failed since the fixes 7246e8a and d9ace29 added doctests; 363 before)
3. demo.py on the patched copy (must exit non-zero) and on /repo (must exit 0)
4. ./check <property> quick against the patched copy (VERIF_REPO / VERIF_OUT) -> CAUGHT / MISSED
5. with --keep <id>: copies patch.diff, demo.py and an augmented meta.json to /verif/seeded/<id>/
The scratch copy is removed at the end.
"""
import json
import os
import shutil
import subprocess
import sys
import tempfile

HERE = os.path.dirname(os.path.dirname(os.path.abspath(__file__)))


def sh(cmd, **kw):
    return subprocess.run(cmd, capture_output=True, text=True, **kw)


def main():
    args = sys.argv[1:]
    src = os.path.abspath(args[0])
    keep = args[args.index('--keep') + 1] if '--keep' in args else None
    tier = args[args.index('--tier') + 1] if '--tier' in args else 'quick'
    meta = json.load(open(os.path.join(src, 'meta.json')))
    prop = meta['property']
    checks = args[args.index('--checks') + 1].split(',') if '--checks' in args else [prop]
    d = tempfile.mkdtemp(prefix='mitxseed.', dir='/var/tmp')
    out = {'property': prop}
    try:
        dst = os.path.join(d, 'repo')
        os.makedirs(dst)
        subprocess.check_call('git -C /repo archive HEAD | tar -x -C %s' % dst, shell=True)
        r = sh(['git', 'apply', '--unsafe-paths', '--directory=' + dst, os.path.join(src, 'patch.diff')], cwd='/')
        if r.returncode != 0:
            r = sh(['patch', '-p1', '-d', dst, '-i', os.path.join(src, 'patch.diff')])
            if r.returncode != 0:
                print('PATCH DOES NOT APPLY:', r.stderr or r.stdout)
                return 2
        r = sh(['/venv/bin/python', '-m', 'pytest', '-q', '-p', 'no:cacheprovider', '--timeout=900',
                '--continue-on-collection-errors'], cwd=dst)
        tail = r.stdout.strip().splitlines()[-1] if r.stdout.strip() else '?'
        out['tests'] = tail
        demo = os.path.join(src, 'demo.py')
        r1 = sh(['/venv/bin/python', demo, dst], cwd=d)
        r0 = sh(['/venv/bin/python', demo, '/repo'], cwd=d)
        out['demo_patched_rc'], out['demo_clean_rc'] = r1.returncode, r0.returncode
        out['demo_output'] = (r1.stdout + r1.stderr)[-600:]
        print('tests   :', tail)
        print('demo    : patched rc=%d  clean rc=%d' % (r1.returncode, r0.returncode))
        out['checks'] = {}
        for c in checks:
            env = dict(os.environ, VERIF_REPO=dst, VERIF_OUT=d)
            r = sh([os.path.join(HERE, 'check'), c, tier], env=env)
            lines = [l for l in r.stdout.splitlines() if l.startswith(('VIOLATION', '  bucket'))]
            verdict = {0: 'MISSED', 1: 'CAUGHT', 2: 'HARNESS-ERROR'}.get(r.returncode, 'rc=%d' % r.returncode)
            out['checks'][c] = {'verdict': verdict, 'tier': tier, 'buckets': [l.strip()[:300] for l in lines if l.startswith('  bucket')][:4]}
            print('check %s %s: %s' % (c, tier, verdict))
            for l in lines[:4]:
                print('      ' + l[:260])
            if r.returncode == 2:
                print(r.stderr[-1500:])
        if keep:
            kd = os.path.join(HERE, 'seeded', keep)
            os.makedirs(kd, exist_ok=True)
            shutil.copy(os.path.join(src, 'patch.diff'), kd)
            shutil.copy(demo, kd)
            meta['confirmed'] = {
                'base_commit': subprocess.check_output(['git', '-C', '/repo', 'rev-parse', '--short', 'HEAD']).decode().strip(),
                'tests_on_patched_tree': out['tests'],
                'demo_rc_patched_tree': out['demo_patched_rc'], 'demo_rc_clean_tree': out['demo_clean_rc'],
                'what_i_ran': ['git archive HEAD of /repo into a scratch dir, git apply patch.diff',
                               'pytest -q on the patched copy', 'demo.py <patched copy> and demo.py /repo',
                               './check %s %s with VERIF_REPO=<patched copy>' % (','.join(checks), tier)],
                'checks': out['checks'],
            }
            json.dump(meta, open(os.path.join(kd, 'meta.json'), 'w'), indent=1)
            print('kept as', kd)
    finally:
        shutil.rmtree(d, ignore_errors=True)
    return 0


if __name__ == '__main__':
    sys.exit(main())
