"""C09 - restrictions on student formulas cannot be bypassed to obtain credit."""
import re

from hypothesis import strategies as st

from vlib import rivals
from vlib.core import call_twice, Part, Violation, Discard, call

from mitxgraders import (FormulaGrader, NumericalGrader, MatrixGrader, SumGrader, ListGrader, RandomFunction,
                         DependentSampler)
from mitxgraders.exceptions import MITxError, StudentFacingError, InvalidInput
from mitxgraders.helpers.calc.exceptions import UndefinedVariable, UndefinedFunction
from mitxgraders.sampling import set_seed
from voluptuous import Error as SchemaError

RULE = ("A case = a restricted grader (Formula / Numerical / Matrix / Sum grader or an ordered ListGrader whose answers "
        "use sibling_k), its twin without the restriction under test, an honest correct student input and a cheating "
        "input. Clauses: blacklist, whitelist, whitelist=[None], required_functions, forbidden_strings, instructor_vars "
        "(sampled variable, DependentSampler input, default constant, user constant), sibling variables, undeclared "
        "names (unknown, primed, case variants, prefix/suffix look-alikes, tensor-index variants, variable used as "
        "function and function used as variable, case variants of user functions/constants), numbered variables "
        "(bare head, other head, case variant, primed/indexed variants) and metric suffixes off. The cheating input is "
        "a correct formula combined with a neutral term that uses the restricted construct Z (A+0*Z, A+Z*0, A+Z-Z, "
        "A*Z^0, Z inside a function argument, an exponent, nested parentheses, min/max argument lists, an array entry) "
        "or, for forbidden strings, a correct formula whose text contains the forbidden string once U+0020 is removed "
        "from both; for required functions a correct formula lacking one of them (or using only a look-alike such as "
        "sinh for sin). Oracle: precondition = the twin grades the cheating input with credit > 0 in the targeted "
        "entry (where no twin exists: the honest input, i.e. the cheating input minus the neutral term, earns credit); "
        "then the restricted grader must raise InvalidInput / UndefinedVariable / UndefinedFunction (undefined-name "
        "clauses: one of the two Undefined classes) - returning any result, the generic 'Could not check input' error or "
        "another error class is a violation. Control: the grader whose answers use the restricted construct is "
        "constructed, and the honest input earns exactly the twin's (expected) credit. Exhaustive parts: every default "
        "function x every neutral-term shape x {blacklist, whitelist=[None], whitelist of others} x {full, partial "
        "credit answer}; every undefined-name offender x shape x grader class. Non-trivial = the construct is not at top "
        "level (inside argument / array / exponent / parentheses / cancelling pair), or the matched answer has partial "
        "credit, or names collide by case or prefix; distinct by spec.")
ASSUMPTIONS = ["student input is text; spaces (U+0020) may appear anywhere in it (the parser removes them before parsing)",
               "forbidden strings are compared after removing U+0020 only (tabs and dashes are not claimed)",
               "all formulas are numerically tame (variables in [1,5], neutral terms exactly 0 or 1), twin and restricted "
               "grader are called with the same sampling seed", "debug=False; scipy-backed functions (fact, factorial) "
               "and IntegralGrader are out of scope", "a_{07}-style zero-padded numbered instances are not generated "
               "(the property does not say whether they are allowed instances)",
               "SumGrader cases have the student enter all four parts (default input_positions), except in the part "
               "'sum-author-parts', which checks the control clause when some parts are supplied by the author"]
REQUIRED = {'grader/FormulaGrader': 300, 'grader/NumericalGrader': 100, 'grader/MatrixGrader': 150,
            'grader/SumGrader': 150, 'grader/ListGrader': 150,
            'clause/blacklist': 100, 'clause/whitelist': 100, 'clause/whitelist-none': 60, 'clause/required': 100,
            'clause/forbidden': 100, 'clause/instructor': 100, 'clause/sibling': 50, 'clause/undefined': 100,
            'clause/numbered': 50, 'clause/suffix': 50,
            'tag/partial-credit': 100, 'tag/case-collision': 60, 'tag/prefix-collision': 60,
            'tag/case-variant-with-braces': 25, 'tag/author-uses-construct': 300, 'tag/nested': 500,
            'tag/forbidden-needs-space-removal': 40, 'tag/entry-partial-credit': 10, 'tag/user-function': 50,
            'tag/matrix-array-entry': 30, 'sum/limit': 30, 'sum/summand': 30}

CLS = {'FormulaGrader': FormulaGrader, 'NumericalGrader': NumericalGrader, 'MatrixGrader': MatrixGrader,
       'SumGrader': SumGrader, 'ListGrader': ListGrader}
USERFN = {'sq': lambda x: x * x, 'inc': lambda x: x + 1, 'dbl': lambda x: 2 * x, 'idn': lambda x: x}
UNDEFINED_CLAUSES = ('instructor', 'sibling', 'undefined', 'numbered', 'suffix')
FUNCTION_CLAUSES = ('blacklist', 'whitelist', 'whitelist-none', 'required', 'forbidden')

# ----------------------------------------------------------------------------------------------------
# building graders from JSON descriptions


def decode(o):
    if isinstance(o, list):
        return [decode(x) for x in o]
    if isinstance(o, dict):
        if '$tuple' in o:
            return tuple(decode(x) for x in o['$tuple'])
        if '$fn' in o:
            return USERFN[o['$fn']]
        if '$rand' in o:
            return RandomFunction()
        if '$dep' in o:
            return DependentSampler(depends=list(o['$dep']['depends']), formula=o['$dep']['formula'])
        if '$grader' in o:
            return CLS[o['$grader']](**{k: decode(v) for k, v in o['kw'].items()})
        return {k: decode(v) for k, v in o.items()}
    return o


def build(g):
    grader = decode(g)
    rivals.after_build(grader)     # vlib/rivals.py: a second grader of the same class is built and used first
    return grader


def grades_of(res):
    if isinstance(res, dict) and 'input_list' in res:
        return [e['grade_decimal'] for e in res['input_list']]
    return res['grade_decimal']


def target_grade(res, slot):
    g = grades_of(res)
    if isinstance(g, list):
        return g[slot if slot is not None else 0]
    return g


def same_grades(a, b):
    if isinstance(a, list) != isinstance(b, list):
        return False
    if isinstance(a, list):
        return len(a) == len(b) and all(abs(x - y) <= 1e-9 for x, y in zip(a, b))
    return abs(a - b) <= 1e-9


def run(grader, inp, seed):
    return call_twice(grader, lambda: set_seed(seed), None, list(inp) if isinstance(inp, list) else inp)


def strip_sp(s):
    return s.replace(' ', '')


def texts_of(inp):
    return list(inp) if isinstance(inp, list) else [inp]


# ----------------------------------------------------------------------------------------------------
# the judge (shared by every part)


def judge(spec, rec):
    clause, seed, slot = spec['clause'], spec['seed'], spec.get('slot')
    honest, cheat = spec['honest'], spec['cheat']
    tags = list(spec.get('tags', []))
    # --- control 1: the author's configuration (whose answers may use the restricted construct) is accepted
    st_, G = call(build, spec['g'])
    if st_ != 'ok':
        if isinstance(G, (MITxError, SchemaError)):
            raise Violation('control/author-config-rejected/' + clause,
                            'grader whose answers use the restricted construct was rejected: %s: %s'
                            % (type(G).__name__, str(G)[:200]))
        raise G
    T = build(spec['gt']) if spec.get('gt') is not None else None
    ncalls = 0

    # --- the twin's view of the honest input (is the generated problem sound?)
    want = spec.get('hgrade')
    if T is not None:
        st_, rt = run(T, honest, seed)
        ncalls += 1
        if st_ != 'ok':
            if isinstance(rt, MITxError):
                raise Discard('twin refuses the honest input (generator)')
            raise rt
        tw = grades_of(rt)
        if want is not None and not same_grades(tw, want):
            raise Discard('twin grades the honest input differently from the construction (generator)')
        want = tw
    # --- control 2: an honest correct formula still earns its credit
    st_, rh = run(G, honest, seed)
    ncalls += 1
    if st_ != 'ok':
        if isinstance(rh, MITxError):
            raise Violation('control/honest-refused/' + clause,
                            'honest input %r (no restricted construct) was refused: %s: %s'
                            % (honest, type(rh).__name__, str(rh)[:200]), twin=want)
        raise rh
    got = grades_of(rh)
    if want is not None and not same_grades(got, want):
        if T is None:
            # no twin to tell a numerically unlucky construction from over-blocking: not judged
            raise Discard('honest input graded differently from the construction, no twin (generator)')
        raise Violation('control/honest-grade/' + clause, 'honest input %r graded %r, twin %r'
                        % (honest, got, want))
    if not target_grade(rh, slot) > 0:
        raise Discard('honest input earns no credit (generator)')

    # --- independent re-derivation of "the cheating input uses the restricted construct"
    flat = [strip_sp(t) for t in texts_of(cheat)]
    if slot is not None:
        flat = [flat[slot]]
    if clause == 'forbidden':
        forb = [strip_sp(f) for f in spec['forbidden']]
        if not any(f in t for f in forb for t in flat):
            raise RuntimeError('generator: cheating input does not contain a forbidden string')
        if any(f in strip_sp(t) for f in forb for t in (texts_of(honest) if slot is None else [honest[slot]])):
            raise RuntimeError('generator: honest input contains a forbidden string')
        if not any(f in t for f in spec['forbidden'] for t in texts_of(cheat)):
            tags.append('forbidden-needs-space-removal')
    elif clause == 'required':
        used = set()
        for t in flat:
            used |= set(re.findall(r"([A-Za-z][A-Za-z0-9_]*(?:_\{-?\w+\})?(?:\^\{-?\w+\})?'*)\(", t))
        if all(f in used for f in spec['required']):
            raise RuntimeError('generator: cheating input uses every required function')
    else:
        off = spec['offender']
        if not any(off in t for t in flat):
            raise RuntimeError('generator: offender %r not in the cheating input %r' % (off, cheat))

    # --- precondition: the formula would otherwise earn credit
    if T is not None:
        st_, rc = run(T, cheat, seed)
        ncalls += 1
        if st_ != 'ok':
            if isinstance(rc, MITxError):
                raise Discard('precondition: twin refuses the cheating input (%s)' % type(rc).__name__)
            raise rc
        if not target_grade(rc, slot) > 0:
            raise Discard('precondition: twin gives the cheating input no credit')
        pre = target_grade(rc, slot)
    else:
        pre = target_grade(rh, slot)   # the cheating input minus its neutral term earns credit

    # --- history: just before, the same grader refused a submission that USES everything the honest answer uses (required
    # functions included) but is nested far too deeply to be parsed; whatever that failed attempt left behind must not
    # help the next submission (a seeded change leaked the names of such a failed parse into the next expression)
    if isinstance(cheat, str) and isinstance(honest, str) and len(cheat) % 2 == 0:
        call(G, None, honest + '+' + '(' * 130 + '1' + ')' * 130)
        ncalls += 1
        tags.append('after-a-failed-deeply-nested-submission')
    # --- the restricted grader must refuse
    st_, r = run(G, cheat, seed)
    ncalls += 1
    rec.calls(ncalls)
    what = 'clause %s, offender %r, shape %s, input %r' % (clause, spec.get('offender'), spec.get('shape'), cheat)
    if st_ == 'ok':
        g = target_grade(r, slot)
        if g > 0:
            raise Violation('graded/' + clause, 'restricted construct earned credit %r (twin: %r): %s'
                            % (g, pre, what), result=r)
        raise Violation('returned-zero/' + clause, 'input that would earn credit %r was graded %r instead of being '
                        'refused with an error: %s' % (pre, grades_of(r), what), result=r)
    if not isinstance(r, MITxError):
        raise r
    collide = spec.get('collide')
    brace_twin = bool(collide) and '{' in collide and collide != spec.get('offender') and \
        collide.lower() == str(spec.get('offender')).lower()
    if type(r) is StudentFacingError and 'Could not check input' in str(r):
        if brace_twin:
            raise Violation('generic-error/case-variant-with-braces', 'undefined name %r beside the allowed %r was '
                            'refused with the generic error %r' % (spec['offender'], collide, str(r)[:120]))
        raise Violation('generic-error/' + clause, 'refused with the generic error %r: %s' % (str(r)[:120], what))
    allowed = (UndefinedVariable, UndefinedFunction) if clause in UNDEFINED_CLAUSES else \
        (InvalidInput, UndefinedVariable, UndefinedFunction)
    if not isinstance(r, allowed):
        raise Violation('wrong-error/%s/%s' % (clause, type(r).__name__), 'refused with %s (%s), expected %s: %s'
                        % (type(r).__name__, str(r)[:120], '/'.join(c.__name__ for c in allowed), what))

    # --- history: the identical submission sent again to the SAME grader object is refused again (a seeded change
    # remembered an input as "validated" before its validation had succeeded, so the second attempt was graded)
    st2, r2 = run(G, cheat, seed)
    rec.calls()
    if st2 == 'ok':
        raise Violation('resubmission-graded/' + clause, 'the same grader refused this input (%s) and then graded the '
                        'identical resubmission %r: %s' % (type(r).__name__, grades_of(r2), what), result=r2)
    if not isinstance(r2, MITxError):
        raise r2
    if type(r2) is not type(r):
        raise Violation('resubmission-different-error/' + clause, 'first refusal %s, identical resubmission %s: %s' % (
            type(r).__name__, type(r2).__name__, what))

    # --- classes
    rec.cls('grader/' + spec['g']['$grader'])
    rec.cls('clause/' + clause)
    rec.cls('shape/' + str(spec.get('shape')))
    if brace_twin:
        tags.append('case-variant-with-braces')
    if 0 < pre < 1:
        tags.append('partial-credit')
    for t in set(tags):
        rec.cls('tag/' + t)
    for n in spec.get('notes', []):
        rec.cls(n)
    rec.cls('refusal/' + type(r).__name__)
    rec.nontrivial(bool({'nested', 'partial-credit', 'case-collision', 'prefix-collision',
                         'case-variant-with-braces', 'entry-partial-credit'} & set(tags)))
    return {'twin_credit': pre, 'honest': got, 'refused_with': type(r).__name__, 'message': str(r)[:100]}


# ----------------------------------------------------------------------------------------------------
# vocabulary

# a numeric argument at which the function is finite and real
NUMARG = {'sin': '0', 'cos': '0', 'tan': '0', 'sec': '0', 'csc': '1', 'cot': '1', 'arcsin': '0', 'arccos': '1',
          'arctan': '0', 'arcsec': '1', 'arccsc': '1', 'arccot': '1', 'sinh': '0', 'cosh': '0', 'tanh': '0',
          'sech': '0', 'csch': '1', 'coth': '1', 'arcsinh': '0', 'arccosh': '1', 'arctanh': '0', 'arcsech': '1',
          'arccsch': '1', 'arccoth': '2', 'sqrt': '4', 'exp': '0', 'ln': '1', 'log10': '10', 'log2': '2',
          'abs': '-1', 're': '1', 'im': '1', 'conj': '1', 'floor': '1.5', 'ceil': '1.5', 'min': '1,2', 'max': '1,2',
          'arctan2': '1,1', 'kronecker': '1,2'}
ALT_ARG = {'sin': '1', 'cos': '2', 'tan': '1', 'sqrt': '2', 'exp': '1', 'ln': '2', 'abs': '2', 'sinh': '1',
           'cosh': '1', 'tanh': '1', 'arctan': '1', 'log10': '2', 'log2': '3', 're': '2', 'conj': '3', 'floor': '2.5',
           'ceil': '0.5', 'min': '3,1', 'max': '0,2', 'arcsinh': '1'}
SCALAR_FUNCS = sorted(NUMARG)                       # every default function except fact/factorial (scipy)
# functions that are total and tame on [1, 5] (may take a variable as argument)
SAFE = ['sin', 'cos', 'exp', 'sqrt', 'ln', 'abs', 'tanh', 'arctan', 'cosh', 'sinh', 'arcsinh', 'log10', 'log2', 're',
        'conj', 'floor', 'ceil']
# look-alikes: a function whose name contains / extends another one's
LOOKALIKE = {'sin': ['sinh', 'arcsin', 'arcsinh'], 'cos': ['cosh', 'arccos'], 'tan': ['tanh', 'arctan', 'arctan2'],
             'sec': ['sech', 'arcsec'], 'csc': ['csch', 'arccsc'], 'cot': ['coth', 'arccot'], 'sinh': ['arcsinh', 'sin'],
             'cosh': ['arccosh', 'cos'], 'tanh': ['arctanh', 'tan'], 'arctan': ['arctan2', 'tan'], 'ln': ['log10', 'log2'],
             'log2': ['log10', 'ln'], 'exp': ['ln'], 'sqrt': ['abs'], 're': ['im'], 'min': ['max'], 'floor': ['ceil']}
# helper functions g with g(0) = 0 / total on the reals
G_ZERO = ['sin', 'tan', 'arctan', 'sinh', 'tanh', 'arcsin', 'arcsinh']
G_TOTAL = ['sin', 'cos', 'arctan', 'tanh']
# matrix-only functions: scalar-valued constructs using them, and the max_array_dim they need
MATRIX_Z = {'norm': ('norm([3,4])', 1), 'trans': ('(trans([1,2])*[1,1])', 1), 'ctrans': ('(ctrans([1,2])*[1,1])', 1),
            'cross': ('(cross([1,0,0],[0,1,0])*[0,0,1])', 1), 'det': ('det([[1,2],[3,5]])', 2),
            'trace': ('trace([[1,2],[3,4]])', 2), 'adj': ('(adj([1,2])*[1,1])', 1)}

# neutral-term shapes for a scalar formula A and a scalar construct Z (an atom or a parenthesised expression)
SHAPES = {
    'A+0*Z': (lambda A, Z, g: '%s+0*%s' % (A, Z), False, None),
    'A+Z*0': (lambda A, Z, g: '%s+%s*0' % (A, Z), False, None),
    '0*Z+A': (lambda A, Z, g: '0*%s+%s' % (Z, A), False, None),
    'A+Z-Z': (lambda A, Z, g: '%s+%s-%s' % (A, Z, Z), True, None),
    'A*Z^0': (lambda A, Z, g: '(%s)*%s^0' % (A, Z), True, None),
    'A/Z^0': (lambda A, Z, g: '(%s)/%s^0' % (A, Z), True, None),
    'A-0*-Z': (lambda A, Z, g: '%s-0*-%s' % (A, Z), True, None),
    'A+g(0*Z)': (lambda A, Z, g: '%s+%s(0*%s)' % (A, g, Z), True, 'zero'),
    'A+0*g(Z)': (lambda A, Z, g: '%s+0*%s(%s)' % (A, g, Z), True, 'total'),
    'A*cos(Z-Z)': (lambda A, Z, g: '(%s)*cos(%s-%s)' % (A, Z, Z), True, 'cos'),
    'A*2^(0*Z)': (lambda A, Z, g: '(%s)*2^(0*%s)' % (A, Z), True, None),
    'A^(1+0*Z)': (lambda A, Z, g: '(%s)^(1+0*%s)' % (A, Z), True, None),
    'A^(Z^0)': (lambda A, Z, g: '(%s)^(%s^0)' % (A, Z), True, None),
    'A+(1+(Z))*0': (lambda A, Z, g: '%s+(1+(%s))*0' % (A, Z), True, None),
    'A+0*min(Z,1)': (lambda A, Z, g: '%s+0*min(%s,1)' % (A, Z), True, 'min'),
    'A+0/(1+Z^2)': (lambda A, Z, g: '%s+0/(1+%s^2)' % (A, Z), True, None),
}
# shapes that need arrays (MatrixGrader only)
ARRAY_SHAPES = {
    'A+0*[Z,1]*[1,1]': (lambda A, Z, g: '%s+0*([%s,1]*[1,1])' % (A, Z), True, None),
    'A+0*norm([Z,1])': (lambda A, Z, g: '%s+0*norm([%s,1])' % (A, Z), True, 'norm'),
    'A+[0*Z,1]*[1,0]': (lambda A, Z, g: '%s+[0*%s,1]*[1,0]' % (A, Z), True, None),
}
ALL_SHAPES = dict(SHAPES, **ARRAY_SHAPES)


def apply_shape(name, A, Z, g=None):
    return ALL_SHAPES[name][0](A, Z, g)


def shape_ok(name, permitted, arrays):
    """Can this shape be used when the student may only call `permitted` (None = anything)?"""
    if name in ARRAY_SHAPES and not arrays:
        return False
    need = ALL_SHAPES[name][2]
    if need is None or permitted is None:
        return True
    if need == 'zero':
        return any(f in permitted for f in G_ZERO)
    if need == 'total':
        return any(f in permitted for f in G_TOTAL)
    return need in permitted


def helper_pool(name, permitted):
    need = ALL_SHAPES[name][2]
    if need == 'zero':
        pool = G_ZERO
    elif need == 'total':
        pool = G_TOTAL
    else:
        return [None]
    return [f for f in pool if permitted is None or f in permitted]


TOKEN = re.compile(r"[A-Za-z][A-Za-z0-9_]*(?:_\{-?\w+\})?(?:\^\{-?\w+\})?'*|(?:\d+\.?\d*|\.\d+)(?:[eE][+-]?\d+)?[A-Za-z%]*|.")


@st.composite
def spaced(draw, text, inside=False):
    """Insert U+0020 between tokens (and, if inside, anywhere)."""
    mode = draw(st.integers(0, 3))
    if mode == 0:
        return text
    toks = list(text) if (inside and mode == 3) else TOKEN.findall(text)
    if len(toks) < 2:
        return text
    bits = draw(st.integers(0, 2 ** min(len(toks) - 1, 60) - 1))
    if mode == 1:
        bits &= draw(st.integers(0, 2 ** min(len(toks) - 1, 60) - 1))
    out = [toks[0]]
    for k, t in enumerate(toks[1:]):
        if (bits >> (k % 60)) & 1:
            out.append(' ' * draw(st.sampled_from([1, 1, 1, 2])))
        out.append(t)
    return ''.join(out)


# ----------------------------------------------------------------------------------------------------
# correct answers and their rewrites: (author text, student text), mathematically equal

NUM_ATOMS = [('3', '1+2'), ('2.5', '5/2'), ('7', '7.0'), ('10', '2*5'), ('0.5', '1/2'), ('12', '3*4'), ('2', '2'),
             ('1.5', '3/2'), ('4', '2^2')]
INT_ATOMS = [('1', '1'), ('2', '4/2'), ('3', '1+2'), ('4', '2*2'), ('2', '1+1'), ('3', '3.0')]
VAR_ATOMS = [('V', 'V'), ('2*V', 'V+V'), ('V^2', 'V*V'), ('V/2', '0.5*V'), ('V+1', '1+V'), ('3*V', 'V*3'),
             ('V^3', 'V*V^2'), ('V', 'V'), ('(V+1)^2', 'V^2+2*V+1'), ('1/V', 'V^-1')]


@st.composite
def atom(draw, vs, funcs, extra_atoms):
    opts = ['num']
    if vs:
        opts += ['var', 'var', 'var']
    if funcs:
        opts += ['func']
    if extra_atoms:
        opts += ['extra']
    k = draw(st.sampled_from(opts))
    if k == 'num':
        return draw(st.sampled_from(NUM_ATOMS))
    if k == 'extra':
        return draw(st.sampled_from(extra_atoms))
    v = draw(st.sampled_from(vs)) if vs else None
    if k == 'var':
        a, s = draw(st.sampled_from(VAR_ATOMS))
        return a.replace('V', v), s.replace('V', v)
    f = draw(st.sampled_from(funcs))
    arg = v if (v is not None and draw(st.booleans())) else draw(st.sampled_from(['2', '1.5', '3']))
    form = draw(st.integers(0, 2))
    call_ = '%s(%s)' % (f, arg)
    if form == 0:
        return call_, call_
    if form == 1:
        return '%s^2' % call_, '%s*%s' % (call_, call_)
    return '2*%s' % call_, '%s+%s' % (call_, call_)


def comb(P, Q, op, flip):
    """Both sides perform the same floating-point operations on the two sub-terms (only the order differs), so the
    two texts can differ by the rounding of the sub-terms alone."""
    (pa, ps), (qa, qs) = P, Q
    if op == '+':
        return '(%s)+(%s)' % (pa, qa), ('(%s)+(%s)' % (qs, ps) if flip else '%s+(%s)' % (ps, qs))
    if op == '*':
        return '(%s)*(%s)' % (pa, qa), ('(%s)*(%s)' % (qs, ps) if flip else '(%s)*(%s)' % (ps, qs))
    return '%s-(%s)' % (pa, qa), ('-(%s)+(%s)' % (qs, ps) if flip else '(%s)-(%s)' % (ps, qs))


@st.composite
def pair(draw, vs, funcs, extra_atoms=(), nmax=3):
    """(author text, student text): the same function of the variables written in two ways."""
    n = draw(st.integers(1, nmax))
    cur = draw(atom(vs, funcs, list(extra_atoms)))
    for _ in range(n - 1):
        nxt = draw(atom(vs, funcs, list(extra_atoms)))
        cur = comb(cur, nxt, draw(st.sampled_from(['+', '*', '-', '+'])), draw(st.booleans()))
    if n == 1 and cur[0] == cur[1] and draw(st.booleans()):
        cur = (cur[0], '1*%s' % cur[1]) if draw(st.booleans()) else ('%s+0' % cur[0], cur[1])
    return cur


def fcall(f, arg=None):
    return '%s(%s)' % (f, NUMARG.get(f, '1') if arg is None else arg)


@st.composite
def func_construct(draw, f, vs):
    """A scalar construct that calls default function f."""
    if f in MATRIX_Z:
        return MATRIX_Z[f][0]
    choices = [NUMARG[f]]
    if f in ALT_ARG:
        choices.append(ALT_ARG[f])
    if vs and f in SAFE:
        choices += list(vs)
    return fcall(f, draw(st.sampled_from(choices)))


# ----------------------------------------------------------------------------------------------------
# problem context per grader kind

KINDS = ['F', 'F', 'F', 'N', 'M', 'M', 'S', 'S', 'L', 'L']
CLAUSES = {
    'F': ['blacklist', 'whitelist', 'whitelist-none', 'required', 'forbidden', 'instructor', 'undefined', 'undefined',
          'numbered', 'suffix'],
    'N': ['blacklist', 'whitelist', 'whitelist-none', 'required', 'forbidden', 'instructor', 'undefined', 'suffix',
          'suffix'],
    'M': ['blacklist', 'blacklist', 'whitelist', 'whitelist-none', 'required', 'forbidden', 'instructor', 'undefined',
          'numbered', 'suffix'],
    'S': ['blacklist', 'whitelist', 'whitelist-none', 'required', 'forbidden', 'instructor', 'undefined', 'suffix'],
    'L': ['sibling', 'sibling', 'sibling', 'blacklist', 'whitelist-none', 'required', 'forbidden', 'instructor',
          'undefined', 'suffix'],
}
KIND_CLS = {'F': 'FormulaGrader', 'N': 'NumericalGrader', 'M': 'MatrixGrader', 'S': 'SumGrader', 'L': 'FormulaGrader'}
VAR_POOL = ['x', 'y', 't', 'r', 'q', 'z', 'm', 'k', 'T_{1}', 'Q^{-1}', 'w_1', 'xx']


class Ctx(object):
    """What the generated problem looks like before the restriction is chosen."""

    def __init__(self):
        self.kind = None
        self.vs = []              # student-visible variables usable in formulas
        self.kw = {}              # base keyword arguments (JSON)
        self.extra_atoms = []     # (author, student) atoms from user constants / numbered variables / user functions
        self.user_funcs = []      # names of user functions
        self.arrays = False       # may the student type arrays?
        self.notes = []
        self.tags = []


@st.composite
def context(draw, kind, clause):
    c = Ctx()
    c.kind = kind
    if kind != 'N':
        n = draw(st.integers(1, 2))
        pool = VAR_POOL if kind in 'FML' else ['x', 'y', 't', 'r', 'q', 'z']
        c.vs = draw(st.lists(st.sampled_from(pool), min_size=n, max_size=n, unique=True))
        c.kw['variables'] = list(c.vs)
        if draw(st.integers(0, 3)) == 0:
            c.kw['samples'] = draw(st.sampled_from([1, 2, 3]))
    if kind == 'M':
        c.arrays = True
        c.kw['max_array_dim'] = draw(st.sampled_from([1, 1, 2]))
    if kind == 'S':
        c.kw['tolerance'] = '0.01%'
    # user functions / constants (always allowed to the student)
    if draw(st.integers(0, 3)) == 0:
        name = draw(st.sampled_from(['f', 'g', "f'", 'f_{1}', 'F', 'sq', 'Sin2']))
        impl = draw(st.sampled_from(['sq', 'inc', 'dbl']))
        c.kw['user_functions'] = {name: {'$fn': impl}}
        c.user_funcs = [name]
        c.extra_atoms.append(('%s(2)' % name, '%s(2)' % name))
        if c.vs:
            c.extra_atoms.append(('%s(%s)' % (name, c.vs[0]), '%s(%s)' % (name, c.vs[0])))
        c.tags.append('user-function')
    elif kind in 'FM' and draw(st.integers(0, 9)) == 0:
        c.kw['user_functions'] = {'f': {'$rand': 1}}
        c.user_funcs = ['f']
        c.extra_atoms.append(('f(%s)' % c.vs[0], 'f(%s)' % c.vs[0]))
        c.tags.append('user-function')
    if draw(st.integers(0, 4)) == 0:
        cname = draw(st.sampled_from(['c0', 'K', 'g_0', 'hbar']))
        if cname not in c.vs:
            c.kw['user_constants'] = {cname: draw(st.sampled_from([3.0, 2.5, 0.25, 2]))}
            c.extra_atoms.append((cname, cname))
            c.notes.append('opt/user-constants')
    if kind in 'FM' and (clause == 'numbered' or draw(st.integers(0, 7)) == 0):
        head = draw(st.sampled_from(['a', 'b', 'p', 'Cat']))
        if head not in c.vs:
            c.kw['numbered_vars'] = [head]
            c.extra_atoms += [('%s_{1}' % head, '%s_{1}' % head),
                              ('%s_{2}*%s_{1}' % (head, head), '%s_{1}*%s_{2}' % (head, head)),
                              ('%s_{0}+%s_{-3}' % (head, head), '%s_{-3}+%s_{0}' % (head, head))]
            c.notes.append('opt/numbered-vars')
    return c


def default_funcs(kind):
    return SCALAR_FUNCS + (sorted(MATRIX_Z) if kind == 'M' else [])


# ----------------------------------------------------------------------------------------------------
# clauses: each returns a dict with restr / twin kwargs, the permitted helper functions, texts


@st.composite
def pick_shape(draw, permitted, arrays, only=None):
    names = [n for n in (only or list(ALL_SHAPES)) if shape_ok(n, permitted, arrays)]
    name = draw(st.sampled_from(names))
    g = draw(st.sampled_from(helper_pool(name, permitted)))
    return name, g


def shape_tags(name):
    return ['nested'] if ALL_SHAPES[name][1] else []


@st.composite
def wrap(draw, A, Z, permitted, arrays):
    name, g = draw(pick_shape(permitted, arrays))
    tags = shape_tags(name)
    if name in ARRAY_SHAPES:
        tags.append('matrix-array-entry')
    return apply_shape(name, A, Z, g), name, tags


@st.composite
def author_side(draw, A, constructs, arrays):
    """The author's answer: plain, or using one of the restricted constructs (the author is free to)."""
    if not constructs or draw(st.integers(0, 4)) == 0:
        return A, False
    Z = draw(st.sampled_from(constructs))
    name, g = draw(pick_shape(None, arrays))
    return apply_shape(name, A, Z, g), True


@st.composite
def clause_functions(draw, c, clause, core_vs):
    """blacklist / whitelist / whitelist=[None]."""
    dfl = default_funcs(c.kind)
    if clause == 'blacklist':
        n = draw(st.integers(1, 3))
        bad = draw(st.lists(st.sampled_from(dfl), min_size=n, max_size=n, unique=True))
        restr = {'blacklist': bad}
        permitted = [f for f in dfl if f not in bad]
    elif clause == 'whitelist':
        n = draw(st.integers(1, 3))
        wl = draw(st.lists(st.sampled_from(SAFE + G_ZERO), min_size=n, max_size=n, unique=True))
        restr = {'whitelist': wl}
        permitted = list(wl)
        bad = [f for f in dfl if f not in wl]
    else:
        restr = {'whitelist': [None]}
        permitted = []
        bad = list(dfl)
    tags = []
    # offending function: sometimes a look-alike of a permitted one / of which a look-alike is permitted
    f = draw(st.sampled_from(bad))
    if clause == 'blacklist' and draw(st.booleans()):
        cands = [b for b in bad if any(l in permitted for l in LOOKALIKE.get(b, []))]
        if cands:
            f = draw(st.sampled_from(cands))
    if clause == 'whitelist':
        cands = [l for w in permitted for l in LOOKALIKE.get(w, []) if l in bad]
        if cands and draw(st.booleans()):
            f = draw(st.sampled_from(cands))
    if c.kind == 'M' and f in MATRIX_Z and MATRIX_Z[f][1] == 2:
        c.kw['max_array_dim'] = 2
    Z = draw(func_construct(f, core_vs))
    # the honest student may use permitted look-alikes of the forbidden function (control against over-blocking)
    hf = [x for x in SAFE if x in permitted]
    look = [l for l in LOOKALIKE.get(f, []) if l in permitted and l in NUMARG]
    return {'restr': restr, 'twin': {}, 'permitted': permitted + c.user_funcs, 'honest_funcs': hf, 'Z': Z,
            'offender': f + '(', 'author_constructs': [Z, fcall(f) if f in NUMARG else Z], 'tags': tags,
            'lookalikes': look}


@st.composite
def problem(draw, kind=None, clause=None):
    kind = kind or draw(st.sampled_from(KINDS))
    clause = clause or draw(st.sampled_from(CLAUSES[kind]))
    c = draw(context(kind, clause))
    seed = draw(st.integers(0, 2 ** 31 - 1))
    # where does the formula live?  Sum graders: a limit (integer, no variables) or the summand
    sum_pos = draw(st.sampled_from(['lower', 'upper', 'summand', 'summand'])) if kind == 'S' else None
    in_limit = sum_pos in ('lower', 'upper')
    core_vs = [] if in_limit else list(c.vs)
    extra_atoms = [] if in_limit else list(c.extra_atoms)
    restr, twin, tags, notes = {}, {}, list(c.tags), list(c.notes)
    spec = {'clause': clause, 'seed': seed}
    permitted = None          # None = the student may call anything in scope
    honest_funcs = list(SAFE)
    author_constructs = []
    collide = None
    direct = None             # a cheating text that is not "honest + neutral term"
    Z = None
    lookalikes = []
    no_twin = False

    if clause in ('blacklist', 'whitelist', 'whitelist-none'):
        d = draw(clause_functions(c, clause, core_vs))
        restr, twin, permitted, honest_funcs, Z = d['restr'], d['twin'], d['permitted'], d['honest_funcs'], d['Z']
        spec['offender'] = d['offender']
        author_constructs = d['author_constructs']
        lookalikes = d['lookalikes']
    elif clause == 'required':
        n = draw(st.integers(1, 2))
        req = draw(st.lists(st.sampled_from([f for f in SCALAR_FUNCS if f in LOOKALIKE or f in SAFE]),
                            min_size=n, max_size=n, unique=True))
        if c.user_funcs and draw(st.integers(0, 3)) == 0:
            req = req[:1] + [c.user_funcs[0]]
        restr = {'required_functions': req}
        spec['required'] = req
        author_constructs = [fcall(f, '2' if f in c.user_funcs else None) for f in req]
    # the remaining clauses are filled in below, once the core formulas exist

    funcs_for_pair = [f for f in honest_funcs if permitted is None or f in permitted]
    if clause == 'required':
        req = restr['required_functions']
        funcs_for_pair = [f for f in funcs_for_pair if f not in req
                          and not any(f in LOOKALIKE.get(r, []) for r in req)]
        extra_atoms = [a for a in extra_atoms if not any(r + '(' in a[1] for r in req)]
    if draw(st.integers(0, 2)) == 0:
        funcs_for_pair = []
    if in_limit:
        A, H = draw(st.sampled_from(INT_ATOMS))
    else:
        A, H = draw(pair(core_vs, funcs_for_pair, extra_atoms))
    base_kw = dict(c.kw)

    # ---------------- clause specifics that need the core formulas
    if clause in ('blacklist', 'whitelist', 'whitelist-none'):
        if lookalikes and draw(st.booleans()):
            # honest input uses a permitted look-alike of the forbidden function
            H, _, _ = draw(wrap(H, fcall(draw(st.sampled_from(lookalikes))), permitted, False))
            tags.append('prefix-collision')
        C, shape, stags = draw(wrap(H, Z, permitted, c.arrays))
        tags += stags
    elif clause == 'required':
        req = restr['required_functions']
        # honest: uses every required function somewhere (possibly deep inside a neutral term)
        Hh = H
        for f in req:
            Hh, _, _ = draw(wrap(Hh, fcall(f, '2' if f in c.user_funcs else None), None, False))
        # cheat: lacks one required function; may use a look-alike instead
        missing = draw(st.sampled_from(req))
        C = H
        shape = 'omitted'
        not_req = [f for f in SCALAR_FUNCS if f not in req]
        for f in req:
            if f != missing:
                C, _, _ = draw(wrap(C, fcall(f, '2' if f in c.user_funcs else None), not_req, False))
        look = [l for l in LOOKALIKE.get(missing, []) if l in NUMARG and l not in req]
        if look and draw(st.booleans()):
            C, shp, stags = draw(wrap(C, fcall(draw(st.sampled_from(look))), not_req, False))
            tags += ['prefix-collision'] + stags
            shape = 'look-alike:' + shp
        elif len(req) > 1:
            shape = 'one-of-two-missing'
        H = Hh
        spec['offender'] = missing
        twin = {}
    elif clause == 'forbidden':
        S, S2 = (A, H) if draw(st.booleans()) else (H, A)
        s1, s2 = strip_sp(S), strip_sp(S2)
        subs = sorted({s1[i:j] for i in range(len(s1)) for j in range(i + 1, min(len(s1), i + 6) + 1)
                       if s1[i:j] not in s2})
        if not subs:
            S = '(%s)*1' % S2 if draw(st.booleans()) else '%s+0' % S2
            s1 = strip_sp(S)
            subs = sorted({s1[i:j] for i in range(len(s1)) for j in range(i + 1, min(len(s1), i + 6) + 1)
                           if s1[i:j] not in s2})
        sub = draw(st.sampled_from(subs))
        decoys = draw(st.lists(st.sampled_from(['7*7*7', '@', 'yy+', '+ -', '/ 0', 'x x x', '^^', '0.001 +']),
                               max_size=2, unique=True))
        decoys = [d for d in decoys if strip_sp(d) not in s1 and strip_sp(d) not in s2
                  and strip_sp(d) not in strip_sp(A)]
        fs = draw(spaced(sub, inside=True)) if draw(st.booleans()) else sub
        forb = decoys + [fs]
        forb = list(draw(st.permutations(forb)))
        restr = {'forbidden_strings': forb}
        if draw(st.integers(0, 3)) == 0:
            restr['forbidden_message'] = 'Not like that!'
        spec['forbidden'] = forb
        spec['offender'] = sub
        # the author may use the forbidden text: the answer is the form containing it, or not
        A = S if draw(st.booleans()) else S2
        if A == S:
            tags.append('author-uses-construct')
        H, C = S2, S
        shape = 'text'
        twin = {}
    elif clause == 'instructor':
        if kind == 'N':
            variants = ['default-const', 'user-const']
        elif in_limit:
            variants = ['var-int', 'default-const', 'user-const']
        else:
            variants = ['var-const', 'var-dep', 'default-const', 'user-const']
        variant = draw(st.sampled_from(variants))
        cname = draw(st.sampled_from(['c', 'phi', 'C_{0}', 'secret', 'x0']))
        cname = cname if cname not in c.vs else 'c9'
        if variant == 'var-const':
            val = draw(st.sampled_from([2, 3, 0.5]))
            base_kw['variables'] = list(base_kw.get('variables', [])) + [cname]
            base_kw['sample_from'] = {cname: {'$tuple': [val]}}
            A, H = '(%s)*%s' % (A, cname), '%s*(%s)' % (val, H)
        elif variant == 'var-int':
            val = draw(st.sampled_from([2, 3]))
            base_kw['variables'] = list(base_kw.get('variables', [])) + [cname]
            base_kw['sample_from'] = {cname: {'$tuple': [val]}}
            A, H = cname, draw(st.sampled_from({2: ['2', '1+1'], 3: ['3', '1+2']}[val]))
        elif variant == 'var-dep':
            dv = c.vs[0]
            base_kw['variables'] = list(base_kw.get('variables', [])) + [cname]
            base_kw['sample_from'] = {cname: {'$dep': {'depends': [dv], 'formula': '%s^2+1' % dv}}}
            A, H = '%s+%s' % (A, cname), '%s+%s^2+1' % (H, dv)
        elif variant == 'default-const':
            cname = draw(st.sampled_from(['pi', 'e']))
            lit = {'pi': '3.141592653589793', 'e': '2.718281828459045'}[cname]
            if in_limit:
                A = '%s+0*%s' % (A, cname)
            else:
                A, H = '%s+%s' % (A, cname), '%s+%s' % (H, lit)
        else:
            val = draw(st.sampled_from([3.0, 0.25, 2]))
            uc = dict(base_kw.get('user_constants', {}))
            uc[cname] = val
            base_kw['user_constants'] = uc
            if in_limit:
                A = '%s+0*%s' % (A, cname)
            else:
                A, H = '%s+%s' % (A, cname), '%s+%s' % (H, val)
        tags.append('author-uses-construct')
        restr = {'instructor_vars': [cname] + draw(st.sampled_from([[], [], ['unused_name']]))}
        twin = {}
        Z = cname
        spec['offender'] = cname
        notes.append('instructor/' + variant)
        if draw(st.integers(0, 3)) == 0:
            # the author's own formula typed by the student
            direct = A
            shape = 'authors-answer'
        else:
            C, shape, stags = draw(wrap(H, Z, None, c.arrays))
            tags += stags
    elif clause == 'undefined':
        Z, collide, utags = draw(undefined_offender(c, core_vs))
        tags += utags
        spec['offender'] = Z.split('(')[0]
        no_twin = True
        C, shape, stags = draw(wrap(H, Z, None, c.arrays))
        tags += stags
    elif clause == 'numbered':
        head = c.kw['numbered_vars'][0]
        inst = '%s_{1}' % head
        if inst not in H:
            A, H = '%s+%s' % (A, inst), '%s+%s' % (inst, H)
        other = 'n2' if head != 'n2' else 'n3'
        pool = [(head, None, []), ('%s_{1}' % other, None, []), ("%s_{1}'" % head, None, ['prefix-collision']),
                ('%s_1' % head, None, ['prefix-collision']), ('%s_{x}' % head, None, ['prefix-collision']),
                ('%s_{1}^{2}' % head, None, ['prefix-collision']), ('%s%s_{1}' % (head, head), None,
                                                                      ['prefix-collision']),
                ('%s1_{1}' % head, None, ['prefix-collision'])]
        sw = head.swapcase()
        if sw != head:
            pool += [('%s_{1}' % sw, inst, ['case-collision'])] * 3
        Z, collide, utags = draw(st.sampled_from(pool))
        tags += utags
        spec['offender'] = Z
        no_twin = True
        C, shape, stags = draw(wrap(H, Z, None, c.arrays))
        tags += stags
        tags.append('author-uses-construct')
    elif clause == 'suffix':
        declared = draw(st.integers(0, 4)) > 0
        if declared:
            suf = draw(st.sampled_from(['k', 'M', 'G', 'T', 'm', 'u', 'n', 'p']))
            twin = {'metric_suffixes': True}
            restr = {} if draw(st.booleans()) else {'metric_suffixes': False}
        else:
            suf = draw(st.sampled_from(['K', 'q', 'kk', 'mm', 'd', 'x', 'pc']))
            no_twin = True
            restr = {'metric_suffixes': draw(st.booleans())}
            if suf.lower() in 'kmgtunp' and len(suf) == 1:
                tags.append('case-collision')
        Z = draw(st.sampled_from(['1', '0', '2', '1.5', '3.'])) + suf
        spec['offender'] = Z
        if declared and draw(st.integers(0, 3)) == 0 and not in_limit:
            # direct use: a suffixed number that carries value
            mult = {'k': '1000', 'M': '1000000', 'G': '1000000000', 'T': '1000000000000', 'm': '0.001',
                    'u': '0.000001', 'n': '0.000000001', 'p': '0.000000000001'}[suf]
            A, H = '%s+2*%s' % (A, mult), '%s+2*%s' % (H, mult)
            direct = '%s+2%s' % (H.rsplit('+', 1)[0], suf)
            spec['offender'] = '2' + suf
            shape = 'direct'
        else:
            C, shape, stags = draw(wrap(H, Z, None, c.arrays))
            tags += stags
        if draw(st.integers(0, 2)) == 0:
            # '%' stays available: control
            H = '%s+0%%' % H if draw(st.booleans()) else '%s+100%%-1' % H
            notes.append('suffix/percent-in-honest')
    elif clause == 'sibling':
        no_twin = True
        shape = None
        C = None

    if direct is not None:
        C = direct

    # ---------------- the author's answer may use the restricted construct
    if clause in ('blacklist', 'whitelist', 'whitelist-none', 'required'):
        A, used = draw(author_side(A, author_constructs, False))
        if used:
            tags.append('author-uses-construct')

    # ---------------- benign secondary restrictions (kept in the twin)
    second = {}
    if draw(st.integers(0, 3)) == 0:
        which = draw(st.sampled_from(['forbidden', 'instructor', 'blacklist', 'suffix-on', 'required-none']))
        if which == 'forbidden' and 'forbidden_strings' not in restr:
            second['forbidden_strings'] = ['7*7*7', '@ @']
        elif which == 'instructor' and 'instructor_vars' not in restr:
            second['instructor_vars'] = ['not_used']
        elif which == 'blacklist' and 'blacklist' not in restr and 'whitelist' not in restr:
            blk = [f for f in ['arccsch', 'arcsech', 'kronecker'] if f + '(' not in strip_sp(C or '') + strip_sp(H)
                   + strip_sp(A)]
            if blk and clause != 'required':
                second['blacklist'] = blk[:1]
        elif which == 'suffix-on' and clause != 'suffix':
            second['metric_suffixes'] = True
        if second:
            notes.append('opt/secondary-restriction')

    spec.update({'tags': tags, 'notes': notes, 'collide': collide, 'shape': shape})
    parts = {'A': A, 'H': H, 'C': C, 'base': base_kw, 'restr': dict(second, **restr),
             'twin': None if no_twin else dict(second, **twin), 'sum_pos': sum_pos, 'ctx': c,
             'Z': Z if direct is None else None, 'permitted': permitted, 'pair_funcs': funcs_for_pair,
             'pair_atoms': extra_atoms}
    return draw(embed(spec, parts))


@st.composite
def undefined_offender(draw, c, core_vs):
    """(construct text, in-scope twin it collides with, tags) for a name that is not defined."""
    pool = [('zz', None, []), ('w0', None, []), ('sibling_1', None, []), ('sibling_2', None, []),
            ('Sin(0)', 'sin', ['case-collision']), ('SQRT(4)', 'sqrt', ['case-collision']),
            ('Exp(0)', 'exp', ['case-collision']), ('und(1)', None, []), ('sin1(0)', 'sin', ['prefix-collision']),
            ("sin'(0)", 'sin', ['prefix-collision']), ('si(0)', 'sin', ['prefix-collision']),
            ('sin', 'sin', ['prefix-collision']), ('exp', 'exp', ['prefix-collision']),
            ('Pi', 'pi', ['case-collision']), ('PI', 'pi', ['case-collision']), ('pi2', 'pi', ['prefix-collision']),
            ("e'", 'e', ['prefix-collision'])]
    for v in core_vs:
        pool += [(v + "'", v, ['prefix-collision']), (v + "''", v, ['prefix-collision'])]
        if v.swapcase() != v:
            pool += [(v.swapcase(), v, ['case-collision'])] * 2
        if '{' not in v and '_' not in v:
            pool += [(v + v[-1], v, ['prefix-collision']), (v + '1', v, ['prefix-collision']),
                     (v + '_1', v, ['prefix-collision']), (v + '_{1}', v, ['prefix-collision']),
                     (v + '(2)', v, ['prefix-collision'])]
        if '{' in v:
            pool += [(v.swapcase(), v, ['case-collision'])] * 3
            pool += [(v.replace('1', '2'), v, ['prefix-collision'])]
    for f in c.user_funcs:
        if f.swapcase() != f:
            pool += [('%s(1)' % f.swapcase(), f, ['case-collision'])] * 3
        pool += [("%s'(1)" % f, f, ['prefix-collision']), (f, f, ['prefix-collision'])]
    for k in c.kw.get('user_constants', {}):
        if k.swapcase() != k:
            pool += [(k.swapcase(), k, ['case-collision'])] * 2
        pool += [(k + "'", k, ['prefix-collision'])]
    # never offer a name that happens to be defined
    defined = set(c.vs) | set(c.user_funcs) | set(c.kw.get('user_constants', {})) | {'pi', 'e', 'i', 'j'}
    if c.kind == 'S':
        defined |= {'infty'}
    pool = [p for p in pool if p[0] not in defined]
    if c.kind == 'S':
        # the dummy variable n/m of the generated sums must stay distinct from the offender
        pool = [p for p in pool if p[0] not in ('n', 'm', 'N', 'M')]
    return draw(st.sampled_from(pool))


# ----------------------------------------------------------------------------------------------------
# embedding the core formulas into a grader of the requested kind


@st.composite
def embed(draw, spec, p):
    c = p['ctx']
    kind = c.kind
    A, H, C = p['A'], p['H'], p['C']
    clause = spec['clause']
    base, restr, twin = p['base'], p['restr'], p['twin']
    tags = spec['tags']
    inside = clause == 'forbidden'
    slot = None
    hgrade = 1

    def two(kw_extra_r, kw_extra_t, cls):
        g = {'$grader': cls, 'kw': dict(base, **dict(kw_extra_r, **restr))}
        gt = None if twin is None else {'$grader': cls, 'kw': dict(base, **dict(kw_extra_t, **twin))}
        return g, gt

    if kind in 'FN' or (kind == 'M' and draw(st.booleans())):
        cls = KIND_CLS[kind]
        answers = A
        mode = draw(st.integers(0, 3))
        if mode == 0:
            # the formula matches an alternative with partial credit
            pc = draw(st.sampled_from([0.5, 0.25, 0.9, 0.1]))
            answers = {'$tuple': [{'expect': '(%s)*2+10' % A, 'grade_decimal': 1},
                                  {'expect': A, 'grade_decimal': pc, 'msg': 'almost'}]}
            hgrade = pc
        elif mode == 1:
            answers = {'expect': A, 'grade_decimal': 1, 'msg': 'ok'}
        elif mode == 2 and clause != 'forbidden':
            answers = {'$tuple': [A, {'expect': '(%s)*2+10' % A, 'grade_decimal': 0.5}]}
        g, gt = two({'answers': answers}, {'answers': answers}, cls)
        honest = draw(spaced(H, inside))
        cheat = draw(spaced(C, inside))
    elif kind == 'M':
        # vector answer: the formula is one entry
        B, Bs = draw(pair(c.vs, p['pair_funcs'], p['pair_atoms'], nmax=2))
        n3 = draw(st.booleans())
        ents_a = [A, B] + (['1'] if n3 else [])
        pos = draw(st.integers(0, len(ents_a) - 1))
        ents_a[0], ents_a[pos] = ents_a[pos], ents_a[0]

        def vec(first, second):
            e = [first, second] + (['1'] if n3 else [])
            e[0], e[pos] = e[pos], e[0]
            return '[%s]' % ','.join(e)
        extra = {'answers': vec(A, B)}
        other = Bs
        if clause != 'forbidden' and draw(st.integers(0, 2)) == 0:
            extra['entry_partial_credit'] = draw(st.sampled_from(['proportional', 0.5]))
            other = '%s+1' % Bs          # another entry is wrong: the comparer awards partial credit
            tags.append('entry-partial-credit')
            hgrade = None
        g, gt = two(extra, extra, 'MatrixGrader')
        honest = draw(spaced(vec(H, other), inside))
        cheat = draw(spaced(vec(C, other), inside))
        tags.append('nested')
        tags.append('matrix-array-entry')
        spec['shape'] = 'entry:' + str(spec['shape'])
    elif kind == 'S':
        pos = p['sum_pos']
        dummy = draw(st.sampled_from(['n', 'n', 'm']))
        lo, hi = draw(st.sampled_from([('1', '3'), ('0', '2'), ('2', '4'), ('1', '2')]))
        if pos == 'summand':
            ans = {'lower': lo, 'upper': hi, 'summand': '(%s)*n' % A, 'summation_variable': 'n'}
            honest = [lo, hi, '%s*(%s)' % (dummy, H), dummy]
            cheat = [lo, hi, '%s*(%s)' % (dummy, C), dummy]
            spec['notes'] = spec['notes'] + ['sum/summand']
        else:
            # the formula is a limit (an integer); the other limit is far enough away
            ans = {'lower': A if pos == 'lower' else '-7', 'upper': A if pos == 'upper' else '9',
                   'summand': 'n', 'summation_variable': 'n'}
            if pos == 'lower':
                honest, cheat = [H, '9', dummy, dummy], [C, '9', dummy, dummy]
            else:
                honest, cheat = ['-7', H, dummy, dummy], ['-7', C, dummy, dummy]
            spec['notes'] = spec['notes'] + ['sum/limit']
        honest = [draw(spaced(t, inside)) if k < 3 else t for k, t in enumerate(honest)]
        cheat = [draw(spaced(t, inside)) if k < 3 else t for k, t in enumerate(cheat)]
        g, gt = two({'answers': ans}, {'answers': ans}, 'SumGrader')
    else:
        # ordered ListGrader; later answers refer to earlier inputs through sibling_k
        n = draw(st.integers(2, 3))
        rel2 = draw(st.sampled_from([('sibling_1^2', lambda t: '(%s)^2' % t),
                                     ('2*sibling_1+1', lambda t: '1+2*(%s)' % t),
                                     ('sibling_1*(%s)' % A, lambda t: '(%s)*(%s)' % (t, H))]))
        rel3 = draw(st.sampled_from([('sibling_1+sibling_2', None), ('sibling_2-sibling_1', None)]))
        answers = [A, rel2[0]] + ([rel3[0]] if n == 3 else [])
        slot = draw(st.integers(0, n - 1))
        if clause == 'sibling':
            k = draw(st.integers(1, n))
            Z = 'sibling_%d' % k
            spec['offender'] = Z
        texts_h, texts_c, hg = [], [], []
        for i in range(n):
            if i == 0:
                h = H
            elif i == 1:
                h = rel2[1](texts_h[0])
            else:
                h = ('(%s)+(%s)' if rel3[0].startswith('sibling_1+') else '(%s)-(%s)') % (
                    (texts_h[0], texts_h[1]) if rel3[0].startswith('sibling_1+') else (texts_h[1], texts_h[0]))
            wrong = i != slot and draw(st.integers(0, 4)) == 0
            if wrong:
                h = '(%s)*2+10' % h
            texts_h.append(h)
            hg.append(0 if wrong else 1)
        hgrade = hg
        # the cheating text of the target slot
        if clause == 'sibling':
            if slot > 0 and draw(st.integers(0, 3)) == 0 and answers[slot].count('sibling') and slot < 2 \
                    and 'sibling_%d' % k in answers[slot]:
                ctext, shape, stags = answers[slot], 'authors-answer', []
            else:
                ctext, shape, stags = draw(wrap(texts_h[slot], Z, None, False))
            spec['shape'] = shape
            tags += stags
            tags.append('author-uses-construct')
            if answers[slot].count(Z):
                spec['notes'] = spec['notes'] + ['sibling/used-by-this-answer']
            else:
                spec['notes'] = spec['notes'] + ['sibling/not-used-by-this-answer']
        elif slot == 0 or p['Z'] is None or clause in ('required', 'forbidden'):
            ctext = None
        else:
            # a relation slot cheats: its honest text plus a neutral term with the same construct
            ctext, shape, stags = draw(wrap(texts_h[slot], p['Z'], p['permitted'], False))
            spec['shape'] = shape
            tags = [t for t in tags if t != 'nested'] + stags
            spec['notes'] = spec['notes'] + ['list/cheat-in-relation-slot']
        if ctext is None:
            slot = 0
            ctext = C
            # slot 0 must be right in the honest list (it is the target)
            if hg[0] == 0:
                texts_h[0] = H
                hg[0] = 1
                # later slots were built from the wrong text: rebuild them
                for i in range(1, n):
                    was_wrong = hg[i] == 0
                    if i == 1:
                        h = rel2[1](texts_h[0])
                    else:
                        h = ('(%s)+(%s)' if rel3[0].startswith('sibling_1+') else '(%s)-(%s)') % (
                            (texts_h[0], texts_h[1]) if rel3[0].startswith('sibling_1+') else (texts_h[1], texts_h[0]))
                    texts_h[i] = '(%s)*2+10' % h if was_wrong else h
        texts_c = list(texts_h)
        texts_c[slot] = ctext
        sub_r = {'$grader': 'FormulaGrader', 'kw': dict(base, **restr)}
        sub_t = None if twin is None else {'$grader': 'FormulaGrader', 'kw': dict(base, **twin)}
        plain = {'$grader': 'FormulaGrader', 'kw': dict(base)}
        if draw(st.booleans()) or clause in ('sibling', 'instructor', 'suffix', 'undefined'):
            subs_r, subs_t = sub_r, sub_t
        else:
            # only the targeted slot carries the restriction
            subs_r = [sub_r if i == slot else plain for i in range(n)]
            subs_t = None if sub_t is None else [sub_t if i == slot else plain for i in range(n)]
            spec['notes'] = spec['notes'] + ['list/subgrader-list']
        g = {'$grader': 'ListGrader', 'kw': {'answers': answers, 'subgraders': subs_r, 'ordered': True}}
        gt = None if subs_t is None else {'$grader': 'ListGrader',
                                          'kw': {'answers': answers, 'subgraders': subs_t, 'ordered': True}}
        honest = [draw(spaced(t, inside)) for t in texts_h]
        cheat = [draw(spaced(t, inside)) for t in texts_c]
    if clause == 'forbidden':
        # the forbidden text must not occur anywhere in the honest input (surrounding text, other entries / slots)
        forb = [strip_sp(f) for f in spec['forbidden']]
        if any(f in strip_sp(t) for f in forb for t in texts_of(honest)):
            spec['tags'] = [t for t in tags if t not in ('nested', 'matrix-array-entry', 'entry-partial-credit')]
            spec['notes'] = [n for n in spec['notes'] if not n.startswith(('sum/', 'list/'))]
            return draw(embed_fallback(spec, p))
    spec.update({'g': g, 'gt': gt, 'honest': honest, 'cheat': cheat, 'slot': slot, 'hgrade': hgrade})
    spec['tags'] = sorted(set(tags))
    return spec


@st.composite
def embed_fallback(draw, spec, p):
    """Forbidden-string case inside a list whose other slots would contain the text: grade it as a single formula."""
    c = p['ctx']
    base, restr, twin = p['base'], p['restr'], p['twin']
    g = {'$grader': 'FormulaGrader', 'kw': dict(base, answers=p['A'], **restr)}
    gt = {'$grader': 'FormulaGrader', 'kw': dict(base, answers=p['A'], **twin)}
    spec.update({'g': g, 'gt': gt, 'honest': draw(spaced(p['H'], True)), 'cheat': draw(spaced(p['C'], True)),
                 'slot': None, 'hgrade': 1})
    spec['tags'] = sorted(set(spec['tags']))
    del c
    return spec


def strat_random(tier):
    return problem()


# ----------------------------------------------------------------------------------------------------
# exhaustive grids

GRID_VARS = ['x']
GRID_A, GRID_H = 'x^2+1', '1+x*x'


def grid_answers(partial):
    if partial:
        return {'$tuple': [{'expect': 'x^2+2', 'grade_decimal': 1}, {'expect': GRID_A, 'grade_decimal': 0.5}]}
    return GRID_A


def items_functions(tier):
    """every default function x every shape x {blacklist, whitelist=[None], whitelist of something else} x
    {full, partial credit}; MatrixGrader for the array-only functions and array shapes."""
    for f in SCALAR_FUNCS + sorted(MATRIX_Z):
        matrix = f in MATRIX_Z
        for mode in ('blacklist', 'whitelist-none', 'whitelist', 'blacklist-redefined'):
            extra = {}
            if mode == 'blacklist-redefined':
                # the author redefines a default function for the answers (degrees-mode sin ...) AND blacklists it for
                # students: still not permitted (a seeded change added the user functions after subtracting the blacklist)
                if f not in ('sin', 'cos', 'sqrt', 'exp', 'abs', 'ln', 'arctan', 'sinh'):
                    continue
                restr = {'blacklist': [f]}
                extra = {'user_functions': {f: {'$fn': 'inc'}}, 'suppress_warnings': True}
                permitted = [x for x in SCALAR_FUNCS if x != f]
            elif mode == 'blacklist':
                restr = {'blacklist': [f]}
                permitted = [x for x in SCALAR_FUNCS if x != f]
            elif mode == 'whitelist-none':
                restr = {'whitelist': [None]}
                permitted = []
            else:
                wl = ['cos', 'tan', 'min', 'norm'] if f not in ('cos', 'tan', 'min', 'norm') else ['sin', 'arctan', 'max']
                wl = [w for w in wl if matrix or w != 'norm']
                restr = {'whitelist': wl}
                permitted = wl
            for shape in ALL_SHAPES:
                arrays = shape in ARRAY_SHAPES
                if not shape_ok(shape, permitted, arrays or matrix):
                    continue
                helpers = helper_pool(shape, permitted)
                g_ = helpers[0]
                Z = MATRIX_Z[f][0] if matrix else fcall(f)
                for partial in (False, True):
                    cls = 'MatrixGrader' if (matrix or arrays) else 'FormulaGrader'
                    kw = dict({'variables': GRID_VARS, 'answers': grid_answers(partial)}, **extra)
                    if cls == 'MatrixGrader':
                        kw['max_array_dim'] = 2
                    tags = shape_tags(shape) + (['matrix-array-entry'] if arrays else [])
                    if extra:
                        tags = tags + ['blacklisted-function-redefined-by-author']
                    yield {'clause': mode.replace('-redefined', ''), 'seed': 11, 'offender': f + '(', 'shape': shape, 'tags': tags,
                           'g': {'$grader': cls, 'kw': dict(kw, **restr)}, 'gt': {'$grader': cls, 'kw': kw},
                           'honest': GRID_H, 'cheat': apply_shape(shape, GRID_H, Z, g_), 'slot': None,
                           'hgrade': 0.5 if partial else 1, 'collide': None, 'notes': ['grid/functions']}


def items_names(tier):
    """every undefined-name offender x every shape x grader class (Formula, Numerical, Matrix, Sum)."""
    offenders = [('zz', None, []), ("x'", 'x', ['prefix-collision']), ('X', 'x', ['case-collision']),
                 ('xx', 'x', ['prefix-collision']), ('x1', 'x', ['prefix-collision']),
                 ('x_1', 'x', ['prefix-collision']), ('x_{1}', 'x', ['prefix-collision']),
                 ('x(2)', 'x', ['prefix-collision']), ('sibling_1', None, []), ('Sin(0)', 'sin', ['case-collision']),
                 ('und(1)', None, []), ('sin', 'sin', ['prefix-collision']), ('Pi', 'pi', ['case-collision']),
                 ('t_{1}', 'T_{1}', ['case-collision']), ("T_{1}'", 'T_{1}', ['prefix-collision']),
                 ('T_{2}', 'T_{1}', ['prefix-collision']), ('T_{1}^{2}', 'T_{1}', ['prefix-collision']),
                 ('F_{1}(1)', 'f_{1}', ['case-collision']), ("f_{1}'(1)", 'f_{1}', ['prefix-collision']),
                 ('c', 'c', []), ('C', 'c', ['case-collision']), ('1k', None, []), ('0K', None, ['case-collision']),
                 ('2q', None, []), ('A_{1}', 'a_{1}', ['case-collision']), ('a', 'a_{1}', ['prefix-collision']),
                 ('b_{1}', 'a_{1}', []), ("a_{1}'", 'a_{1}', ['prefix-collision'])]
    for cls in ('FormulaGrader', 'NumericalGrader', 'MatrixGrader', 'SumGrader'):
        for name, collide, tags in offenders:
            if cls == 'NumericalGrader':
                if collide in ('x', 'T_{1}', 'a_{1}', 'c') and name != 'c':
                    continue
                base = {'user_functions': {'f_{1}': {'$fn': 'inc'}}, 'user_constants': {'c': 3.0}}
                A, H = '7+f_{1}(1)+c', '12'
            elif cls == 'SumGrader':
                if collide == 'a_{1}':
                    continue
                base = {'variables': ['x', 'T_{1}', 'c'], 'user_functions': {'f_{1}': {'$fn': 'inc'}},
                        'sample_from': {'c': {'$tuple': [3]}}, 'tolerance': '0.01%'}
                A, H = 'x^2+T_{1}+c', 'T_{1}+x*x+3'
            else:
                base = {'variables': ['x', 'T_{1}', 'c'], 'numbered_vars': ['a'],
                        'user_functions': {'f_{1}': {'$fn': 'inc'}}, 'sample_from': {'c': {'$tuple': [3]}}}
                A, H = 'x^2+T_{1}+a_{1}+c', 'a_{1}+T_{1}+x*x+3'
            restr = {'instructor_vars': ['c']}
            clause = 'instructor' if name == 'c' else (
                'suffix' if name[0].isdigit() else ('numbered' if collide == 'a_{1}' else 'undefined'))
            for shape in ALL_SHAPES:
                arrays = shape in ARRAY_SHAPES
                if arrays and cls != 'MatrixGrader':
                    continue
                C = apply_shape(shape, H, name, helper_pool(shape, None)[0])
                kw = dict(base, **restr)
                if cls == 'SumGrader':
                    ans = {'lower': '1', 'upper': '3', 'summand': '(%s)*n' % A, 'summation_variable': 'n'}
                    kw['answers'] = ans
                    honest, cheat = ['1', '3', 'n*(%s)' % H, 'n'], ['1', '3', 'n*(%s)' % C, 'n']
                else:
                    kw['answers'] = A
                    honest, cheat = H, C
                yield {'clause': clause, 'seed': 5, 'offender': name.split('(')[0], 'shape': shape,
                       'tags': tags + shape_tags(shape) + (['matrix-array-entry'] if arrays else []),
                       'g': {'$grader': cls, 'kw': kw}, 'gt': None, 'honest': honest, 'cheat': cheat, 'slot': None,
                       'hgrade': 1, 'collide': collide, 'notes': ['grid/names']}
    # graders in which NOTHING is visible to the student: no variables, every default constant hidden (instructor_vars, or
    # deleted through user_constants) - the student's scope is empty, and a hidden name is still undefined (a seeded change
    # fell back to the full scope when the filtered scope was empty)
    for cls in ('FormulaGrader', 'NumericalGrader', 'MatrixGrader'):
        for hide in ('instructor', 'deleted'):
            for name in ('pi', 'e', 'i', 'j'):
                if hide == 'deleted' and name != 'pi':
                    continue
                for shape in ALL_SHAPES:
                    if shape in ARRAY_SHAPES:
                        continue
                    if hide == 'instructor':
                        kw = {'answers': '2*pi', 'instructor_vars': ['pi', 'e', 'i', 'j']}
                    else:
                        kw = {'answers': '2*pi', 'user_constants': {'e': None, 'i': None, 'j': None},
                              'instructor_vars': ['pi']}
                    if cls == 'MatrixGrader':
                        kw['max_array_dim'] = 1
                    H = '6.283185307179586'
                    yield {'clause': 'instructor', 'seed': 5, 'offender': name, 'shape': shape,
                           'tags': shape_tags(shape) + ['student-scope-empty'],
                           'g': {'$grader': cls, 'kw': kw}, 'gt': None, 'honest': H,
                           'cheat': apply_shape(shape, H, name, helper_pool(shape, None)[0]), 'slot': None, 'hgrade': 1,
                           'collide': name, 'notes': ['grid/names', 'grid/empty-student-scope']}
    # words that are number literals to Python's float() but NAMES to the formula grammar: the only defined spelling of
    # infinity is the constant 'infty' (added after a seeded change gave plain numbers a float() fast path)
    for sign in ('', '-'):
        for word in ('inf', 'Inf', 'INF', 'infinity', 'Infinity', 'INFINITY', 'iNf', 'infty_', 'Infty', 'INFTY', 'in f'):
            for cls in ('FormulaGrader', 'NumericalGrader', 'SumGrader'):
                cheat_word = sign + word
                if cls == 'SumGrader':
                    kw = {'answers': {'lower': ('-infty' if sign else '0'), 'upper': ('0' if sign else 'infty'),
                                      'summand': '0.5^n' if not sign else '0.5^(-n)', 'summation_variable': 'n'},
                          'infty_val': 40}
                    honest = [kw['answers']['lower'], kw['answers']['upper'], kw['answers']['summand'], 'n']
                    cheat = list(honest)
                    cheat[0 if sign else 1] = cheat_word
                else:
                    kw = {'answers': sign + 'infty', 'allow_inf': True}
                    if cls == 'FormulaGrader':
                        kw['variables'] = ['x']
                    honest, cheat = sign + 'infty', cheat_word
                yield {'clause': 'undefined', 'seed': 5, 'offender': word.replace(' ', ''), 'shape': 'direct',
                       'tags': ['case-collision' if word.lower() == 'infty' else 'prefix-collision', 'python-float-word'],
                       'g': {'$grader': cls, 'kw': kw}, 'gt': None, 'honest': honest, 'cheat': cheat, 'slot': None,
                       'hgrade': 1, 'collide': 'infty', 'notes': ['grid/names', 'grid/python-float-words']}


# ----------------------------------------------------------------------------------------------------
# SumGrader with parts supplied by the author (control clause only)


def judge_author_parts(spec, rec):
    """The student enters only some parts of the sum; the others come from the author's answer and may use every
    restricted construct.  An honest correct entry must earn credit."""
    st_, G = call(build, spec['g'])
    if st_ != 'ok':
        if isinstance(G, (MITxError, SchemaError)):
            raise Violation('control/author-config-rejected/' + spec['clause'], '%s: %s' % (type(G).__name__, G))
        raise G
    T = build(spec['gt'])
    st_, rt = run(T, spec['honest'], spec['seed'])
    if st_ != 'ok' or not rt['grade_decimal'] > 0:
        raise Discard('twin does not credit the honest entry (generator)')
    st_, r = run(G, spec['honest'], spec['seed'])
    rec.calls(2)
    rec.cls('author-parts/' + spec['clause'])
    rec.nontrivial()
    if st_ != 'ok':
        if isinstance(r, MITxError):
            raise Violation('sum/author-supplied-part-restricted/' + spec['clause'],
                            'the student entered %r (no restricted construct); the part(s) supplied by the author\'s '
                            'own answer use it and the entry was refused: %s: %s'
                            % (spec['honest'], type(r).__name__, str(r)[:160]))
        raise r
    if abs(r['grade_decimal'] - rt['grade_decimal']) > 1e-9:
        raise Violation('sum/author-supplied-part-grade/' + spec['clause'], 'graded %r, twin %r' % (r, rt))
    return {'grade': r['grade_decimal']}


def items_author_parts(tier):
    base = {'variables': ['x'], 'tolerance': '0.01%'}
    cases = [
        ('blacklist', {'blacklist': ['sqrt']}, {'lower': '1', 'upper': 'sqrt(16)', 'summand': 'n*x'}),
        ('whitelist-none', {'whitelist': [None]}, {'lower': 'abs(-1)', 'upper': '3', 'summand': 'n*x'}),
        ('forbidden', {'forbidden_strings': ['2*2']}, {'lower': '1', 'upper': '2*2', 'summand': 'n*x'}),
        ('instructor', {'instructor_vars': ['c'], 'variables': ['x', 'c'], 'sample_from': {'c': {'$tuple': [3]}}},
         {'lower': '1', 'upper': 'c', 'summand': 'n*x'}),
    ]
    for clause, restr, ans in cases:
        ans = dict(ans, summation_variable='n')
        kw = dict(base, answers=ans, input_positions={'summand': 1})
        tw = dict(kw)
        if clause == 'instructor':
            tw = dict(kw, variables=restr['variables'], sample_from=restr['sample_from'])
        for honest in ('n*x', 'x*n'):
            yield {'clause': clause, 'seed': 3, 'g': {'$grader': 'SumGrader', 'kw': dict(kw, **restr)},
                   'gt': {'$grader': 'SumGrader', 'kw': tw}, 'honest': honest}


PARTS = [
    Part('grid-functions', 'enum', judge, items=items_functions, exhaustive=True),
    Part('grid-names', 'enum', judge, items=items_names, exhaustive=True),
    Part('random', 'hyp', judge, strategy=strat_random, budget={'quick': 5000, 'thorough': 200000}),
    Part('sum-author-parts', 'enum', judge_author_parts, items=items_author_parts, exhaustive=True),
]


# ----------------------------------------------------------------------------------------------------------------
# instructor-only INSTANCES of numbered variables (names that only exist once an expression mentions them)
# added after a seeded change that computed the list of names to hide from students at construction time, from the
# declared variables and constants only

def items_numbered_instructor(tier):
    cheats = ['n+0*a_{0}', 'n*a_{0}^0', 'n+a_{0}-a_{0}', 'n+sin(0*a_{0})', 'n+0*a_{0}+0*a_{1}']
    for kind in ('Sum', 'Sum-limit', 'Formula', 'Matrix'):
        yield {'kind': kind, 'input': 'honest'}
        for c in cheats:
            yield {'kind': kind, 'input': c}


def judge_numbered_instructor(spec, rec):
    from mitxgraders import SumGrader as _S, FormulaGrader as _F, MatrixGrader as _M
    kind, inp = spec['kind'], spec['input']
    common = dict(numbered_vars=['a'], instructor_vars=['a_{0}'], sample_from={'a': [2, 3]})
    if kind.startswith('Sum'):
        g = _S(answers={'lower': '1', 'upper': '3', 'summand': 'n+0*a_{0}', 'summation_variable': 'n'}, **common)
        if inp == 'honest':
            sub = ['1', '3', 'n', 'n']
        elif kind == 'Sum':
            sub = ['1', '3', inp, 'n']
        else:
            sub = ['1+0*a_{0}', '3', 'n', 'n'] if 'a_{1}' not in inp else ['1', '3+a_{0}-a_{0}', 'n', 'n']
    else:
        cls = _F if kind == 'Formula' else _M
        g = cls(answers='n+0*a_{0}', variables=['n'], **common)
        sub = 'n' if inp == 'honest' else inp
    set_seed(3)
    status, r = call(g, None, sub)
    rec.calls()
    rec.cls('numbered-instructor/' + kind)
    rec.nontrivial()
    if inp == 'honest':
        if status != 'ok' or r.get('ok') is not True:
            raise Violation('control/honest-refused/numbered-instructor', '%s: honest input %r gave %r' % (kind, sub, r))
        return {'honest': True}
    if status == 'ok':
        raise Violation('graded/instructor-numbered-instance', '%s: input %r uses the instructor-only instance a_{0} '
                        'and was graded %r' % (kind, sub, r))
    if not isinstance(r, (UndefinedVariable, UndefinedFunction)):
        if isinstance(r, MITxError):
            raise Violation('wrong-error/instructor-numbered-instance/' + type(r).__name__,
                            '%s: input %r refused with %s: %s' % (kind, sub, type(r).__name__, str(r)[:150]))
        raise r
    return {'refused_with': type(r).__name__}


PARTS.append(Part('numbered-instructor', 'enum', judge_numbered_instructor, items=items_numbered_instructor,
                  exhaustive=True))
REQUIRED['numbered-instructor/Sum'] = 3
