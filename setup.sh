#!/bin/bash
# setup_cmd: offline install of the pure-python helper packages the checks use into ./.deps (git-ignored).
# Idempotent.  hypothesis is normally already present in /venv; it is installed into .deps as well so that a
# restore without it still works.  atheris is optional (C02 thorough tier amplifier).
cd "$(dirname "$0")" || exit 2
export PIP_NO_INDEX=1
W=/opt/veriftools/wheels
mkdir -p .deps
need=""
/venv/bin/python - 2>/dev/null <<'E' || need=1
import sys
sys.path.insert(0, '.deps')
import mpmath, hypothesis, sortedcontainers, attr
E
if [ -n "$need" ]; then
  /venv/bin/pip install -q --no-index --find-links "$W" --target .deps --upgrade mpmath hypothesis sortedcontainers attrs \
    >/dev/null 2>&1 || /venv/bin/pip install -q --no-index --find-links "$W" --target .deps --upgrade mpmath >/dev/null 2>&1
fi
/venv/bin/python - <<'E' || { echo "setup: mpmath/hypothesis not importable" >&2; exit 2; }
import sys
sys.path.insert(0, '.deps')
import mpmath, hypothesis
E
# optional
/venv/bin/python -c "import sys; sys.path.insert(0,'.deps'); import atheris" 2>/dev/null || \
  /venv/bin/pip install -q --no-index --find-links "$W" --target .deps atheris >/dev/null 2>&1 || true
echo "setup ok"
