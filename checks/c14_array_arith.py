"""C14 - array arithmetic follows strict linear-algebra shape rules and values."""
import itertools
import math
import operator
from fractions import Fraction
from numbers import Number

import numpy as np
from hypothesis import strategies as st

from vlib.core import Part, Violation, Discard, call
from vlib import forms

from mitxgraders import MatrixGrader, ListGrader, DependentSampler, RandomFunction
from mitxgraders.helpers.calc import evaluator, MathArray
from mitxgraders.sampling import set_seed
from mitxgraders.exceptions import StudentFacingError

RULE = ("Cases are single operations `a op b` (op in + - * / ^) whose operands are a Python scalar or an array of one "
        "of 20 shapes (vectors 2-4, every m x n with m,n<=4 and >1 element, two 3-axis tensors), with int / decimal / "
        "complex entries, sent through one of four routes: MathArray binary operator, reflected operator (scalar on "
        "the left), in-place operator, or a formula string (array literals or array-valued variables) through "
        "evaluator(). Enumerated parts (fixed entries): 'lattice' = all 441 shape pairs x 5 operators x entry kinds x "
        "routes; 'scalars' = every array shape x operator x 16 scalars (zeros of each type, ordinary, tiny non-zero) "
        "on either side; 'powers' = every base shape x 21 exponents x well-conditioned / exactly singular "
        "constructions. Hypothesis parts: 'random' (cells and entries drawn), 'singular' (rank-deficient square "
        "matrices to powers), 'chains' (products of 2-5 vectors/matrices/scalars with optional parentheses), 'negpow' "
        "(histories of MatrixGrader(negative_powers=False/True) calls, the public MathArray.enable_negative_powers "
        "context, and plain A^-1 after each step). Oracle: a hand-written rule table over plain Python lists (never "
        "MathArray): either 'must raise a StudentFacingError' or an exact shape plus values computed by explicit "
        "loops (Gauss-Jordan inverse; an exact rational rank test decides 'singular'), compared with |lib-ref| <= "
        "1e-9*max(1,|ref|,sum|a||b|). A result with exactly one element may be the bare number or the one-element "
        "array. Non-trivial = operands of different shapes, or an exponent that is not an int in 1..3, or (chains) "
        ">= 2 vectors in the product, or (negpow) a step that follows a disabled-grader/context step; distinct by spec.")
ASSUMPTIONS = [
    "scalars handed to MathArray operators are Python int/float/complex (the evaluator casts numpy scalars first); "
    "one-element arrays are never operands (the library documents them as number-like)",
    "division by exact zero is not generated; complex exponents always have a non-zero imaginary part; |exponent| <= 5",
    "negative powers are judged only when the base is exactly singular over the rationals (must raise) or has "
    "cond^|k| <= 1e4 (value judged); matrices in between are discarded (guard band)",
    "'raises' means a mitxgraders StudentFacingError subclass (MathArrayError/CalcError families are such); any other "
    "exception type is a violation",
    "with negative_powers=False and suppress_matrix_messages=True 'refused' may be a raise or an ok=False verdict; "
    "without suppression it must be a raise, as docs/matrix_grader.md states",
]
REQUIRED = {
    'route:binary': 5000, 'route:reflected': 1500, 'route:inplace': 5000, 'route:formula-var': 8000,
    'route:formula-lit': 6000,
    'expect:value': 10000, 'expect:error': 25000, 'near-miss-shapes(numpy would broadcast)': 4000,
    'one-element-result': 60, 'complex-entries': 10000, 'int-entries': 5000,
    'add/sub:zero-scalar': 1500, 'add/sub:tiny-nonzero-scalar': 1000,
    'pow:negative-exponent-value': 300, 'pow:exactly-singular-negative': 2000, 'pow:non-integer-exponent': 2000,
    'pow:integer-valued-float': 1000, 'pow:nearly-integer-float': 500, 'pow:base-not-square-matrix': 2500,
    'chain:>=3-vectors-flat': 500, 'chain:parentheses-rescue': 100, 'chain:two-vectors-value': 500,
    'negpow:disabled-grader-refuses': 1000, 'negpow:disabled-context-refuses': 400,
    'negpow:after-disabled-works-again': 2500, 'negpow:disabled-then-error-inside': 400,
    'negpow:enabled-grader-correct': 300,
}

# Exactly singular matrices whose singularity LAPACK does not notice (no exactly zero pivot, e.g. [[5,5],[3,3]]) are
# judged: they must raise.  On the pinned snapshot they returned a garbage inverse (finding 'pow/singular-not-refused',
# repaired by the commit "fix: refuse negative powers of rank-deficient matrices").  False = discard such cases instead.
JUDGE_EXACT_SINGULAR = True

SHAPES = ([()] + [(k,) for k in (2, 3, 4)]
          + [(m, n) for m in range(1, 5) for n in range(1, 5) if m * n > 1] + [(2, 2, 2), (2, 3, 2)])
ARRAY_SHAPES = SHAPES[1:]
OPN = {'+': 'add', '-': 'sub', '*': 'mul', '/': 'div', '^': 'pow'}
BIN = {'+': operator.add, '-': operator.sub, '*': operator.mul, '/': operator.truediv, '^': operator.pow}
INP = {'+': operator.iadd, '-': operator.isub, '*': operator.imul, '/': operator.itruediv, '^': operator.ipow}
EXPONENTS = [2, 3, 0, 1, -1, -2, 2.0, -1.0, 0.5, 2.5, [1, 1], -0.5, -3, 4, 0.0, -0.0, 2.0000000000000004,
             1.9999999999999998, -2.0, [0, 1], [2, 1e-09]]
TOL = 1e-9
COND_GUARD = 1e4


# ------------------------------------------------------------------------------------------------------
# reference arithmetic on (shape tuple, flat list of Python numbers)

def num(e):
    return complex(e[0], e[1]) if isinstance(e, list) else e


def opd_ref(opd):
    return tuple(opd['s']), [num(e) for e in opd['e']]


def nest(flat, shp):
    if not shp:
        return flat[0]
    if len(shp) == 1:
        return list(flat)
    step = len(flat) // shp[0]
    return [nest(flat[i * step:(i + 1) * step], shp[1:]) for i in range(shp[0])]


def size(shp):
    n = 1
    for d in shp:
        n *= d
    return n


def mag(flat):
    return max([abs(x) for x in flat] + [0.0])


def matmul2(sa, fa, sb, fb):
    m, n = sa
    _, p = sb
    out, scale = [], 0.0
    for i in range(m):
        for j in range(p):
            s, t = 0, 0.0
            for k in range(n):
                s = s + fa[i * n + k] * fb[k * p + j]
                t += abs(fa[i * n + k]) * abs(fb[k * p + j])
            out.append(s)
            scale = max(scale, t)
    return out, scale


def _q(x):
    return (Fraction(x.real), Fraction(x.imag)) if isinstance(x, complex) else (Fraction(x), Fraction(0))


def exactly_singular(n, flat):
    """Rank test over the (complex) rationals: the entries, taken as the exact binary numbers they are."""
    M = [[_q(flat[i * n + j]) for j in range(n)] for i in range(n)]
    for c in range(n):
        p = next((r for r in range(c, n) if M[r][c] != (0, 0)), None)
        if p is None:
            return True
        M[c], M[p] = M[p], M[c]
        a, b = M[c][c]
        den = a * a + b * b
        for r in range(c + 1, n):
            x, y = M[r][c]
            if (x, y) == (0, 0):
                continue
            fr, fi = (x * a + y * b) / den, (y * a - x * b) / den      # factor = M[r][c] / pivot
            row = []
            for (u, v), (pu, pv) in zip(M[r], M[c]):
                row.append((u - (fr * pu - fi * pv), v - (fr * pv + fi * pu)))
            M[r] = row
    return False


def inverse(n, flat):
    M = [[flat[i * n + j] for j in range(n)] + [1.0 if i == j else 0.0 for j in range(n)] for i in range(n)]
    for c in range(n):
        p = max(range(c, n), key=lambda r: abs(M[r][c]))
        M[c], M[p] = M[p], M[c]
        pv = M[c][c]
        M[c] = [x / pv for x in M[c]]
        for r in range(n):
            if r != c:
                f = M[r][c]
                if f != 0:
                    M[r] = [x - f * y for x, y in zip(M[r], M[c])]
    return [M[i][n + j] for i in range(n) for j in range(n)]


def condition(n, flat):
    return float(np.linalg.cond(np.array(nest([complex(x) for x in flat], (n, n)), dtype=complex)))


def matpow(n, flat, k):
    """-> ('val', flat, scale) | ('err', why).  May raise Discard (guard band)."""
    if k < 0:
        if exactly_singular(n, flat):
            return ('err', 'singular')
        c = condition(n, flat)
        if not c ** abs(k) <= COND_GUARD:
            raise Discard('negative power of an ill-conditioned matrix (cond^|k| > 1e4)')
        flat = inverse(n, flat)
        k = -k
    res = [1 if i == j else 0 for i in range(n) for j in range(n)]
    scale = max(1.0, mag(flat))
    for _ in range(k):
        res, s = matmul2((n, n), res, (n, n), flat)
        scale = max(scale, s)
    return ('val', res, scale)


def is_intlike(e):
    return (isinstance(e, int) and not isinstance(e, bool)) or (isinstance(e, float) and e.is_integer())


def rule(op, A, B):
    """A, B = (shape, flat).  -> ('val', shape, flat, scale) | ('err', why)."""
    (sa, fa), (sb, fb) = A, B
    if op in '+-':
        sg = 1 if op == '+' else -1
        if sa == sb:
            out = [x + sg * y for x, y in zip(fa, fb)] if sa else [fa[0] + fb[0] if op == '+' else fa[0] - fb[0]]
            return ('val', sa, out, max(1.0, mag(fa), mag(fb)))
        if sb == () and fb[0] == 0:
            return ('val', sa, list(fa), max(1.0, mag(fa)))
        if sa == () and fa[0] == 0:
            return ('val', sb, [sg * y for y in fb], max(1.0, mag(fb)))
        return ('err', 'scalar+array' if () in (sa, sb) else 'shape mismatch')
    if op == '*':
        if sa == () or sb == ():
            out = [x * y for x in fa for y in fb]
            return ('val', sa or sb, out, max(1.0, mag(out)))
        if len(sa) > 2 or len(sb) > 2:
            return ('err', 'tensor product')
        if sa[-1] != sb[0]:
            return ('err', 'inner dimensions differ')
        sa2 = (1, sa[0]) if len(sa) == 1 else sa
        sb2 = (sb[0], 1) if len(sb) == 1 else sb
        out, scale = matmul2(sa2, fa, sb2, fb)
        shp = (() if len(sa) == 1 and len(sb) == 1 else (sb[1],) if len(sa) == 1 else (sa[0],) if len(sb) == 1
               else (sa[0], sb[1]))
        return ('val', shp, out, max(1.0, scale))
    if op == '/':
        if sb != ():
            return ('err', 'division by an array')
        if fb[0] == 0:
            raise Discard('division by zero is outside the judged domain')
        out = [x / fb[0] for x in fa]
        return ('val', sa, out, max(1.0, mag(out)))
    if op == '^':
        if sb != ():
            return ('err', 'array exponent')
        e = fb[0]
        if sa == ():
            if fa[0] == 0 and not (isinstance(e, (int, float)) and e > 0):
                raise Discard('0 to a non-positive power')
            out = fa[0] ** e
            return ('val', (), [out], max(1.0, abs(out)))
        if len(sa) != 2 or sa[0] != sa[1]:
            return ('err', 'base is not a square matrix')
        if isinstance(e, complex):
            if e.imag == 0:
                raise Discard('complex exponent with zero imaginary part')
            return ('err', 'complex exponent')
        if not is_intlike(e):
            return ('err', 'non-integer exponent')
        r = matpow(sa[0], fa, int(e))
        if r[0] == 'err':
            return r
        return ('val', sa, r[1], r[2])
    raise AssertionError(op)


# ------------------------------------------------------------------------------------------------------
# comparing a library result with the rule

def lib_shape(x):
    if isinstance(x, np.ndarray):
        return tuple(x.shape)
    if isinstance(x, Number):
        return ()
    return None


def check_value(prefix, got, exp, rec, ctx):
    _, shp, flat, scale = exp
    gs = lib_shape(got)
    if gs is None:
        raise Violation(prefix + '/result-type', '%s returned %r (neither number nor array)' % (ctx, type(got)))
    allowed = [shp] + ([()] if size(shp) == 1 else [])
    if gs not in allowed:
        raise Violation(prefix + '/shape', '%s: linear algebra gives shape %r, library returned shape %r'
                        % (ctx, shp, gs), returned=got)
    try:
        gf = [complex(v) for v in np.asarray(got).ravel().tolist()]
    except (TypeError, ValueError):
        raise Violation(prefix + '/result-type', '%s returned non-numeric entries %r' % (ctx, got))
    diff = max(abs(x - complex(y)) for x, y in zip(gf, flat))
    if not diff <= TOL * scale:
        raise Violation(prefix + '/value', '%s: entries differ from the linear-algebra value by %.3g (scale %.3g)'
                        % (ctx, diff, scale), returned=got, expected=[complex(y) for y in flat])
    rec.maximum('residual/scale', diff / scale)
    if size(shp) == 1 and shp != ():
        rec.cls('one-element-result')
    return gs


def check_error(prefix, err, ctx):
    if not isinstance(err, StudentFacingError):
        raise Violation('%s/error-type/%s' % (prefix, type(err).__name__),
                        '%s raised %s (%s) instead of a student-facing error' % (ctx, type(err).__name__,
                                                                                 str(err)[:200]))


def settle(prefix, exp, status, out, rec, ctx):
    """Compare one library outcome with the rule's expectation; returns a small observation."""
    if exp[0] == 'err':
        rec.cls('expect:error')
        if status == 'ok':
            if exp[1] == 'singular':
                raise Violation('pow/singular-not-refused',
                                '%s: the base is exactly singular, yet a value was returned (max |entry| %.3g)'
                                % (ctx, mag([complex(v) for v in np.asarray(out).ravel().tolist()])), returned=out)
            raise Violation(prefix + '/should-raise', '%s must raise (%s) but returned a value of shape %r'
                            % (ctx, exp[1], lib_shape(out)), returned=out)
        check_error(prefix, out, ctx)
        return {'raised': type(out).__name__, 'why': exp[1]}
    rec.cls('expect:value')
    if status == 'err':
        check_error(prefix, out, ctx)
        raise Violation(prefix + '/should-return', '%s has a linear-algebra value (shape %r) but raised %s: %s'
                        % (ctx, exp[1], type(out).__name__, str(out)[:200]))
    gs = check_value(prefix, out, exp, rec, ctx)
    return {'shape': list(gs)}


# ------------------------------------------------------------------------------------------------------
# building library objects / formula text from a spec

def build(opd):
    shp, flat = opd_ref(opd)
    return flat[0] if shp == () else MathArray(nest(flat, shp))


def _negative(x):
    return x < 0 or (isinstance(x, float) and x == 0 and str(x).startswith('-'))


def fmt_real(x):
    return str(x) if isinstance(x, int) else repr(x)


CONST_NAMES = {math.e: 'e', math.pi: 'pi'}


def fmt_entry(e, standalone, bare=False):
    if isinstance(e, list):
        re_, im = e
        return '(%s%s%s*i)' % (fmt_real(re_), '-' if _negative(im) else '+', fmt_real(abs(im)))
    if isinstance(e, float) and e in CONST_NAMES:
        return CONST_NAMES[e]
    if standalone and _negative(e) and not bare:
        return '(%s)' % fmt_real(e)
    return fmt_real(e)


def fmt_literal(opd, bare=False):
    shp = tuple(opd['s'])
    if shp == ():
        return fmt_entry(opd['e'][0], True, bare)

    def rec_(flat, s):
        if len(s) == 1:
            return '[' + ', '.join(fmt_entry(e, False) for e in flat) + ']'
        step = len(flat) // s[0]
        return '[' + ', '.join(rec_(flat[i * step:(i + 1) * step], s[1:]) for i in range(s[0])) + ']'
    return rec_(opd['e'], shp)


DERIVED_M = {2: {'s': [2, 2], 'e': [2, 1, 1, 3]}, 3: {'s': [3, 3], 'e': [2, 1, 0, 1, 3, 1, 0, 1, 4]},
             4: {'s': [4, 4], 'e': [2, 1, 0, 0, 1, 3, 1, 0, 0, 1, 4, 1, 0, 0, 1, 5]}}


def run_op(spec):
    op, route = spec['op'], spec['route']
    if route == 'formula':
        variables = {'i': 1j, 'e': math.e, 'pi': math.pi}
        parts = []
        for name, opd, lit in (('A', spec['a'], spec['lit'][0]), ('B', spec['b'], spec['lit'][1])):
            if lit:
                parts.append(fmt_literal(opd, bare=(name == 'B' and op == '^' and spec.get('bare', False))))
            else:
                nm = name if opd['s'] else name.lower()
                variables[nm] = build(opd)
                parts.append(nm)
        if spec.get('derived'):
            parts[0] = '(%s^-1*0+%s)' % (fmt_literal(DERIVED_M[spec['a']['s'][0]]), parts[0])
        formula = parts[0] + op + parts[1]
        status, out = call(evaluator, formula, variables, {}, {})
        return status, (out[0] if status == 'ok' else out), formula
    a, b = build(spec['a']), build(spec['b'])
    if spec.get('derived'):
        a = (build(DERIVED_M[spec['a']['s'][0]]) ** -1) * 0 + a
    f = INP[op] if route == 'inplace' else BIN[op]
    status, out = call(f, a, b)
    return status, out, '%s %s%s %s' % (spec['a']['s'] or 'scalar', op, '=' if route == 'inplace' else '',
                                       spec['b']['s'] or 'scalar')


def broadcastable(sa, sb):
    try:
        np.broadcast_shapes(sa, sb)
        return True
    except ValueError:
        return False


def judge_op(spec, rec):
    op = spec['op']
    A, B = opd_ref(spec['a']), opd_ref(spec['b'])
    sa, sb = A[0], B[0]
    exp = rule(op, A, B)
    status, out, text = run_op(spec)
    rec.calls()
    route = spec['route']
    if route == 'formula':
        label = 'formula-lit' if any(spec['lit']) else 'formula-var'
    else:
        label = 'reflected' if (route == 'binary' and sa == ()) else route
    rec.cls('route:' + label)
    rec.cls('op:' + OPN[op])
    if spec.get('derived'):
        rec.cls('pow:base-derived-from-an-inverse-computed-before')
    flat_all = A[1] + B[1]
    if any(isinstance(x, complex) for x in flat_all):
        rec.cls('complex-entries')
    elif all(isinstance(x, int) for x in flat_all):
        rec.cls('int-entries')
    if sa != sb and sa != () and sb != () and exp[0] == 'err' and broadcastable(sa, sb):
        rec.cls('near-miss-shapes(numpy would broadcast)')
    if op in '+-' and () in (sa, sb) and sa != sb:
        s = A[1][0] if sa == () else B[1][0]
        if s == 0:
            rec.cls('add/sub:zero-scalar')
        elif abs(s) < 1e-200:
            rec.cls('add/sub:tiny-nonzero-scalar')
    small_pos_int = False
    if op == '^' and sb == () and sa != ():
        e = B[1][0]
        small_pos_int = isinstance(e, int) and 1 <= e <= 3
        if len(sa) != 2 or sa[0] != sa[1]:
            rec.cls('pow:base-not-square-matrix')
        elif isinstance(e, complex) or not is_intlike(e):
            rec.cls('pow:non-integer-exponent')
            if not isinstance(e, complex) and abs(e - round(e)) < 1e-9:
                rec.cls('pow:nearly-integer-float')
        else:
            if isinstance(e, float):
                rec.cls('pow:integer-valued-float')
            if e < 0:
                rec.cls('pow:exactly-singular-negative' if exp[0] == 'err' else 'pow:negative-exponent-value')
    if exp[0] == 'err' and exp[1] == 'singular' and not JUDGE_EXACT_SINGULAR and status == 'ok':
        raise Discard('exactly singular base whose singularity LAPACK did not notice (not judged)')
    rec.nontrivial(sa != sb or (op == '^' and not small_pos_int))
    obs = settle(OPN[op], exp, status, out, rec, '%s via %s [%s]' % (OPN[op], label, text[:160]))
    return obs


# ------------------------------------------------------------------------------------------------------
# deterministic entries for the enumerated parts (fixed data, independent of the seed)

class Seq:
    def __init__(self, k):
        self.x = (k * 2654435761 + 12345) % (1 << 64)

    def nxt(self, m):
        self.x = (self.x * 6364136223846793005 + 1442695040888963407) % (1 << 64)
        return (self.x >> 33) % m


def seq_entry(sq, kind):
    if kind == 'int':
        return sq.nxt(11) - 5
    if kind == 'dec':
        return (sq.nxt(601) - 300) / 100
    if kind == 'cxint':
        return [sq.nxt(11) - 5, sq.nxt(11) - 5]
    return [(sq.nxt(601) - 300) / 100, (sq.nxt(601) - 300) / 100]


def seq_nonzero(sq, kind):
    while True:
        e = seq_entry(sq, kind)
        if abs(num(e)) >= 0.01:
            return e


def scale_entry(e, c):
    return [c * e[0], c * e[1]] if isinstance(e, list) else c * e


def add_entries(e, f):
    if isinstance(e, list) or isinstance(f, list):
        e = e if isinstance(e, list) else [e, 0]
        f = f if isinstance(f, list) else [f, 0]
        return [e[0] + f[0], e[1] + f[1]]
    return e + f


def zero_like(e):
    return [0, 0] if isinstance(e, list) else (0 if isinstance(e, int) else 0.0)


def shape_square(n, flat, variant, i, j, k, c1, c2):
    """Apply a construction to the n x n entries: 'raw', 'dominant' (well conditioned) or an exactly singular one."""
    flat = [list(e) if isinstance(e, list) else e for e in flat]
    row = lambda r: flat[r * n:(r + 1) * n]           # noqa: E731
    if variant == 'dominant':
        for d in range(n):
            sign = -1 if _negative(num(flat[d * n + d]).real) else 1
            flat[d * n + d] = add_entries(flat[d * n + d], sign * 8 * n)
    elif variant == 'zero-row':
        flat[i * n:(i + 1) * n] = [zero_like(e) for e in row(i)]
    elif variant == 'zero-col':
        for r in range(n):
            flat[r * n + i] = zero_like(flat[r * n + i])
    elif variant == 'dup-row':
        flat[i * n:(i + 1) * n] = [scale_entry(e, 1) for e in row(j)]
    elif variant == 'twice-row':
        flat[i * n:(i + 1) * n] = [scale_entry(e, 2) for e in row(j)]
    elif variant == 'neg-row':
        flat[i * n:(i + 1) * n] = [scale_entry(e, -1) for e in row(j)]
    elif variant == 'dup-col':
        for r in range(n):
            e = flat[r * n + j]
            flat[r * n + i] = list(e) if isinstance(e, list) else e
    elif variant == 'comb-row':      # integer kinds only: exact
        new = [scale_entry(e, c1) for e in row(j)]
        if n > 2:
            new = [add_entries(x, scale_entry(y, c2)) for x, y in zip(new, row(k))]
        flat[i * n:(i + 1) * n] = new
    return flat


SINGULAR_ANY = ['zero-row', 'zero-col', 'dup-row', 'twice-row', 'neg-row', 'dup-col']
SINGULAR_INT = SINGULAR_ANY + ['comb-row']


def seq_operand(sq, shp, kind):
    return {'s': list(shp), 'e': [seq_entry(sq, kind) for _ in range(size(shp))]}


def routes_for(sa, sb, kind, lit_ok=True):
    out = []
    if sa != () or sb != ():
        out.append(('binary', None))
    if sa != ():
        out.append(('inplace', None))
    out.append(('formula', [False, False]))
    if lit_ok:
        out.append(('formula', 'cycle'))
    return out


LIT_CYCLE = [[True, True], [True, False], [False, True]]


def items_lattice(tier):
    idx = 0
    for sa, sb, op in itertools.product(SHAPES, SHAPES, '+-*/^'):
        for kind in ('dec', 'cx', 'int'):
            # variants of the scalar operand(s)
            if op in '+-':
                variants = ['zero', 'nonzero'] if (() in (sa, sb) and sa != sb) else ['nonzero']
            elif op == '*':
                variants = ['nonzero', 'zero'] if (() in (sa, sb) and kind == 'dec') else ['nonzero']
            elif op == '/':
                variants = ['nonzero', 'zero'] if (sa == () and sb != () and kind == 'dec') else ['nonzero']
            else:
                variants = [2, -1, 0.5] if sb == () else ['nonzero']
            for var in variants:
                for route, lit in routes_for(sa, sb, kind, lit_ok=(kind != 'int')):
                    idx += 1
                    sq = Seq(idx)
                    a = seq_operand(sq, sa, kind)
                    b = seq_operand(sq, sb, kind)
                    if sa == ():
                        zero_left = var == 'zero' and not (op == '/' and sb == ())
                        a['e'] = [zero_like(a['e'][0])] if zero_left else [seq_nonzero(sq, kind)]
                    if sb == ():
                        if op == '^':
                            b['e'] = [var]
                        elif var == 'zero' and sa != () and op != '/':
                            b['e'] = [zero_like(b['e'][0])]
                        else:
                            b['e'] = [seq_nonzero(sq, kind)]
                    if op == '^' and sb == () and len(sa) == 2 and sa[0] == sa[1]:
                        a['e'] = shape_square(sa[0], a['e'], 'dominant', 0, 0, 0, 0, 0)
                    spec = {'op': op, 'route': route, 'a': a, 'b': b}
                    if route == 'formula':
                        spec['lit'] = LIT_CYCLE[idx % 3] if lit == 'cycle' else lit
                        spec['bare'] = bool(idx % 2)
                    yield spec


SCALAR_ZEROS = [0, 0.0, -0.0, [0, 0], [0.0, 0.0]]
# ... and bases for which an implementation may have a special route: the constants e and pi (written by NAME in the
# formula route), 2 and 10
SCALAR_NORMAL = [1, -2, 2.5, -0.75, [1, 1], [0, -2], [1.5, -0.5], math.e, math.pi, 2, 10]
SCALAR_TINY = [1e-300, -1e-300, 5e-324, [0.0, 1e-300]]


def items_scalars(tier):
    """Every array shape x operator x a pool of scalars (zeros of each type, ordinary, tiny non-zero) on each side."""
    idx = 0
    for shp, op, side in itertools.product(ARRAY_SHAPES, '+-*/^', 'lr'):
        if op == '^' and side == 'r':
            continue                      # exponents: see items_powers
        pool = SCALAR_ZEROS + SCALAR_NORMAL + SCALAR_TINY
        if op == '/' and side == 'r':
            pool = SCALAR_NORMAL          # no division by zero / overflow
        for s in pool:
            routes = [('binary', None), ('formula', [False, False]), ('formula', 'scalar-literal')]
            if side == 'r':
                routes.append(('inplace', None))
            for route, lit in routes:
                idx += 1
                sq = Seq(104729 + idx)
                arr = seq_operand(sq, shp, ('dec', 'cx', 'int')[idx % 3])
                sc = {'s': [], 'e': [s]}
                spec = {'op': op, 'route': route, 'a': sc if side == 'l' else arr, 'b': arr if side == 'l' else sc}
                if route == 'formula':
                    spec['lit'] = ([side == 'l', side == 'r'] if lit == 'scalar-literal' else lit)
                    spec['bare'] = False
                yield spec


def items_powers(tier):
    idx = 0
    for sa in ARRAY_SHAPES:
        square = len(sa) == 2 and sa[0] == sa[1]
        for kind in ('dec', 'cx', 'int', 'cxint'):
            if not square:
                variants = ['raw'] if kind in ('dec', 'cx') else []
            else:
                variants = ['dominant'] + (SINGULAR_INT if kind in ('int', 'cxint') else SINGULAR_ANY)
            for variant in variants:
                for e in EXPONENTS:
                    for route, lit in (('binary', None), ('inplace', None), ('formula', [False, False]),
                                       ('formula', [True, True])):
                        idx += 1
                        sq = Seq(7919 + idx)
                        a = seq_operand(sq, sa, kind)
                        if square:
                            n = sa[0]
                            i = sq.nxt(n)
                            j = (i + 1 + sq.nxt(n - 1)) % n
                            k = next((r for r in range(n) if r not in (i, j)), i)
                            a['e'] = shape_square(n, a['e'], variant, i, j, k, sq.nxt(5) - 2 or 3, sq.nxt(5) - 2 or -3)
                        spec = {'op': '^', 'route': route, 'a': a, 'b': {'s': [], 'e': [e]}}
                        if route == 'formula':
                            spec['lit'] = lit
                            spec['bare'] = bool(idx % 2)
                        yield spec


# ------------------------------------------------------------------------------------------------------
# random operations (Hypothesis)

def shape_ok(op, sa, sb):
    if op in '+-':
        return sa == sb or () in (sa, sb)
    if op == '*':
        return () in (sa, sb) or (len(sa) <= 2 and len(sb) <= 2 and sa[-1] == sb[0])
    if op == '/':
        return sb == ()
    return sb == () and len(sa) == 2 and sa[0] == sa[1]


def _pairs():
    out = {}
    every = [(sa, sb) for sa in SHAPES for sb in SHAPES if (sa, sb) != ((), ())]
    for op in '+-*/^':
        ok = [p for p in every if shape_ok(op, *p)]
        bad = [p for p in every if not shape_ok(op, *p)]
        near = [p for p in bad if () not in p and (broadcastable(*p) or size(p[0]) == size(p[1])
                                                     or (op == '*' and max(len(p[0]), len(p[1])) > 2))]
        if op == '^':       # vectors / non-square matrices / tensors to scalar powers are near misses too
            near = near + [p for p in bad if p[1] == () and p[0] != ()]
        out[op] = {'ok': ok, 'near': near or bad, 'any': every}
    return out


PAIRS = _pairs()
KINDS = ['int', 'dec', 'cx', 'cxint']


def st_entry(kind):
    dec = st.integers(-300, 300).map(lambda k: k / 100)
    small = st.integers(-5, 5)
    if kind == 'int':
        return small
    if kind == 'dec':
        return dec
    if kind == 'cxint':
        return st.tuples(small, small).map(list)
    return st.tuples(dec, dec).map(list)


def st_nonzero(kind):
    return st_entry(kind).filter(lambda e: abs(num(e)) >= 0.01)


TINY = [1e-300, -1e-300, 5e-324, [0.0, 1e-300], [1e-300, 0.0]]
ZEROS = [0, 0.0, -0.0, [0.0, 0.0], [0, 0]]


@st.composite
def st_opcase(draw):
    op = draw(st.sampled_from(['+', '-', '*', '/', '^', '^']))
    mode = draw(st.sampled_from(['ok', 'ok', 'ok', 'near', 'near', 'any']))
    sa, sb = draw(st.sampled_from(PAIRS[op][mode]))
    ka = draw(st.sampled_from(KINDS))
    kb = draw(st.sampled_from([ka, ka] + KINDS))
    a = {'s': list(sa), 'e': draw(st.lists(st_entry(ka), min_size=size(sa), max_size=size(sa)))}
    b = {'s': list(sb), 'e': draw(st.lists(st_entry(kb), min_size=size(sb), max_size=size(sb)))}
    for side, opd, kind in (('a', a, ka), ('b', b, kb)):
        if opd['s']:
            continue
        if op in '+-':
            pool = draw(st.sampled_from(['zero', 'nonzero', 'nonzero', 'tiny']))
            opd['e'] = [draw(st.sampled_from(ZEROS)) if pool == 'zero' else
                        draw(st.sampled_from(TINY)) if pool == 'tiny' else draw(st_nonzero(kind))]
        elif op == '^' and side == 'b':
            opd['e'] = [draw(st.sampled_from(EXPONENTS + [-1, -1, -2, 2, 5, -4, -5]))]
        elif (op == '/' and side == 'b') or op == '^':
            opd['e'] = [draw(st_nonzero(kind))]
    if op == '^' and sb == () and len(sa) == 2 and sa[0] == sa[1]:
        n = sa[0]
        # rank-deficient constructions other than a zero row/column have their own part ('singular')
        a['e'] = draw(st_square(n, a['e'], ['raw', 'raw', 'dominant', 'dominant', 'zero-row', 'zero-col']))
    return draw(st_routed(op, a, b))


@st.composite
def st_square(draw, n, flat, pool):
    variant = draw(st.sampled_from(pool))
    i = draw(st.integers(0, n - 1))
    j = (i + 1 + draw(st.integers(0, n - 2))) % n
    k = next((r for r in range(n) if r not in (i, j)), i)
    c1 = draw(st.sampled_from([-3, -2, -1, 1, 2, 3]))
    c2 = draw(st.sampled_from([-3, -2, -1, 1, 2, 3]))
    return shape_square(n, flat, variant, i, j, k, c1, c2)


@st.composite
def st_singular(draw):
    """Square matrices that are exactly rank deficient (rows/columns repeated, scaled or combined) to powers."""
    n = draw(st.sampled_from([2, 2, 3, 3, 4]))
    kind = draw(st.sampled_from(KINDS))
    flat = draw(st.lists(st_entry(kind), min_size=n * n, max_size=n * n))
    pool = ['dup-row', 'twice-row', 'neg-row', 'dup-col'] + (['comb-row', 'comb-row'] if kind in ('int', 'cxint')
                                                              else [])
    a = {'s': [n, n], 'e': draw(st_square(n, flat, pool))}
    b = {'s': [], 'e': [draw(st.sampled_from([-1, -1, -1, -2, -3, -1.0, -2.0, 0, 1, 2, 3, 2.0, 0.5, -0.5]))]}
    spec = draw(st_routed('^', a, b))
    # the base as the RESULT of arithmetic on an inverse that was computed just before: (M^-1*0 + A)^k with a well-conditioned
    # M - the same matrix A, but an object derived from other arrays (a seeded change cached a matrix's rank on the array
    # object, and numpy handed the cached value on to every array derived from it)
    spec['derived'] = draw(st.booleans())
    return spec


@st.composite
def st_routed(draw, op, a, b):
    sa, sb = tuple(a['s']), tuple(b['s'])
    routes = ['formula', 'formula']
    if sa != () or sb != ():
        routes.append('binary')
        if sa == ():
            routes.append('binary')
    if sa != ():
        routes.append('inplace')
    route = draw(st.sampled_from(routes))
    spec = {'op': op, 'route': route, 'a': a, 'b': b}
    if route == 'formula':
        spec['lit'] = draw(st.sampled_from([[False, False], [False, False], [True, True], [True, False],
                                            [False, True]]))
        spec['bare'] = draw(st.booleans())
    return spec


# ------------------------------------------------------------------------------------------------------
# chained products

@st.composite
def st_chain(draw):
    n = draw(st.sampled_from([2, 2, 3, 4]))
    kind = draw(st.sampled_from(['int', 'dec', 'dec', 'cx']))
    if draw(st.integers(0, 5)) == 0:
        # a fully contracted product that is NOT vector*vector (row*column, row*vector, vector*column: a number, or a
        # one-element array) and then, in the same unparenthesised chain, a division by an array: always an error
        left, right = draw(st.sampled_from([((1, n), (n, 1)), ((1, n), (n,)), ((n,), (n, 1))]))
        wshape = draw(st.sampled_from([(n,), (2,), (n, n), (1, n), (n, 1), (2, 2, 2)]))
        fs = [{'s': list(shp), 'e': draw(st.lists(st_entry(kind), min_size=size(shp), max_size=size(shp)))}
              for shp in (left, right, wshape)]
        return {'special': 'contracted-then-divided-by-array', 'f': fs, 'prefix': draw(st.sampled_from(['', '2*', '(1+1)*'])),
                'tail': draw(st.sampled_from(['', '*2', '/2'])), 'lit': draw(st.lists(st.booleans(), min_size=3, max_size=3))}
    count = draw(st.integers(2, 5))
    types = draw(st.lists(st.sampled_from(['v', 'v', 'v', 'm', 's']), min_size=count, max_size=count))
    factors, ops = [], []
    for pos, t in enumerate(types):
        shp = {'v': (n,), 'm': (n, n), 's': ()}[t]
        if t == 's':
            ent = [draw(st_nonzero(kind))]
        else:
            ent = draw(st.lists(st_entry(kind), min_size=size(shp), max_size=size(shp)))
        factors.append({'s': list(shp), 'e': ent})
        if pos:
            ops.append(draw(st.sampled_from(['*', '*', '/'])) if t == 's' else '*')
    grp = None
    if count >= 3 and draw(st.booleans()):
        i = draw(st.integers(0, count - 2))
        j = draw(st.integers(i + 1, count - 1))
        if (i, j) != (0, count - 1) and (i == 0 or ops[i - 1] == '*'):
            grp = [i, j]
    lit = draw(st.lists(st.booleans(), min_size=count, max_size=count))
    return {'f': factors, 'ops': ops, 'grp': grp, 'lit': lit}


def eval_flat(values, ops):
    """Left-to-right product of (shape, flat) values; three or more vector factors are refused."""
    if sum(1 for s, _ in values if len(s) == 1) >= 3:
        return ('err', 'three or more vectors'), 1.0
    cur, scale = values[0], 1.0
    for op, v in zip(ops, values[1:]):
        r = rule(op, cur, v)
        if r[0] == 'err':
            return r, scale
        cur = (r[1], r[2])
        scale = max(scale, r[3])
    return ('val', cur[0], cur[1], scale), scale


def judge_chain(spec, rec):
    if spec.get('special'):
        names, variables = [], {'i': 1j}
        for pos, (f, lit) in enumerate(zip(spec['f'], spec['lit'])):
            if lit:
                names.append(fmt_literal(f))
            else:
                variables['x%d' % pos] = build(f)
                names.append('x%d' % pos)
        text = '%s%s*%s/%s%s' % (spec['prefix'], names[0], names[1], names[2], spec['tail'])
        status, out = call(evaluator, text, variables, {}, {}, max_array_dim=3)
        rec.calls()
        if status == 'ok':
            out = out[0]
        rec.cls('chain:contracted-product-then-division-by-array')
        rec.nontrivial()
        return dict(settle('chain', ('err', 'division by an array'), status, out, rec, 'product chain [%s]' % text[:200]),
                    text=text[:120])
    fs, ops, grp = spec['f'], spec['ops'], spec['grp']
    values = [opd_ref(f) for f in fs]
    names, variables = [], {'i': 1j}
    for pos, (f, lit) in enumerate(zip(fs, spec['lit'])):
        if lit:
            names.append(fmt_literal(f))
        else:
            nm = 'x%d' % pos
            variables[nm] = build(f)
            names.append(nm)
    text = ''
    for pos, nm in enumerate(names):
        if pos:
            text += ops[pos - 1]
        if grp and pos == grp[0]:
            text += '('
        text += nm
        if grp and pos == grp[1]:
            text += ')'
    nvec_text = sum(1 for s, _ in values if len(s) == 1)
    if grp:
        i, j = grp
        inner, _ = eval_flat(values[i:j + 1], ops[i:j])
        if inner[0] == 'err':
            exp = inner
        else:
            vals2 = values[:i] + [(inner[1], inner[2])] + values[j + 1:]
            ops2 = ops[:i] + ops[j:]
            exp, sc = eval_flat(vals2, ops2)
            if exp[0] == 'val':
                exp = ('val', exp[1], exp[2], max(exp[3], inner[3], sc))
    else:
        exp, _ = eval_flat(values, ops)
    if exp[0] == 'val' and mag(exp[2]) > 1e12:
        raise Discard('intermediate above 1e12')
    status, out = call(evaluator, text, variables, {}, {})
    rec.calls()
    if status == 'ok':
        out = out[0]
    if exp[0] == 'err':
        rec.cls('chain:>=3-vectors-flat')
    else:
        if nvec_text >= 3:
            rec.cls('chain:parentheses-rescue')
        if nvec_text >= 2:
            rec.cls('chain:two-vectors-value')
    rec.nontrivial(nvec_text >= 2)
    return dict(settle('chain', exp, status, out, rec, 'product chain [%s]' % text[:200]), text=text[:120])


# ------------------------------------------------------------------------------------------------------
# MatrixGrader(negative_powers=False) histories

def _mm(n, x, y):
    return matmul2((n, n), x, (n, n), y)[0]


def negpow_tables(n, A, inv):
    ident = [1.0 if i == j else 0.0 for i in range(n) for j in range(n)]
    vec = list(range(1, n + 1))
    vtxt = '[' + ','.join(str(v) for v in vec) + ']'
    inv2 = _mm(n, inv, inv)
    sq = _mm(n, A, A)
    M = (n, n)
    neg = [('A^-1', M, inv), ('A^(-1)', M, inv), ('A^-1.0', M, inv), ('A^(1-2)', M, inv), ('A^-2', M, inv2),
           ('2*A^-1', M, [2 * x for x in inv]), ('A^-1*A^2', M, list(A)), ('(A^2)^-1', M, inv2),
           ('A*A^-2', M, inv), ('A^-1+A', M, [x + y for x, y in zip(inv, A)]), ('LIT^-1', M, inv),
           ('A^-1*' + vtxt, (n,), matmul2((n, n), inv, (n, 1), vec)[0]), ('A^(-2.0)', M, inv2)]
    pos = [('A^2', M, sq), ('A*A', M, sq), ('A^0', M, ident), ('2^-1*A', M, [0.5 * x for x in A]),
           ('A/2', M, [x / 2 for x in A]), ('A^2.0', M, sq), ('A^1', M, list(A)), ('(-1)^-1*A', M, [-x for x in A]),
           ('A^-0', M, ident), ('A*' + vtxt, (n,), matmul2((n, n), A, (n, 1), vec)[0])]
    err = ['A+1', 'A^0.5', 'A*[1,2,3,4,5]', 'A+[1,2]', vtxt + '*' + vtxt + '*' + vtxt, 'A/A', '2^A', 'A^-0.5']
    return neg, pos, err


@st.composite
def st_negpow(draw):
    n = draw(st.sampled_from([2, 2, 3]))
    off = draw(st.lists(st.integers(-2, 2), min_size=n * n, max_size=n * n))
    diag = draw(st.lists(st.sampled_from([-8, -7, -6, -5, 5, 6, 7, 8]), min_size=n, max_size=n))
    half = draw(st.booleans())
    steps = draw(st.lists(st.fixed_dictionaries({
        'who': st.sampled_from(['g0', 'g0', 'g0', 'g0s', 'g1', 'ctx', 'ctx']),
        'cat': st.sampled_from(['neg', 'neg', 'neg', 'pos', 'err']),
        'x': st.integers(0, 12), 'after': st.sampled_from(['direct', 'formula']),
        'seed': st.integers(0, 10 ** 6)}), min_size=2, max_size=7))
    return {'n': n, 'off': off, 'diag': diag, 'half': half, 'steps': steps}


def judge_negpow(spec, rec):
    n = spec['n']
    A = [float(x) for x in spec['off']]
    for d in range(n):
        A[d * n + d] = float(spec['diag'][d])
    if spec['half']:
        A = [x / 2 for x in A]
    inv = inverse(n, A)
    Aopd = {'s': [n, n], 'e': A}
    neg, pos, err = negpow_tables(n, A, inv)
    scale = max(1.0, mag(A)) ** 2
    obs = []
    prev_disabled = False
    for num_, stp in enumerate(spec['steps']):
        who, cat = stp['who'], stp['cat']
        if cat == 'err':
            text, want = err[stp['x'] % len(err)], ('err', 'invalid expression')
        else:
            table = neg if cat == 'neg' else pos
            text, shp, flat = table[stp['x'] % len(table)]
            want = ('val', shp, flat, scale)
        text = text.replace('LIT', fmt_literal(Aopd))
        ctx = 'step %d: %s on %r' % (num_, who, text)
        Aarr = MathArray(nest(A, (n, n)))
        if who == 'ctx':
            def inside():
                with MathArray.enable_negative_powers(False):
                    return evaluator(text, {'A': Aarr}, {}, {})[0]
            status, out = call(inside)
            rec.calls()
            if cat == 'neg':
                rec.cls('negpow:disabled-context-refuses')
                if status == 'ok':
                    raise Violation('negpow/not-refused', ctx + ': negative matrix power evaluated although disabled',
                                    returned=out)
                check_error('negpow', out, ctx)
            else:
                if cat == 'err':
                    rec.cls('negpow:disabled-then-error-inside')
                settle('negpow/while-disabled', want, status, out, rec, ctx)
        else:
            answer = fmt_literal({'s': list(want[1]), 'e': [float(x) for x in want[2]]}) if want[0] == 'val' else '0'
            cfg = dict(answers=answer, user_constants={'A': Aarr}, max_array_dim=2,
                       negative_powers=(who == 'g1'))
            if who == 'g0s':
                cfg['suppress_matrix_messages'] = True
            # what else the problem declares must not matter for the switch: a dependent variable (sampled through a
            # formula of its own), a random function, or the grader serving one box of an ordered list whose answer
            # refers to a sibling box (siblings are sampled as dependent variables too)
            flavour = stp['seed'] % 4
            if flavour == 1:
                cfg.update(variables=['u', 'w'], sample_from={'u': [1, 2], 'w': DependentSampler(depends=['u'], formula='u+1')})
            elif flavour == 2:
                cfg.update(variables=['u'], user_functions={'rf': RandomFunction()},
                           sample_from={'u': DependentSampler(depends=[], formula='2*3')})
            rec.cls('negpow:grader-flavour-%d' % flavour)
            if flavour == 3:
                sub_cfg = {k: v for k, v in cfg.items() if k != 'answers'}
                grader = ListGrader(answers=['7', '(%s)+0*sibling_1' % answer], subgraders=forms.make(MatrixGrader, sub_cfg), ordered=True)
                set_seed(stp['seed'])
                status, out = call(grader, None, ['7', text])
                if status == 'ok':
                    out = out['input_list'][1]
            else:
                grader = forms.make(MatrixGrader, cfg)
                set_seed(stp['seed'])
                status, out = call(grader, None, text)
            rec.calls()
            if status == 'err':
                check_error('negpow', out, ctx)
            graded_ok = status == 'ok' and out.get('ok') is True
            refused = status == 'err' or (who == 'g0s' and status == 'ok' and out.get('ok') is False)
            if cat == 'err':
                if who != 'g1':
                    rec.cls('negpow:disabled-then-error-inside')
                if not refused:
                    raise Violation('negpow/invalid-not-refused', ctx + ': invalid expression was graded: %r' % (out,))
            elif cat == 'neg' and who != 'g1':
                rec.cls('negpow:disabled-grader-refuses')
                if not refused:
                    raise Violation('negpow/not-refused', ctx + ': negative matrix power was graded although the '
                                    'grader has negative_powers=False: %r' % (out,))
            else:
                rec.cls('negpow:enabled-grader-correct' if who == 'g1' else 'negpow:disabled-grader-other-input')
                if not graded_ok:
                    key = 'negpow/enabled-grader-wrong' if who == 'g1' else 'negpow/other-input-refused'
                    raise Violation(key, ctx + ': input equal to the answer was not graded correct: %r' % (out,))
        # afterwards / outside that grader A^-1 works again
        if stp['after'] == 'direct':
            status, out = call(operator.pow, MathArray(nest(A, (n, n))), -1)
        else:
            status, out = call(evaluator, 'A^-1', {'A': MathArray(nest(A, (n, n)))}, {}, {})
            out = out[0] if status == 'ok' else out
        rec.calls()
        if who != 'g1':
            rec.cls('negpow:after-disabled-works-again')
        if status == 'err':
            raise Violation('negpow/stuck-disabled', 'after %s, A^-1 outside any grader raised %s: %s'
                            % (ctx, type(out).__name__, str(out)[:200]))
        check_value('negpow/after', out, ('val', (n, n), inv, scale), rec, 'A^-1 after ' + ctx)
        rec.nontrivial(prev_disabled)
        prev_disabled = prev_disabled or who != 'g1'
        obs.append('%s:%s' % (who, cat))
    return {'steps': obs}


PARTS = [
    Part('lattice', 'enum', judge_op, items=items_lattice, exhaustive=True),
    Part('scalars', 'enum', judge_op, items=items_scalars, exhaustive=True),
    Part('powers', 'enum', judge_op, items=items_powers, exhaustive=True),
    Part('random', 'hyp', judge_op, strategy=lambda tier: st_opcase(), budget={'quick': 10000, 'thorough': 500000}),
    Part('singular', 'hyp', judge_op, strategy=lambda tier: st_singular(), budget={'quick': 1200, 'thorough': 40000}),
    Part('chains', 'hyp', judge_chain, strategy=lambda tier: st_chain(), budget={'quick': 3000, 'thorough': 100000}),
    Part('negpow', 'hyp', judge_negpow, strategy=lambda tier: st_negpow(), budget={'quick': 1200, 'thorough': 40000}),
]
