"""C15 - built-in functions and constants agree with their mathematical definitions."""
import itertools
import math
import warnings

import mpmath as mp
import numpy as np
from hypothesis import strategies as st

from vlib.core import Part, Violation, Discard, call

from mitxgraders import FormulaGrader, NumericalGrader, MatrixGrader
from mitxgraders.helpers.calc import evaluator, MathArray
from mitxgraders.exceptions import StudentFacingError, MITxError

mp.mp.dps = 40

# numpy's floating-point error state is context-local and the library configures it when it is imported (np.seterr /
# np.seterrcall in expressions.py).  A pool worker forked from a helper thread of the parent would start with numpy's
# defaults instead, so the state the library under test established in the importing thread is captured here, right
# after the import above, and re-established before every case (never hard-coded: it is part of what is tested).
_NP_ERR, _NP_ERRCALL = np.geterr(), np.geterrcall()


def _library_numpy_state():
    np.seterr(**_NP_ERR)
    np.seterrcall(_NP_ERRCALL)


RULE = ("A case is (function table F/N/M = Formula/Numerical/MatrixGrader.default_functions, function name, argument "
        "list); arguments are real floats, complex numbers or real/complex arrays, handed to "
        "evaluator('f(p0,..)', variables, table, {}) as variables (or, for arrays, also as literal '[[p0,p1],..]' of "
        "scalar variables) so that library and oracle see the same binary input. Exhaustive parts: constants; a grid of "
        "~200 real/complex points (exact poles, domain edges, cut/pole neighbourhoods >= 1e-6 away, 1e-300..1e300) x "
        "every unary scalar function x tables; every function x 1-3 arguments x argument kinds (arity); every function "
        "x a catalogue of argument shapes. Random parts: unary, binary/variadic and array functions on Hypothesis-"
        "generated points/arrays. Oracle: mpmath (40 digits) textbook definitions. Each case has a zone: must "
        "(in-domain: a value is required and judged), raise (exact pole, real-only function on non-real input, wrong "
        "arity, wrong shape: a StudentFacingError is required), either (outside the classical real domain, "
        "overflow/underflow of the result, shapes the docs are silent about: a judged value or a StudentFacingError). "
        "Forward functions by value with tolerance 1e-9|ref| + 1e3|ref(z(1+2^-52))-ref(z)| + 1e-300; inverse functions "
        "by f(f_inv(z)) = z (or, equivalently, 1/f(f_inv(z)) = 1/z, which stays well conditioned next to a pole of f) "
        "with the same conditioning-aware tolerance evaluated at the returned y, plus the agreed principal value on "
        "the classical real domain; exact functions (floor, ceil, min, max, re, im, conj, kronecker, transposes) by "
        "equality; det against the Leibniz sum with a backward-error bound for LU; norm, trace, cross to 1e-9 of "
        "the sum of the magnitudes of their terms. In every zone: no NaN/inf, no numpy RuntimeWarning, no "
        "non-StudentFacingError exception, result of the expected shape. Non-trivial = an argument is non-real, or "
        "within 1e-3 (relative) of a pole/cut/domain edge, or has |z| outside [1e-3, 1e3], or the case is in a "
        "raise/either zone, or an array argument has a non-real entry or a dimension >= 3; distinct by spec.")
ASSUMPTIONS = [
    "mpmath at 40 digits is the reference for the textbook definitions; sec, csc, cot, sech, csch, coth are 1/cos ... "
    "1/tanh; log2(z) = ln z / ln 2; arctan2(x, y) = atan2(y, x); ctrans = adj = conjugate transpose; norm = "
    "sqrt(sum |x|^2); cross without conjugation",
    "no input component is -0.0, NaN or infinite; non-zero components have magnitude in [1e-300, 1e300] (scalars) or "
    "[1e-60, 1e60] (array entries); points generated near a cut or a non-zero pole are >= 1e-6 (relative) away",
    "a result (or the function whose reciprocal is the textbook definition, or the squares inside |z| of a complex "
    "number / a norm) outside [1e-290, 1e290] puts the case in the either zone (overflow) or is discarded (underflow "
    "of squares): neither a value nor an overflow error is demanded there",
    "inverse functions: no branch convention is imposed off the classical real domains (identity only); arccot accepts "
    "both the (-pi/2, pi/2] and the (0, pi) convention and, because its textbook form pi/2 - arctan x has an O(1) "
    "intermediate, an absolute error of 1e-9 * pi/2 (soundness rule 2)",
    "real x outside the classical real domain of an inverse function (arcsin(2), arccosh(0.5), arcsec(0.5), "
    "arccoth(0)) may give the complex continuation or a student-facing error; a complex number with zero imaginary "
    "part given to a real-only function (floor, ceil, min, max, arctan2) may be accepted or refused",
    "single-element arrays ([2.5], [[2.5]]) are number-like by the library's documented validator "
    "(specify_domain.number_validator) and are not used as wrong-shape arguments of scalar functions; transpose-like "
    "functions of scalars and of tensors, and norm of tensors, are 'either'",
    "det is computed by LU with partial pivoting: the accepted error is |det(A+E) - det(A)| for |E_ij| <= 1e-11 max|A| "
    "(bounded term by term in the Leibniz sum) plus 1e-9 |det| - a determinant is not required to be accurate relative "
    "to its own size when the entries span many orders of magnitude",
    "the numpy floating-point error state is the one the library sets up when imported in the main thread (it is "
    "context-local; the check re-establishes the captured state in every worker)",
    "factorial/fact are excluded (scipy absent)",
]
REQUIRED = {'norm/entries-whose-squares-leave-the-float-range': 30, 'abs/entries-whose-squares-leave-the-float-range': 5, 
    'zone/must': 5000, 'zone/raise': 3000, 'zone/either': 500,
    'arg/complex': 5000, 'arg/near-pole-or-cut': 2000, 'arg/huge-or-tiny': 2000, 'arg/array': 2000,
    'raise/pole': 100, 'raise/real-only': 100, 'raise/wrong-arity': 1500, 'raise/wrong-shape': 1000,
    'check/forward-value': 3000, 'check/identity': 2000, 'check/principal': 500,
    'either/value': 100, 'either/raised': 100,
    'fn/arctan2': 300, 'fn/kronecker': 300, 'fn/min': 300, 'fn/max': 300, 'fn/det': 300, 'fn/trace': 200,
    'fn/cross': 200, 'fn/norm': 200, 'fn/abs': 300, 'fn/trans': 100, 'fn/ctrans': 100, 'fn/adj': 100,
    'fn/re': 100, 'fn/im': 100, 'fn/conj': 100, 'fn/arccot': 200, 'fn/sqrt': 200, 'fn/ln': 200,
    'array/complex-entries': 500, 'array/literal-syntax': 500, 'table/M': 3000, 'table/F': 3000, 'table/N': 300,
}

TABLES = {'F': FormulaGrader.default_functions, 'N': NumericalGrader.default_functions,
          'M': MatrixGrader.default_functions}
VARS = {'F': FormulaGrader.default_variables, 'N': NumericalGrader.default_variables,
        'M': MatrixGrader.default_variables}
EXCLUDED = ('fact', 'factorial')

EPS = mp.mpf(2) ** -52
BIG = mp.mpf('1e290')
SMALL = mp.mpf('1e-290')
TINY = mp.mpf('1e-300')
HALFPI = mp.pi / 2

# ----------------------------------------------------------------------------------------------------
# spec encoding: real scalar = float ; complex scalar = {'re':..,'im':..} ; array = {'arr': nested lists of scalars}


def enc(x):
    if isinstance(x, complex):
        return {'re': x.real, 'im': x.imag}
    if isinstance(x, (list, tuple)):
        return {'arr': [_enc_leafs(v) for v in x]}
    return float(x)


def _enc_leafs(v):
    if isinstance(v, (list, tuple)):
        return [_enc_leafs(w) for w in v]
    if isinstance(v, complex):
        return {'re': v.real, 'im': v.imag}
    return float(v)


def _dec_leafs(v):
    if isinstance(v, list):
        return [_dec_leafs(w) for w in v]
    if isinstance(v, dict):
        return complex(v['re'], v['im'])
    return float(v)


def dec(a):
    """-> float | complex | np.ndarray (float64 or complex128)"""
    if isinstance(a, dict) and 'arr' in a:
        nested = _dec_leafs(a['arr'])
        arr = np.array(nested)
        if arr.dtype == object:
            raise ValueError('ragged array in spec')
        return arr
    if isinstance(a, dict):
        return complex(a['re'], a['im'])
    return float(a)


def is_arr(x):
    return isinstance(x, np.ndarray)


def is_real(x):
    return isinstance(x, float)


def nonreal(x):
    return isinstance(x, complex) and x.imag != 0


def to_mp(x):
    if isinstance(x, complex):
        return mp.mpc(x.real, x.imag)
    return mp.mpf(x)


def val_to_mp(v):
    c = complex(v)
    if c.imag == 0 and not isinstance(v, (complex, np.complexfloating)):
        return mp.mpf(c.real)
    return mp.mpc(c.real, c.imag)


# ----------------------------------------------------------------------------------------------------
# textbook definitions (mpmath)

RECIP = {'sec': mp.cos, 'csc': mp.sin, 'cot': mp.tan, 'sech': mp.cosh, 'csch': mp.sinh, 'coth': mp.tanh}
FWD = {'sin': mp.sin, 'cos': mp.cos, 'tan': mp.tan, 'sinh': mp.sinh, 'cosh': mp.cosh, 'tanh': mp.tanh,
       'exp': mp.exp, 'sqrt': mp.sqrt, 'ln': mp.log, 'log10': lambda z: mp.log(z) / mp.log(10),
       'log2': lambda z: mp.log(z) / mp.log(2), 'abs': lambda z: abs(z)}


def fwd(name, z):
    if name in RECIP:
        return 1 / RECIP[name](z)
    return FWD[name](z)


def _acot_principal_candidates(x):
    """Accepted real principal values of arccot at real x (mpf)."""
    if x == 0:
        return [HALFPI, -HALFPI]
    a = mp.atan(1 / x)
    return [a, a + mp.pi] if x < 0 else [a]


INV = {
    'arcsin': ('sin', lambda x: -1 <= x <= 1, lambda x: [mp.asin(x)]),
    'arccos': ('cos', lambda x: -1 <= x <= 1, lambda x: [mp.acos(x)]),
    'arctan': ('tan', lambda x: True, lambda x: [mp.atan(x)]),
    'arcsec': ('sec', lambda x: abs(x) >= 1, lambda x: [mp.acos(1 / x)]),
    'arccsc': ('csc', lambda x: abs(x) >= 1, lambda x: [mp.asin(1 / x)]),
    'arccot': ('cot', lambda x: True, _acot_principal_candidates),
    'arcsinh': ('sinh', lambda x: True, lambda x: [mp.asinh(x)]),
    'arccosh': ('cosh', lambda x: x >= 1, lambda x: [mp.acosh(x)]),
    'arctanh': ('tanh', lambda x: -1 < x < 1, lambda x: [mp.atanh(x)]),
    'arcsech': ('sech', lambda x: 0 < x <= 1, lambda x: [mp.acosh(1 / x)]),
    'arccsch': ('csch', lambda x: x != 0, lambda x: [mp.asinh(1 / x)]),
    'arccoth': ('coth', lambda x: abs(x) > 1, lambda x: [mp.atanh(1 / x)]),
}

_ZERO = lambda z: z == 0            # noqa: E731
_PM1 = lambda z: z == 1 or z == -1  # noqa: E731
_PMI = lambda z: z == 1j or z == -1j  # noqa: E731
POLE = {'cot': _ZERO, 'csc': _ZERO, 'coth': _ZERO, 'csch': _ZERO, 'ln': _ZERO, 'log10': _ZERO, 'log2': _ZERO,
        'arcsec': _ZERO, 'arccsc': _ZERO, 'arcsech': _ZERO, 'arccsch': _ZERO,
        'arctanh': _PM1, 'arccoth': _PM1, 'arctan': _PMI, 'arccot': _PMI}

UNARY_SCALAR = sorted(set(FWD) | set(RECIP) | set(INV) | {'floor', 'ceil'})
ELEMENTWISE = ('re', 'im', 'conj')
TRANSPOSE_LIKE = ('trans', 'ctrans', 'adj')
ARITY = {'arctan2': 2, 'kronecker': 2, 'cross': 2, 'min': '2+', 'max': '2+'}


def arity_ok(f, n):
    a = ARITY.get(f, 1)
    return n >= 2 if a == '2+' else n == a


# ----------------------------------------------------------------------------------------------------
# expectation = zone + value checker


class Exp(object):
    def __init__(self, zone, why, check=None, scalar_result=True):
        self.zone, self.why, self.check = zone, why, check
        self.scalar_result = scalar_result   # the value must be 0-dimensional (array shapes are judged by check)


def close(f, clause, val, refs, tol, **extra):
    """val (python/numpy scalar) within tol of one of refs (mp numbers); returns err/tol ratio."""
    v = val_to_mp(val)
    best = min(abs(v - r) for r in refs)
    if not best <= tol:
        raise Violation('%s/%s' % (clause, f), '%s: library value %r, textbook value %s (|diff| %s > tol %s)' % (
            f, val, ' or '.join(mp.nstr(r, 20) for r in refs), mp.nstr(best, 5), mp.nstr(tol, 5)), **extra)
    return float(best / tol) if tol > 0 else 0.0


def cond_term(fn, z):
    """1e3 * |fn(z(1+2^-52)) - fn(z)|: the change of the reference under one rounding of its input."""
    try:
        d = abs(fn(z * (1 + EPS)) - fn(z))
    except (ZeroDivisionError, ValueError, OverflowError):
        raise Discard('reference not computable at the perturbed input')
    if not mp.isfinite(d):
        raise Discard('reference not finite at the perturbed input')
    return 1000 * d


def forward_checker(f, z, rec):
    zm = to_mp(z)
    ref = fwd(f, zm)
    tol = mp.mpf('1e-9') * abs(ref) + cond_term(lambda w: fwd(f, w), zm) + TINY

    def check(val):
        rec.cls('check/forward-value')
        r = close(f, 'value', val, [ref], tol, arg=repr(z))
        if abs(ref) >= SMALL:    # below that the absolute allowance 1e-300 dominates
            rec.maximum('worst err/tol forward', r)
    return ref, check


def identity_checker(f, z, rec, principal):
    """f = inverse function name; the returned y must satisfy forward(y) = z; on the classical real domain also
    y = principal value."""
    fname = INV[f][0]
    zm = to_mp(z)

    def check(val):
        y = val_to_mp(val)
        if f == 'arccot':
            # y-domain: y = acot(z) modulo pi, with the absolute allowance for the O(1) intermediate pi/2
            r = mp.acot(zm) if zm != 0 else HALFPI
            k = mp.nint(mp.re((y - r) / mp.pi))
            tol = mp.mpf('1e-9') * max(abs(y), HALFPI) + cond_term(
                lambda w: (mp.acot(w) if w != 0 else HALFPI), zm) + TINY
            rec.cls('check/identity')
            if not abs(y - r - k * mp.pi) <= tol:
                raise Violation('identity/arccot', 'cot(arccot(z)) != z: z=%r, arccot(z)=%r' % (z, val), arg=repr(z))
        else:
            # f(y) = z, or equivalently 1/f(y) = 1/z (well conditioned where y sits next to a pole of f)
            rec.cls('check/identity')
            formA = _identity_form(lambda w: fwd(fname, w), y, zm)
            formB = _identity_form(lambda w: 1 / fwd(fname, w), y, 1 / zm) if zm != 0 else None
            if not ((formA and formA[0]) or (formB and formB[0])):
                raise Violation('identity/%s' % f, '%s(%s(z)) != z: z=%r, %s(z)=%r; [|diff|, tol] direct %s, reciprocal %s'
                                % (fname, f, z, f, val, _fmt(formA), _fmt(formB)), arg=repr(z))
            rec.maximum('worst err/tol identity', min(float(x[1] / x[2]) for x in (formA, formB) if x and x[0]))
        if principal:
            refs = INV[f][2](zm)
            floor = HALFPI if f == 'arccot' else 0
            tol = mp.mpf('1e-9') * max(max(abs(r) for r in refs), floor) + cond_term(
                lambda w: INV[f][2](w)[0], zm) + TINY
            rec.cls('check/principal')
            r = close(f, 'principal', val, refs, tol, arg=repr(z))
            rec.maximum('worst err/tol principal', r)
    return check


def _identity_form(fn, y, target):
    """(ok, |fn(y) - target|, tol) or None when fn cannot be evaluated at y or next to it."""
    try:
        back = fn(y)
        d = abs(back - target)
        c = 1000 * abs(fn(y * (1 + EPS)) - back)
    except (ZeroDivisionError, ValueError, OverflowError):
        return None
    if not (mp.isfinite(d) and mp.isfinite(c)):
        return None
    tol = mp.mpf('1e-9') * abs(target) + c + TINY
    return d <= tol, d, tol


def _fmt(form):
    return 'n/a' if form is None else '[%s, %s]' % (mp.nstr(form[1], 5), mp.nstr(form[2], 5))


def exact_checker(f, ref, rec):
    def check(val):
        rec.cls('check/exact')
        if not complex(val) == complex(ref):
            raise Violation('value/%s' % f, '%s: library value %r, exact value %r' % (f, val, ref))
    return check


def exp_unary_scalar(table, f, z, rec):
    """f in UNARY_SCALAR, z float or complex."""
    if f in ('floor', 'ceil'):
        if nonreal(z):
            return Exp('raise', 'real-only')
        ref = float(math.floor(z.real) if f == 'floor' else math.ceil(z.real))
        if is_real(z):
            return Exp('must', 'real', exact_checker(f, ref, rec))
        return Exp('either', 'real-only/zero-imag', exact_checker(f, ref, rec))
    if f in POLE and POLE[f](z):
        return Exp('raise', 'pole')
    zm = to_mp(z)
    if f in INV:
        if not nonreal(z):   # a real number, possibly typed as a complex with zero imaginary part
            x = complex(z).real
            if INV[f][1](x):
                return Exp('must', 'real-domain', identity_checker(f, x, rec, True))
            return Exp('either', 'outside-real-domain', identity_checker(f, x, rec, False))
        return Exp('must', 'complex', identity_checker(f, z, rec, False))
    # forward functions
    zone, why = 'must', 'forward'
    if f in RECIP:
        g = abs(RECIP[f](zm))
        if g > BIG or g < SMALL:
            zone, why = 'either', 'overflow'
    # abs of a complex scalar: |z| is representable whenever z is (hypot does not square), in both function
    # tables - no allowance for overflow/underflow of re^2 + im^2 (a seeded change that routed complex scalars
    # through norm(), returning abs(3e-180+4e-180i) = 0.0, was missed while this was in the "either" zone)
    ref, check = forward_checker(f, z, rec)
    if abs(ref) > BIG or 0 < abs(ref) < SMALL:
        zone, why = 'either', 'overflow'
    return Exp(zone, why, check)


def _elementwise_ref(f, x):
    one = {'re': lambda v: complex(v).real, 'im': lambda v: complex(v).imag,
           'conj': lambda v: complex(v).conjugate() if isinstance(v, complex) else v}[f]
    if is_arr(x):
        return np.array([one(v) for v in x.ravel().tolist()]).reshape(x.shape)
    return one(x)


def array_equal_checker(f, ref, rec):
    ref = np.asarray(ref)

    def check(val):
        rec.cls('check/exact')
        v = np.asarray(val)
        if v.shape != ref.shape:
            raise Violation('result-shape/%s' % f, '%s: result of shape %r, expected %r' % (f, v.shape, ref.shape))
        if not np.array_equal(v, ref):
            raise Violation('value/%s' % f, '%s: library value %r, exact value %r' % (f, v.tolist(), ref.tolist()))
    return check


def squares_zone(x):
    """(zone, why) for functions whose textbook definition squares the entries."""
    # The textbook value sqrt(sum |x_k|^2) is an ordinary float whenever it is below ~1.8e308, however large or small the
    # entries are: squaring them is an implementation detail.  (Until finding 19 this function waved huge entries through
    # as 'either' and DISCARDED tiny ones - a narrowing the statement never made.)
    mags = [abs(complex(v)) for v in np.asarray(x).ravel().tolist()]
    top = max(mags) if mags else 0.0
    if top > 0 and top * math.sqrt(sum((m / top) ** 2 for m in mags)) > 1.7e308:
        return 'either', 'overflow'
    if any(m > 1e145 or 0 < m < 1e-145 for m in mags):
        return 'must', 'norm/squares-leave-float-range'
    return 'must', 'norm'


def norm_checker(f, x, rec):
    flat = [to_mp(complex(v)) for v in np.asarray(x).ravel().tolist()]
    ref = mp.sqrt(sum(abs(v) ** 2 for v in flat))
    tol = mp.mpf('1e-9') * ref + TINY

    def check(val):
        rec.cls('check/forward-value')
        close(f, 'value', val, [ref], tol)
    return check


def det_checker(x, rec):
    n = x.shape[0]
    m = [[to_mp(complex(x[i, j])) for j in range(n)] for i in range(n)]
    # LU with partial pivoting computes det(A + E) exactly up to a few ulp, |E_ij| <= ~1.4e-14 max|A| (n <= 4,
    # growth <= 8); delta below leaves a factor ~700.  |det(A+E) - det(A)| <= sum_perm prod(|a|+delta) - prod|a|.
    delta = mp.mpf('1e-11') * max(abs(v) for row in m for v in row)
    ref, bound, pert = mp.mpf(0), mp.mpf(0), mp.mpf(0)
    for perm in itertools.permutations(range(n)):
        sign = 1
        for i in range(n):
            for j in range(i + 1, n):
                if perm[i] > perm[j]:
                    sign = -sign
        p, q = mp.mpf(1), mp.mpf(1)
        for i in range(n):
            p = p * m[i][perm[i]]
            q = q * (abs(m[i][perm[i]]) + delta)
        ref += sign * p
        bound += abs(p)
        pert += q - abs(p)
    tol = mp.mpf('1e-9') * abs(ref) + mp.mpf('1e-12') * bound + pert + TINY

    def check(val):
        rec.cls('check/forward-value')
        close('det', 'value', val, [ref], tol)
    return check


def trace_checker(x, rec):
    d = [to_mp(complex(x[i, i])) for i in range(x.shape[0])]
    ref = sum(d)
    tol = mp.mpf('1e-9') * sum(abs(v) for v in d) + TINY

    def check(val):
        rec.cls('check/forward-value')
        close('trace', 'value', val, [ref], tol)
    return check


def cross_checker(a, b, rec):
    A = [to_mp(complex(v)) for v in a.tolist()]
    B = [to_mp(complex(v)) for v in b.tolist()]
    idx = [(1, 2), (2, 0), (0, 1)]
    refs = [A[i] * B[j] - A[j] * B[i] for i, j in idx]
    tols = [mp.mpf('1e-9') * (abs(A[i] * B[j]) + abs(A[j] * B[i])) + TINY for i, j in idx]

    def check(val):
        rec.cls('check/forward-value')
        v = np.asarray(val)
        if v.shape != (3,):
            raise Violation('result-shape/cross', 'cross: result of shape %r' % (v.shape,))
        for k in range(3):
            close('cross', 'value', v[k], [refs[k]], tols[k], component=k)
    return check


def size_ge2_array(x):
    return is_arr(x) and x.size >= 2


def expectation(table, f, args, rec):
    """The contract for evaluating f(*args) with the given table."""
    n = len(args)
    if not arity_ok(f, n):
        return Exp('raise', 'wrong-arity')
    scalar_abs = (f == 'abs' and table != 'M')
    # ---- functions of scalars only
    if (f in UNARY_SCALAR and f != 'abs') or scalar_abs or f in ('arctan2', 'kronecker', 'min', 'max'):
        if any(size_ge2_array(a) for a in args):
            return Exp('raise', 'wrong-shape')
        if any(is_arr(a) for a in args):
            raise Discard('single-element array given to a scalar function (number-like by the library\'s validator)')
        if n == 1:
            return exp_unary_scalar(table, f, args[0], rec)
        if f == 'kronecker':
            return Exp('must', 'kronecker', exact_checker(f, 1 if args[0] == args[1] else 0, rec))
        # real-only: arctan2, min, max
        if any(nonreal(a) for a in args):
            return Exp('raise', 'real-only')
        zone, why = ('must', 'real') if all(is_real(a) for a in args) else ('either', 'real-only/zero-imag')
        reals = [complex(a).real for a in args]
        if f in ('min', 'max'):
            return Exp(zone, why, exact_checker(f, min(reals) if f == 'min' else max(reals), rec))
        x, y = reals
        if x == 0 and y == 0:
            return Exp('raise', 'pole')
        ref = mp.atan2(mp.mpf(y), mp.mpf(x))
        tol = mp.mpf('1e-9') * abs(ref) + TINY

        def check(val):
            rec.cls('check/forward-value')
            close('arctan2', 'value', val, [ref], tol, args=[x, y])
        return Exp(zone, why, check)
    x = args[0]
    # ---- element-wise functions of anything
    if f in ELEMENTWISE:
        ref = _elementwise_ref(f, x)
        if is_arr(x):
            return Exp('must', 'elementwise', array_equal_checker(f, ref, rec), scalar_result=False)
        return Exp('must', 'elementwise', exact_checker(f, ref, rec))
    if f == 'abs':   # MatrixGrader: scalar or vector
        if is_arr(x) and x.ndim >= 2:
            return Exp('raise', 'wrong-shape')
        if not is_arr(x):
            return exp_unary_scalar(table, f, x, rec)
        zone, why = squares_zone(x)
        return Exp(zone, why, norm_checker(f, x, rec))
    if f == 'norm':
        zone, why = squares_zone(x)
        if is_arr(x) and x.ndim >= 3:
            zone, why = 'either', 'tensor'
        return Exp(zone, why, norm_checker(f, x, rec))
    if f in TRANSPOSE_LIKE:
        if not is_arr(x):
            ref = x if f == 'trans' else _elementwise_ref('conj', x)
            return Exp('either', 'scalar-transpose', exact_checker(f, ref, rec))
        if x.ndim >= 3:
            return Exp('either', 'tensor', None, scalar_result=False)
        ref = np.transpose(x) if f == 'trans' else np.conj(np.transpose(x))
        # independent of numpy's transpose: build by index
        if x.ndim == 2:
            rows = [[(x[i, j] if f == 'trans' else np.conj(x[i, j])) for i in range(x.shape[0])]
                    for j in range(x.shape[1])]
            ref = np.array(rows)
        return Exp('must', 'transpose', array_equal_checker(f, ref, rec), scalar_result=False)
    if f in ('det', 'trace'):
        if not (is_arr(x) and x.ndim == 2 and x.shape[0] == x.shape[1]):
            return Exp('raise', 'wrong-shape')
        return Exp('must', f, det_checker(x, rec) if f == 'det' else trace_checker(x, rec))
    if f == 'cross':
        a, b = args
        if not all(is_arr(v) and v.shape == (3,) for v in (a, b)):
            return Exp('raise', 'wrong-shape')
        return Exp('must', 'cross', cross_checker(a, b, rec), scalar_result=False)
    raise AssertionError('no oracle for function %r' % f)


# ----------------------------------------------------------------------------------------------------
# running the library


def build_call(f, args, literal):
    """-> (expression, variables)"""
    variables = {}
    parts = []
    k = 0
    for a in args:
        if is_arr(a) and literal:
            def lit(v):
                nonlocal k
                if isinstance(v, list):
                    return '[' + ','.join(lit(w) for w in v) + ']'
                name = 'p%d' % k
                k += 1
                variables[name] = v
                return name
            parts.append(lit(a.tolist()))
        else:
            name = 'p%d' % k
            k += 1
            variables[name] = MathArray(a) if is_arr(a) else a
            parts.append(name)
    return '%s(%s)' % (f, ','.join(parts)), variables


def run_library(expr, variables, table):
    scope = dict(VARS[table])
    scope.update(variables)
    with warnings.catch_warnings(record=True) as caught:
        warnings.simplefilter('ignore')
        warnings.simplefilter('always', RuntimeWarning)
        status, val = call(evaluator, expr, scope, TABLES[table], {})
    if status == 'ok':
        val = val[0]
    rw = [w for w in caught if issubclass(w.category, RuntimeWarning)]
    return status, val, rw


CENTRES = [0, 1, -1, 1j, -1j] + [k * math.pi / 2 for k in range(-4, 5) if k] + \
          [1j * k * math.pi / 2 for k in (-2, -1, 1, 2)]


def scalar_features(z, rec):
    """classes + non-triviality of a scalar argument (DESIGN: non-real, near pole/cut, extreme magnitude)."""
    nt = False
    c = complex(z)
    if nonreal(z):
        rec.cls('arg/complex')
        nt = True
    elif isinstance(z, complex):
        rec.cls('arg/complex-zero-imag')
        nt = True
    m = abs(c)
    near = any(abs(c - ctr) <= 1e-3 * max(1.0, abs(ctr)) for ctr in CENTRES)
    if nonreal(z) and (abs(c.imag) <= 1e-3 * m or abs(c.real) <= 1e-3 * m):
        near = True
    if near:
        rec.cls('arg/near-pole-or-cut')
        nt = True
    if m != 0 and not (1e-3 <= m <= 1e3):
        rec.cls('arg/huge-or-tiny')
        nt = True
    return nt


def judge(spec, rec):
    mp.mp.dps = 40
    _library_numpy_state()
    table, f = spec['t'], spec['f']
    args = [dec(a) for a in spec['args']]
    literal = bool(spec.get('lit'))
    rec.cls('table/' + table)
    rec.cls('fn/' + f)
    nt = False
    for a in args:
        if is_arr(a):
            rec.cls('arg/array')
            if np.iscomplexobj(a) and np.any(np.imag(a) != 0):
                rec.cls('array/complex-entries')
                nt = True
            if a.ndim >= 3 or max(a.shape) >= 3:
                nt = True
            if literal:
                rec.cls('array/literal-syntax')
        else:
            nt = scalar_features(a, rec) or nt
    exp = expectation(table, f, args, rec)
    expr, variables = build_call(f, args, literal)
    status, val, rw = run_library(expr, variables, table)
    rec.calls()
    obs = {'expr': expr, 'zone': exp.zone, 'why': exp.why}
    rec.cls('zone/' + exp.zone)
    if exp.zone != 'must':
        nt = True
    if exp.zone == 'raise':
        rec.cls('raise/' + exp.why)
    if exp.why == 'norm/squares-leave-float-range':
        rec.cls('%s/entries-whose-squares-leave-the-float-range' % f)
        nt = True
    rec.nontrivial(nt)
    ctx = {'expr': expr, 'table': table}
    # --- clauses that hold in every zone
    if rw:
        raise Violation('runtime-warning/%s' % f, '%s emitted a numpy RuntimeWarning: %s' % (expr, rw[0].message), **ctx)
    if status == 'err':
        if not isinstance(val, StudentFacingError):
            raise Violation('foreign-exception/%s/%s' % (type(val).__name__, f),
                            '%s raised %s: %s' % (expr, type(val).__name__, str(val)[:200]), **ctx)
        obs['raised'] = type(val).__name__
        if exp.zone == 'must':
            key = 'raised-in-domain/%s' % f
            if _matrix_abs_extreme(table, f, args):
                key = 'abs-matrixgrader/real-scalar-squared-internally'
            raise Violation(key, '%s is in the domain (%s) but raised %s: %s' % (
                expr, exp.why, type(val).__name__, str(val)[:160]), args=spec['args'], **ctx)
        if exp.zone == 'either':
            rec.cls('either/raised')
        return obs
    # --- a value was returned
    try:
        arr = np.asarray(val)
        numeric = arr.dtype.kind in 'iufcb'
    except Exception:  # noqa: BLE001
        numeric = False
    if not numeric:
        raise Violation('non-numeric-result/%s' % f, '%s returned %r' % (expr, val), **ctx)
    if np.any(np.isnan(arr)) or np.any(np.isinf(arr)):
        raise Violation('nan-or-inf/%s' % f, '%s returned %r instead of raising' % (expr, val), **ctx)
    obs['value'] = val
    if exp.zone == 'raise':
        raise Violation('no-error/%s/%s' % (exp.why, f), '%s must raise a student-facing error (%s) but returned %r' % (
            expr, exp.why, arr.tolist()), args=spec['args'], **ctx)
    if exp.scalar_result and arr.ndim != 0:
        raise Violation('result-shape/%s' % f, '%s returned an array of shape %r, expected a scalar' % (
            expr, arr.shape), **ctx)
    if exp.check is not None:
        try:
            exp.check(val)
        except Violation as v:
            if _matrix_abs_extreme(table, f, args):
                raise Violation('abs-matrixgrader/real-scalar-squared-internally', v.msg, args=spec['args'], **ctx)
            v.extra.update(ctx)
            raise
    if exp.zone == 'either':
        rec.cls('either/value')
    return obs


def _matrix_abs_extreme(table, f, args):
    """MatrixGrader's abs of a real scalar whose square leaves the double range (root cause: abs -> np.linalg.norm)."""
    return (table == 'M' and f == 'abs' and len(args) == 1 and is_real(args[0]) and args[0] != 0
            and not (1e-150 <= abs(args[0]) <= 1e150))


# ----------------------------------------------------------------------------------------------------
# exhaustive parts


def judge_constant(spec, rec):
    table, name = spec['t'], spec['name']
    _library_numpy_state()
    status, val, rw = run_library(name, {}, table)
    rec.calls()
    rec.cls('constant/' + name)
    if rw or status == 'err':
        raise Violation('constant/%s' % name, 'evaluating %r failed: %r %r' % (name, val, rw))
    ref = {'i': mp.mpc(0, 1), 'j': mp.mpc(0, 1), 'e': mp.e, 'pi': mp.pi}[name]
    if np.ndim(val) != 0 or not abs(val_to_mp(val) - ref) <= abs(ref) * mp.mpf(2) ** -53:
        raise Violation('constant/%s' % name, 'constant %s = %r is not the double nearest to %s' % (
            name, val, mp.nstr(ref, 20)))
    return {'name': name, 'value': val}


def items_constants(tier):
    for t in ('F', 'N', 'M'):
        for name in ('i', 'j', 'e', 'pi'):
            yield {'t': t, 'name': name}


PI = math.pi
GRID_REAL_POS = [1e-300, 1e-200, 1e-100, 1e-30, 1e-12, 1e-6, 1e-3, 0.1, 0.5, 1 - 1e-6, 1.0, 1 + 1e-6, 1.5, 2.0, 2.5,
                 3.0, 7.0, 10.0, 30.5, 700.0, 710.0, 745.0, 1e3, 1e6, 1e12, 1e30, 1e100, 1e200, 1e300,
                 PI / 2, PI / 2 * (1 - 1e-6), PI / 2 * (1 + 1e-6), PI, PI * (1 + 1e-6), 3 * PI / 2, 2 * PI, PI / 4]
GRID_REAL = [0.0] + GRID_REAL_POS + [-x for x in GRID_REAL_POS]
_RE = [0.0, 1e-6, -1e-6, 0.5, -0.5, 1.0, -1.0, 2.0, -2.0, 30.0, -30.0]
_IM = [1e-6, -1e-6, 0.5, -0.5, 1.0, -1.0, 2.0, -2.0, 30.0, -30.0]
GRID_COMPLEX = [complex(a, b) for a in _RE for b in _IM] + \
    [complex(a, 0.0) for a in (-2.0, -1.0, -0.5, 0.0, 0.5, 1.0, 2.0)] + \
    [complex(s1 * a, s2 * b) for a, b in ((1e300, 1e300), (1e-300, 1e-300), (1e150, 1e-150), (1e-150, 1e150),
                                          (1e10, 1e-10), (1e-10, 1e10), (720.0, 1.0), (1.0, 720.0), (0.0, 1e300),
                                          (0.0, 1e-300), (0.0, 1 + 1e-6), (0.0, 1 - 1e-6), (1e-6, 1.0),
                                          (0.0, PI / 2), (1e-6, PI / 2), (0.0, PI), (1.0, PI))
     for s1 in (1, -1) for s2 in (1, -1) if not (a == 0.0 and s1 == -1)]


def items_grid(tier):
    for f in UNARY_SCALAR + list(ELEMENTWISE):
        for idx, z in enumerate(GRID_REAL + GRID_COMPLEX):
            yield {'t': 'F', 'f': f, 'args': [enc(z)]}
            yield {'t': 'M', 'f': f, 'args': [enc(z)]}
            if idx % 4 == 0:
                yield {'t': 'N', 'f': f, 'args': [enc(z)]}
    for f in ('norm',) + TRANSPOSE_LIKE:
        for z in GRID_REAL + GRID_COMPLEX:
            yield {'t': 'M', 'f': f, 'args': [enc(z)]}


def table_names(t):
    return sorted(k for k in TABLES[t] if k not in EXCLUDED)


KIND_VALUES = {
    's': [1.3, 0.4, 2.25, -0.7],
    'c': [0.7 + 0.2j, -0.3 + 1.1j, 1.5 - 0.5j, 0.2 + 0.9j],
    'v3': [[1.0, -2.0, 3.5], [0.5, 4.0, -1.0], [2.0, 2.0, 1.0], [-1.0, 0.25, 3.0]],
    'm22': [[[1.0, 2.0], [3.0, 5.0]], [[0.5, -1.0], [2.0, 4.0]], [[2.0, 0.0], [1.0, 1.0]], [[1.0, 1.0], [1.0, 3.0]]],
}


def items_arity(tier):
    for t in ('F', 'M'):
        for f in table_names(t):
            for n in (1, 2, 3):
                for kinds in itertools.product(('s', 'c', 'v3', 'm22'), repeat=n):
                    yield {'t': t, 'f': f, 'args': [enc(KIND_VALUES[k][i]) for i, k in enumerate(kinds)],
                           'lit': (n + len(f)) % 2 == 0}
            for n in (4, 5):
                yield {'t': t, 'f': f, 'args': [enc(KIND_VALUES['s'][i % 4] + i) for i in range(n)]}


SHAPES = {
    's': 1.3, 'sneg': -2.5, 'c': 0.7 + 0.2j,
    'v2': [1.0, 2.0], 'v3': [1.0, -2.0, 3.5], 'cv3': [1 + 1j, 2.0, 3 - 2j], 'v4': [1.0, 0.5, -1.0, 2.0],
    'v5': [1.0, 2.0, 3.0, 4.0, 5.0],
    'm22': [[1.0, 2.0], [3.0, 5.0]], 'cm22': [[1 + 1j, 2.0], [3.0, 5 - 1j]], 'sing22': [[1.0, 2.0], [2.0, 4.0]],
    'm23': [[1.0, 2.0, 3.0], [4.0, 5.0, 6.0]], 'm32': [[1.0, 2.0], [3.0, 4.0], [5.0, 6.0]],
    'm13': [[1.0, 2.0, 3.0]], 'm31': [[1.0], [2.0], [3.0]],
    'm33': [[1.0, 2.0, 3.0], [4.0, 5.0, 6.0], [7.0, 8.0, 10.0]],
    'cm33': [[1j, 2.0, 3.0], [4.0, 5 + 2j, 6.0], [7.0, 8.0, 10 - 1j]],
    'm44': [[2.0, 0.0, 1.0, 3.0], [1.0, 1.0, 0.0, -1.0], [0.5, 2.0, 2.0, 1.0], [3.0, 1.0, -2.0, 0.0]],
    't222': [[[1.0, 2.0], [3.0, 4.0]], [[5.0, 6.0], [7.0, 9.0]]],
    't322': [[[1.0, 2.0], [3.0, 4.0]], [[5.0, 6.0], [7.0, 9.0]], [[1.0, 0.0], [0.0, 1.0]]],
    't233': [[[1.0, 2.0, 3.0], [4.0, 5.0, 6.0], [7.0, 8.0, 10.0]], [[1.0, 0.0, 0.0], [0.0, 2.0, 0.0], [0.0, 0.0, 3.0]]],
    'ct222': [[[1j, 2.0], [3.0, 4.0]], [[5.0, 6.0], [7.0, 9 + 1j]]],
}
PAIR_SHAPES = ('s', 'c', 'v2', 'v3', 'cv3', 'v4', 'm22', 'm33', 'm23', 'm13', 'm31', 't222')


def items_shapes(tier):
    for t in ('F', 'M'):
        for f in table_names(t):
            if arity_ok(f, 1):
                for k in sorted(SHAPES):
                    for lit in (False, True):
                        yield {'t': t, 'f': f, 'args': [enc(SHAPES[k])], 'lit': lit}
            if arity_ok(f, 2):
                for k1 in PAIR_SHAPES:
                    for k2 in PAIR_SHAPES:
                        yield {'t': t, 'f': f, 'args': [enc(SHAPES[k1]), enc(SHAPES[k2])],
                               'lit': (len(k1) + len(k2)) % 2 == 0}
            if arity_ok(f, 3):
                for k1, k2, k3 in itertools.product(('s', 'v3', 'm22'), repeat=3):
                    yield {'t': t, 'f': f, 'args': [enc(SHAPES[k1]), enc(SHAPES[k2]), enc(SHAPES[k3])], 'lit': False}


# ----------------------------------------------------------------------------------------------------
# random parts (Hypothesis)

SIGN = st.sampled_from([1.0, -1.0])
MANT = st.floats(1.0, 9.999, allow_nan=False)


def _plus0(x):
    return x + 0.0     # -0.0 -> 0.0


def logmag(lo, hi):
    """sign * m * 10**e with e in [lo, hi): log-uniform magnitudes."""
    return st.builds(lambda s, m, e: s * m * 10.0 ** e, SIGN, MANT, st.integers(lo, hi - 1))


REAL_CENTRES = [1.0, -1.0, 0.5, 2.0, PI / 2, -PI / 2, PI, -PI, 3 * PI / 2, 2 * PI, PI / 4, 3.0, -3.0, 10.0]
COMPLEX_CENTRES = [1j, -1j, 1 + 0j, -1 + 0j, 1j * PI / 2, -1j * PI / 2, 1j * PI, 0.5 + 0j, 2j, -2j, 2 + 0j, -2 + 0j]
OFFSET = st.builds(lambda s, m, k: s * m * 10.0 ** -k, SIGN, MANT, st.integers(2, 7))   # 1e-6 <= |.| < 1e-1


def reals():
    return st.one_of(
        st.floats(-6, 6, allow_nan=False),
        st.floats(-40, 40, allow_nan=False),
        logmag(-300, 300),
        logmag(-8, 4),
        st.sampled_from([0.0, 1.0, -1.0, 0.5, -0.5, 2.0, -2.0, PI / 2, PI, -PI / 2, 1e-300, 1e300, -1e300]),
        st.builds(lambda c, d: c * (1 + d), st.sampled_from(REAL_CENTRES), OFFSET),
        OFFSET,
        st.builds(lambda n, h: n + h, st.integers(-60, 60), st.sampled_from([0.0, 0.5, 0.25, -0.5])).map(float),
        st.builds(lambda s, x: s * x, SIGN, st.floats(690, 760, allow_nan=False)),
    ).map(_plus0).filter(lambda x: x == 0 or 1e-300 <= abs(x) <= 1e300)


def nonzero(s):
    return s.filter(lambda x: x != 0)


def complexes():
    mod = st.floats(-4, 4, allow_nan=False)
    return st.one_of(
        st.builds(complex, mod, nonzero(mod)),
        st.builds(complex, logmag(-8, 3), logmag(-8, 3)),
        st.builds(complex, logmag(-300, 300), logmag(-300, 300)),
        st.builds(lambda m, e, a, b: complex(m * 10.0 ** e * a, m * 10.0 ** e * b), MANT, st.integers(-299, 298),
                  nonzero(st.floats(-1, 1, allow_nan=False)), nonzero(st.floats(-1, 1, allow_nan=False))),
        st.builds(complex, st.one_of(st.floats(-40, 40, allow_nan=False), logmag(-3, 3)), OFFSET),   # near real axis
        st.builds(complex, OFFSET, st.one_of(st.floats(-40, 40, allow_nan=False), logmag(-3, 3))),   # near imag axis
        st.builds(lambda y: complex(0.0, y), nonzero(st.one_of(st.floats(-6, 6, allow_nan=False), logmag(-8, 3)))),
        st.builds(lambda c, dx, dy: c + complex(dx, dy) * max(1.0, abs(c)), st.sampled_from(COMPLEX_CENTRES),
                  OFFSET, OFFSET),
        st.builds(complex, st.floats(-3, 3, allow_nan=False), st.builds(lambda s, x: s * x, SIGN,
                                                                        st.floats(690, 760, allow_nan=False))),
        st.builds(complex, st.builds(lambda s, x: s * x, SIGN, st.floats(690, 760, allow_nan=False)),
                  nonzero(st.floats(-3, 3, allow_nan=False))),
        st.sampled_from([1j, -1j, 0j, 1 + 0j, -1 + 0j, 2 + 0j, -2 + 0j, 0.5 + 0j, -0.5 + 0j]),
        st.builds(lambda x: complex(x, 0.0), st.floats(-6, 6, allow_nan=False)),
    ).map(lambda z: complex(_plus0(z.real), _plus0(z.imag))).filter(_in_range)


def _in_range(z):
    return all(c == 0 or 1e-300 <= abs(c) <= 1e300 for c in (z.real, z.imag))


def scalars():
    return st.one_of(reals(), complexes())


TABLE = st.sampled_from(['F', 'F', 'M', 'M', 'N'])


def strat_unary(tier):
    names = UNARY_SCALAR + list(ELEMENTWISE)
    return st.builds(lambda t, f, z: {'t': t, 'f': f, 'args': [enc(z)]}, TABLE, st.sampled_from(names), scalars())


def strat_multi(tier):
    small_int = st.integers(-4, 4).map(float)
    real2 = st.one_of(reals(), small_int, st.sampled_from([0.0, 0.0, 1.0, -1.0]))
    pair_real = st.one_of(
        st.tuples(real2, real2),
        real2.map(lambda x: (x, x)),
        st.tuples(st.just(0.0), real2), st.tuples(real2, st.just(0.0)), st.just((0.0, 0.0)),
        st.tuples(logmag(-300, 300), logmag(-300, 300)))
    any2 = st.one_of(real2, real2, complexes(), small_int.map(lambda x: complex(x, 0.0)))
    pair_any = st.one_of(st.tuples(any2, any2), any2.map(lambda x: (x, x)),
                         real2.map(lambda x: (x, complex(x, 0.0))))
    arctan2 = st.one_of(pair_real, pair_real, pair_real, pair_any).map(lambda p: ('arctan2', list(p)))
    kron = st.one_of(pair_real, pair_any, st.tuples(small_int, small_int)).map(lambda p: ('kronecker', list(p)))
    many_real = st.lists(st.one_of(real2, small_int), min_size=2, max_size=6)
    many_any = st.lists(any2, min_size=2, max_size=5)
    mm = st.tuples(st.sampled_from(['min', 'max']), st.one_of(many_real, many_real, many_real, many_any))
    return st.builds(lambda t, fa: {'t': t, 'f': fa[0], 'args': [enc(a) for a in fa[1]]}, TABLE,
                     st.one_of(arctan2, kron, mm))


def entries(cplx):
    re = st.one_of(st.integers(-3, 3).map(float), st.integers(-3, 3).map(float), st.floats(-10, 10, allow_nan=False),
                   logmag(-3, 3)).map(_plus0).filter(lambda x: x == 0 or 1e-60 <= abs(x) <= 1e60)
    if not cplx:
        return re
    return st.one_of(re, st.builds(complex, re, re))


def arrays_of(entry, shape):
    def build(sh):
        if len(sh) == 1:
            return st.lists(entry, min_size=sh[0], max_size=sh[0])
        return st.lists(build(sh[1:]), min_size=sh[0], max_size=sh[0])
    return build(shape)


def wide_entries(cplx):
    re = logmag(-60, 60)
    return st.one_of(re, st.builds(complex, re, re)) if cplx else re


ENTRY = st.one_of(st.just(entries(False)), st.just(entries(False)), st.just(entries(True)), st.just(entries(True)),
                  st.just(wide_entries(False)), st.just(wide_entries(True)))
SQUARE = st.integers(1, 4).map(lambda n: (n, n))
VECTOR = st.integers(1, 5).map(lambda n: (n,))
MATRIX = st.tuples(st.integers(1, 4), st.integers(1, 4))
TENSOR = st.sampled_from([(2, 2, 2), (2, 3, 3), (3, 2, 2), (2, 1, 2), (2, 2, 2, 2)])


def strat_array(tier):
    def arr(shape_strat):
        return st.tuples(ENTRY, shape_strat).flatmap(lambda es: arrays_of(es[0], es[1]))

    def unary(names, shape_strat):
        return st.tuples(st.sampled_from(names), arr(shape_strat).map(lambda a: [a]))

    any_shape = st.one_of(VECTOR, MATRIX, MATRIX, SQUARE, TENSOR)
    cases = st.one_of(
        unary(['det', 'trace'], SQUARE), unary(['det', 'trace'], SQUARE), unary(['det'], st.just((4, 4))),
        unary(['det', 'trace'], any_shape),
        unary(['norm', 'abs'], any_shape), unary(['norm', 'abs'], VECTOR),
        # entries across the whole float range (their squares are not floats; the norm is)
        st.tuples(st.sampled_from(['norm', 'abs', 'abs']),
                  st.tuples(st.sampled_from([logmag(-300, 300), st.builds(complex, logmag(-300, 300), logmag(-300, 300)),
                                             st.one_of(logmag(150, 300), logmag(-300, -150), st.just(0.0))]),
                            st.one_of(VECTOR, VECTOR, VECTOR, MATRIX)).flatmap(lambda es: arrays_of(es[0], es[1])).map(lambda a: [a])),
        unary(list(TRANSPOSE_LIKE), st.one_of(MATRIX, MATRIX, VECTOR, TENSOR)),
        unary(list(ELEMENTWISE), any_shape),
        st.tuples(st.just('cross'), st.tuples(arr(st.just((3,))), arr(st.just((3,)))).map(list)),
        st.tuples(st.just('cross'), st.tuples(arr(st.just((3,))), arr(st.just((3,)))).map(list)),
        st.tuples(st.just('cross'), st.tuples(arr(st.one_of(VECTOR, MATRIX)), arr(VECTOR)).map(list)),
        unary(['sin', 'sqrt', 'exp', 'arctan', 'floor', 'ln', 'abs'], any_shape),
    )

    def spec(fa, lit, t):
        f, args = fa
        if t == 'F' and f not in TABLES['F']:
            t = 'M'
        return {'t': t, 'f': f, 'args': [enc(a) for a in args], 'lit': lit}
    return st.builds(spec, cases, st.booleans(), st.sampled_from(['M', 'M', 'M', 'F']))


PARTS = [
    Part('constants', 'enum', judge_constant, items=items_constants, exhaustive=True),
    Part('grid', 'enum', judge, items=items_grid, exhaustive=True),
    Part('arity', 'enum', judge, items=items_arity, exhaustive=True),
    Part('shapes', 'enum', judge, items=items_shapes, exhaustive=True),
    Part('unary', 'hyp', judge, strategy=strat_unary, budget={'quick': 12000, 'thorough': 360000}),
    Part('multi', 'hyp', judge, strategy=strat_multi, budget={'quick': 4000, 'thorough': 120000}),
    Part('array', 'hyp', judge, strategy=strat_array, budget={'quick': 4000, 'thorough': 120000}),
]


# ----------------------------------------------------------------------------------------------------------------
# 'history': the outcome of evaluating f(args) must not depend on which call (possibly a failing one) was evaluated
# before it in the same process.  Added after a seeded change whose csch() switched numpy's overflow/invalid handling
# off and only restored it on success: after csch(0) had (correctly) raised, arccosh(0.5) returned nan.  Every
# ordered pair of the calls below runs in a forked child; the reference is the second call alone in a pristine child.

from vlib.isolate import run_in_fork  # noqa: E402

HISTORY_CALLS = ['csch(0)', 'csch([2])', 'cot(0)', 'ln(0)', 'log10(0)', 'exp(1000)', 'sinh(1000)', 'sech(1000)',
                 'csch(1000)', 'arccosh(0.5)', 'arcsec(0.5)', 'arccsc(0.5)', 'arccoth(0.5)', 'arcsech(2)',
                 'arcsin(2)', 'sqrt(-4)', 'tan(pi/2)', 'coth(0)', 'arctan2(0,0)', 'sec(0)', 'abs(-3)', 'sin(1)',
                 'det([[1,2],[2,4]])', 'norm([1e200,1e200])', 'arctanh(1)', 'arccot(0)', 'floor(1e300)', '1/sin(0)',
                 # the same text evaluated with another function table (expr@table): the Formula/Numerical table (np.abs:
                 # a vector is a shape error there), and a table in which an author has replaced default functions
                 # (degrees-mode sin, a constant sqrt) - a seeded change cached constant expressions by their text alone
                 'abs([3,4])', 'abs([3,4])@formula', 'abs(-3)@formula', 'sin(30)@override', 'sin(30)@formula', 'sin(30)',
                 'sin(1)@override', 'sqrt(4)@override', 'sqrt(4)@formula', 'sqrt(4)', 'norm([3,4])', 'exp(2)@override',
                 'exp(2)@formula', 'cos(0)+sin(30)@override', 'cos(0)+sin(30)@formula']


def _history_eval(expr):
    from mitxgraders import MatrixGrader
    from mitxgraders.helpers.calc import evaluator as _ev
    from mitxgraders import FormulaGrader
    expr, _, table = expr.partition('@')
    funcs = MatrixGrader.default_functions
    if table == 'formula':
        funcs = FormulaGrader.default_functions
    elif table == 'override':
        funcs = dict(FormulaGrader.default_functions, sin=lambda x: math.sin(math.radians(x)), sqrt=lambda x: 7.25,
                     exp=lambda x: x + 1000.0)
    try:
        v = _ev(expr, {'pi': math.pi, 'e': math.e, 'i': 1j}, funcs, {}, max_array_dim=2)[0]
        return ('ok', repr(np.asarray(v).tolist()))
    except MITxError as e_:
        return ('exc', type(e_).__name__, str(e_)[:160])
    except Exception as e_:  # noqa: BLE001
        return ('foreign', type(e_).__name__, str(e_)[:160])


_HISTORY_REF = {}


def items_history(tier):
    n = len(HISTORY_CALLS)
    for a in range(n):
        for b in range(n):
            yield {'first': a, 'then': b}


def judge_history(spec, rec):
    a, b = HISTORY_CALLS[spec['first']], HISTORY_CALLS[spec['then']]
    if b not in _HISTORY_REF:
        _HISTORY_REF[b] = run_in_fork(lambda: _history_eval(b))
    ref = _HISTORY_REF[b]
    got = run_in_fork(lambda: (_history_eval(a), _history_eval(b))[1])
    rec.calls(2)
    rec.cls('history/pair')
    rec.nontrivial(a != b)
    if got != ref:
        raise Violation('history/outcome-depends-on-earlier-call', 'evaluating %r gives %r after %r was evaluated, '
                        'but %r when evaluated first in a fresh process' % (b, got, a, ref))
    if ref[0] == 'ok' and 'nan' in ref[1]:
        raise Violation('history/nan', '%r evaluates to nan' % b)
    return {'first': a, 'then': b, 'outcome': ref[0]}


PARTS.append(Part('history', 'enum', judge_history, items=items_history, exhaustive=True))
REQUIRED['history/pair'] = 500
