#!/venv/bin/python
"""Prints a markdown table of every check's parts (kind, budgets) and the latest evidence counts."""
import glob, importlib, json, os, sys
HERE = os.path.dirname(os.path.dirname(os.path.abspath(__file__)))
sys.path[:0] = ['/repo', HERE]
sys.path.append(os.path.join(HERE, '.deps'))
import warnings; warnings.filterwarnings('ignore')
print('| property | module | parts (kind: quick / thorough budget; enum = exhaustive) | last quick run: cases / distinct non-trivial / wall |')
print('|---|---|---|---|')
for f in sorted(glob.glob(os.path.join(HERE, 'checks', 'c[0-9][0-9]_*.py'))):
    name = os.path.basename(f)[:-3]
    pid = name[:3].upper()
    m = importlib.import_module('checks.' + name)
    parts = []
    for p in m.PARTS:
        if p.kind == 'enum':
            parts.append('%s (enum)' % p.name)
        else:
            parts.append('%s (hyp: %s / %s)' % (p.name, p.budget.get('quick'), p.budget.get('thorough')))
    ev = {}
    try:
        ev = json.load(open(os.path.join(HERE, 'evidence', pid + '.json')))
    except Exception:
        pass
    c = ev.get('coverage', {})
    print('| %s | `checks/%s.py` | %s | %s / %s / %s s (%s) |' % (pid, name, '; '.join(parts), c.get('evaluations'), c.get('distinct_nontrivial'), ev.get('wall_s'), ev.get('tier')))
