"""Rival objects: a second object of the same class, with far-away options, built and used between the construction of
the object under test and its use.

A problem page usually holds several graders of one class (and an author reuses helper objects), so what one grader
declares must not depend on a sibling built later: "construct A, construct B, call A" is ordinary use, but a harness that
builds, uses and drops one object at a time never produces it.  Two seeded changes (a class-level dictionary filled by
__init__, a comparer caching the first caller's tolerance) lived exactly there.  `after_build(obj)` is called by the
checks' builder functions right after they construct a grader; it is a no-op for classes without a rival.

On a correct tree a rival changes nothing (graders keep their configuration per instance); its tokens ('rival', 'rq',
'rv1' ...) occur in no generated case, so anything of it that shows up in a judged result is a visible oracle failure.
"""

_MAKERS = None


def _makers():
    import mitxgraders as mg

    def rf(x):
        return x + 17.0

    return {
        'StringGrader': lambda: (mg.StringGrader(answers='rival', case_sensitive=False, strip_all=True,
                                                 validation_pattern='[a-z ]+', explain_validation='msg',
                                                 wrong_msg='rival-wrong'), [(None, 'RIV al'), (None, 'x9')]),
        'FormulaGrader': lambda: (mg.FormulaGrader(answers='rq*2', variables=['rq'], tolerance='50%', samples=2,
                                                   failable_evals=1, metric_suffixes=True, user_functions={'rf': rf},
                                                   user_constants={'rc': 5.0}, blacklist=['cos'], allow_inf=True,
                                                   wrong_msg='rival-wrong'), [(None, '2*rq'), (None, 'rq+1k')]),
        'NumericalGrader': lambda: (mg.NumericalGrader(answers='1000', tolerance='50%', metric_suffixes=True, allow_inf=True,
                                                       user_functions={'rf': rf}, wrong_msg='rival-wrong'),
                                    [(None, '1k'), (None, '3')]),
        'MatrixGrader': lambda: (mg.MatrixGrader(answers='[1,2]', tolerance=0.5, negative_powers=False,
                                                 entry_partial_credit='proportional', max_array_dim=2,
                                                 answer_shape_mismatch={'is_raised': False, 'msg_detail': 'shape'}),
                                 [(None, '[1,2.2]'), (None, '[1,2,3]'), (None, '[[1,2],[3,4]]^-1')]),
        'SingleListGrader': lambda: (mg.SingleListGrader(answers=['rv1', 'rv2', 'rv3'], subgrader=mg.StringGrader(), ordered=True,
                                                         partial_credit=False, delimiter='|', length_error=True),
                                     [(None, 'rv1|rv2|rv3'), (None, 'rv1|rv2')]),
        'ListGrader': lambda: (mg.ListGrader(answers=['rv1', 'rv2'], subgraders=mg.StringGrader(), partial_credit=False),
                               [(None, ['rv2', 'rv1']), (None, ['rv2', 'zz'])]),
        'IntervalGrader': lambda: (mg.IntervalGrader(answers='(7;8]', partial_credit=False, delimiter=';'),
                                   [(None, '(7;8]'), (None, '[7;9]')]),
        'SumGrader': lambda: (mg.SumGrader(answers={'lower': '0', 'upper': 'infty', 'summand': '0.5^rn',
                                                    'summation_variable': 'rn'}, infty_val=12, even_odd=2, tolerance='20%',
                                           blacklist=['cos'], variables=['rq']),
                              [(None, ['0', 'infty', '0.5^k', 'k']), (None, ['cos(0)', '3', 'k', 'k'])]),
    }


def after_build(obj):
    """Build a rival of type(obj) and call it; returns True when one was built."""
    global _MAKERS
    if _MAKERS is None:
        _MAKERS = _makers()
    make = _MAKERS.get(type(obj).__name__)
    if make is None:
        return False
    try:
        rival, calls = make()
    except Exception:  # noqa: BLE001 - a tree under test on which the rival cannot be built: nothing to add
        return False
    for expect, inp in calls:
        try:
            rival(expect, inp)
        except Exception:  # noqa: BLE001 - raising calls are part of the rival's life
            pass
    adopt(obj)
    return True


ADOPTABLE = ('StringGrader', 'FormulaGrader', 'NumericalGrader', 'MatrixGrader')


def adopt(obj):
    """The object under test also serves, first, as the subgrader of two list graders built with debug=True (an author may
    use one grader object stand-alone and inside a list).  What the parents switch on for THEIR calls (debug output, raw
    errors) must not stick to the subgrader: a seeded change let a parent's debug flag be 'inherited' by the subgrader
    object, which then let RecursionError escape and kept raw line breaks when called on its own with debug off."""
    if type(obj).__name__ not in ADOPTABLE:
        return False
    import mitxgraders as mg
    for make, inp in ((lambda: mg.SingleListGrader(answers=['1', '2'], subgrader=obj, debug=True), '1, 2'),
                      (lambda: mg.ListGrader(answers=['1', '2'], subgraders=obj, debug=True), ['2', '1'])):
        try:
            make()(None, inp)
        except Exception:  # noqa: BLE001 - parents that cannot be built / raising calls are part of the history
            pass
    return True
