#!/opt/veriftools/pyvenv/bin/python
"""Validate MANIFEST.json and every evidence file against the schemas (uses the tooling venv's jsonschema)."""
import json, glob, sys, jsonschema
m = json.load(open('/verif/MANIFEST.json'))
jsonschema.validate(m, json.load(open('/root/.vp/MANIFEST.schema.json')))
es = json.load(open('/root/.vp/EVIDENCE.schema.json'))
bad = 0
for c in m['checks']:
    p = '/verif/' + c['evidence_file']
    try:
        jsonschema.validate(json.load(open(p)), es)
    except Exception as e:
        bad += 1
        print('BAD', p, str(e)[:200])
print('manifest ok; %d checks; %d bad evidence files' % (len(m['checks']), bad))
sys.exit(1 if bad else 0)
