"""Process-history prelude.

Every property is stated for "any" call - so also for a call made in a process that has already done other work with
the library.  Half of the shards of every part (the odd-numbered ones) therefore start by running this fixed,
deterministic medley of ordinary library use (constructing and calling graders with unusual options, failing parses
and evaluations, comparers, samplers, the assignment solver, registered defaults set and cleared again), and only then
generate and judge their cases against the same library-independent oracles.  On a correct tree the medley changes
nothing (that is C10/C11's subject, checked there against pristine forked processes - those two checks opt out); a
process-wide leak (a class-level table edited in place, numpy error state left changed, a parser cache keyed lossily,
memo tables keyed by too little) shows up as an ordinary oracle failure in the property it damages.

The medley is data-free (no randomness of its own; sampling is pinned by set_seed) and every operation is allowed to
fail: failures are part of the history.  Nothing here is an oracle.
"""
import copy


def _try(fn, *a, **k):
    try:
        return fn(*a, **k)
    except Exception:  # noqa: BLE001 - a failing operation is a legitimate part of the history
        return None


def run():
    """Returns the number of operations performed."""
    import numpy as np
    import mitxgraders as mg
    from mitxgraders import sampling
    from mitxgraders.helpers.calc import evaluator, parse, MathArray
    from mitxgraders.helpers.munkres import Munkres
    from mitxgraders.baseclasses import ItemGrader, AbstractGrader
    n = 0

    def op(fn, *a, **k):
        nonlocal n
        n += 1
        sampling.set_seed(1000 + n)
        return _try(fn, *a, **k)

    # --- parser / evaluator histories: rejected strings that mention names, then accepted ones
    bad = ['3*(zeta+2', '[gq(2), 3', 'omega^(2/2', 'x*', 'fq(x,)', '2 + $', 'si\tn(y)+z', '1 ++ 2', '(' * 60 + 'qq' + ')' * 60,
           '(' * 400 + '1' + ')' * 400, 'sin()', '[1,2', '1e', '2^+3', 'a_{', '3 4\t5', '', '   ']
    good = ['x+y', 'x + y', 'sin(y)+z', '2k', '2e+3', '2E-3*x', '[x,y]', '1e—3', 'x^-y^2', 'R||-R', 'abs(x)', "x'+f''(y)",
            'a_{1}+T_{-2}^{ab}', '2m*m', 'infty', '1e308*10']
    scope_v = {'x': 2.0, 'y': 0.5, 'z': 1 + 1j, 'R': 3.0, "x'": 1.0, 'a_{1}': 1.5, 'T_{-2}^{ab}': 2.5, 'm': 7.0}
    scope_f = {'sin': np.sin, 'abs': np.abs, "f''": lambda t: t * 2, 'fq': lambda t: t, 'gq': lambda t: t}
    scope_s = {'k': 1e3, 'm': 1e-3, '%': 0.01}
    for s in bad + good:
        op(parse, s)
    for s in bad + good + bad[:4]:
        op(evaluator, s, copy.deepcopy(scope_v), dict(scope_f), dict(scope_s))
        op(evaluator, s, copy.deepcopy(scope_v), dict(scope_f), dict(scope_s), allow_inf=True)
    r = op(parse, 'x+y+z')
    if r is not None:
        for attr in ('variables_used', 'functions_used', 'suffixes_used'):
            _try(lambda: getattr(r, attr).add('leak_' + attr))
    op(evaluator, 'x+y+z', {'x': 1, 'y': 2, 'z': 3})
    # array arithmetic incl. failing powers and the negative-power switch
    A = MathArray([[1, 2], [3, 4]])
    S = MathArray([[1, 2], [2, 4]])
    v = MathArray([1, 2])
    for f in (lambda: A ** -1, lambda: S ** -1, lambda: A ** 0.5, lambda: A + v, lambda: v * v * v, lambda: A / A,
              lambda: 2 ** A, lambda: A ** 2.0, lambda: A * v, lambda: v * A, lambda: A ** MathArray([2])):
        op(f)
    _neg = getattr(MathArray, 'enable_negative_powers', None)
    if _neg is not None:
        def _ctx():
            with MathArray.enable_negative_powers(False):
                return S ** -1
        op(_ctx)
    # functions at poles / overflow (error state must be restored)
    for s in ('csch(0)', 'cot(0)', 'ln(0)', 'exp(1000)', 'arctan2(0,0)', 'sec(pi/2)', 'csch([2])', 'arccoth(1)',
              'abs([1,2])', 'det([[1,2],[3,4]])', 'det([1,2])', 'cross([1,2,3],[1,2])', 'kronecker(1,1.0000001)',
              'sqrt(-1)', 'arcsin(2)', 'fact(3)', 'min(1)', 'max(1,2,3)', 'norm([3,4])', 'trans([[1,2],[3,4]])'):
        op(evaluator, s, {'pi': np.pi, 'i': 1j}, {}, {})
        for G in (mg.FormulaGrader, mg.MatrixGrader, mg.NumericalGrader):
            op(lambda G=G, s=s: G(answers='1')(None, s))

    # --- graders with unusual options, constructed, called, failing
    def fg(**k):
        k.setdefault('answers', 'x+1')
        k.setdefault('variables', ['x'])
        return mg.FormulaGrader(**k)

    gs = [
        op(fg, metric_suffixes=True),
        op(fg, allow_inf=True, answers='infty'),
        op(fg, allow_inf=True, user_constants={'cq': 3.0}),
        op(fg, user_functions={'fq': lambda t: t + 1, 'gq': [np.sin, np.cos], 'hq': mg.RandomFunction()}),
        op(fg, user_functions={'sin': np.cos}, suppress_warnings=True),
        op(fg, user_constants={'pi': 3}, suppress_warnings=True),
        op(fg, whitelist=[None]), op(fg, blacklist=['sin']), op(fg, whitelist=['cos']),
        op(fg, forbidden_strings=['+1'], forbidden_message='nope'), op(fg, required_functions=['sin'], answers='sin(x)'),
        op(fg, numbered_vars=['a'], answers='a_{1}+x'), op(fg, instructor_vars=['x'], answers='x', variables=['x', 'y']),
        op(fg, sample_from={'x': [1, 2]}, samples=3, failable_evals=1, tolerance='1e-7%'),
        op(fg, sample_from={'x': mg.DependentSampler(depends=['y'], formula='y+1'), 'y': [0, 1]}, variables=['x', 'y']),
        op(fg, sample_from={'x': mg.DependentSampler(depends=['x'], formula='x+1')}),
        op(fg, debug=True), op(fg, debug=True, attempt_based_credit=mg.LinearCredit(), attempt_based_credit_msg=True),
        op(fg, answers=({'expect': 'x+1', 'msg': 'a'}, {'expect': 'x', 'grade_decimal': 0.5, 'msg': 'bb'}), wrong_msg='W'),
        op(fg, answers={'comparer': mg.LinearComparer(proportional=0.5, offset=0.3, linear=0.1), 'comparer_params': ['x+1']}),
        op(fg, variables=['z'], sample_from={'z': mg.ComplexRectangle()}, answers='z*conj(z)'),
        op(fg, tolerance=0), op(fg, tolerance='0%'), op(fg, max_array_dim=2, answers='[x,1]'),
        op(mg.NumericalGrader, answers='0'), op(mg.NumericalGrader, answers='1e-300', tolerance='5%'),
        op(mg.NumericalGrader, answers={'comparer': mg.comparers.congruence_comparer, 'comparer_params': ['pi', '-2*pi']}),
        op(mg.NumericalGrader, answers={'comparer': mg.comparers.between_comparer, 'comparer_params': ['1', '5']}),
        op(mg.MatrixGrader, answers='[[1,2],[3,4]]', negative_powers=False, max_array_dim=2),
        op(mg.MatrixGrader, answers='[[1,2],[3,4]]', entry_partial_credit='proportional', max_array_dim=2),
        op(mg.MatrixGrader, answers='[1,2,3]', answer_shape_mismatch={'is_raised': False, 'msg_detail': 'shape'}),
        op(mg.MatrixGrader, answers='[1,2,3]', suppress_matrix_messages=True),
        op(mg.MatrixGrader, answers={'comparer': mg.comparers.eigenvector_comparer, 'comparer_params': ['[[1,0],[0,2]]', '2']}, max_array_dim=2),
        op(mg.MatrixGrader, answers={'comparer': mg.comparers.vector_span_comparer, 'comparer_params': ['[1,0,0]', '[2,0,0]']}),
        op(mg.MatrixGrader, answers={'comparer': mg.comparers.vector_phase_comparer, 'comparer_params': ['[1,i]']}),
        op(mg.MatrixGrader, answers='A^-1', variables=['A'], sample_from={'A': mg.SquareMatrices(dimension=2, determinant=1)}, max_array_dim=2),
    ]
    inputs = ['x+1', 'x', 'x+1.0000001', '1+x', '2k', 'sin(x)', 'fq(x)', 'cq+x', 'a_{1}+x', 'a_{2}+x', 'A_{1}+x', 'y', 'X+1',
              '[[1,2],[3,4]]', '[[1,2],[3,5]]', '[1,2,3]', '[1,2]', '[[1,2],[3,4]]^-1', '[[1,2],[2,4]]^-1', '[0,2]', '[i,-1]',
              '0', '1e-300', 'pi', '3*pi', '3', 'i*i*(-3)', 'infty', '-infty', '1/0', '(x+1', 'x+', '', 'A^-1', 'A^2',
              'z*conj(z)', '2*x+2', 'x+4', '0*x', 'x+1+0*sin(0)', 'x + 1', '1 0']
    for g in gs:
        if g is None:
            continue
        for s in inputs:
            op(g, None, s)
            op(g, None, s, attempt=3)
        op(g, None, None)
        op(g, None, ['x+1'])
        op(g, None, 5)

    # --- string / list / interval / sum graders
    sg = [
        op(mg.StringGrader, answers='Cat'), op(mg.StringGrader, answers='cat dog', strip_all=True, case_sensitive=False),
        op(mg.StringGrader, answers='cat', validation_pattern='cat|dog', explain_validation='msg'),
        op(mg.StringGrader, answers='dog', validation_pattern='(cat|dog)s?', explain_validation='err'),
        op(mg.StringGrader, accept_any=True, min_words=2, min_length=4, explain_minimums='msg'),
        op(mg.StringGrader, accept_nonempty=True, accept_any=True, explain_minimums=None, wrong_msg='W'),
        op(mg.StringGrader, accept_any=True, validation_pattern='[a-c]+', min_length=2, explain_minimums='err'),
        op(mg.StringGrader, answers=('a', {'expect': 'b', 'grade_decimal': 0.5, 'msg': 'half'}), clean_spaces=False, strip=False),
        op(mg.StringGrader, debug=True),
        op(mg.StringGrader),
    ]
    for g in sg:
        if g is None:
            continue
        for s in ('Cat', 'cat', ' cat ', 'catfish', 'dogs', 'c a t', 'cat\r\ndog', 'a', 'b', '', 'ab', 'abc d', 'aaaa bbbb', 'é'):
            op(g, None, s)
            op(g, 'cat', s)
            op(g, 'b', s)
    ls = [
        op(mg.SingleListGrader, answers=['a', 'b', 'c'], subgrader=mg.StringGrader()),
        op(mg.SingleListGrader, answers=['a', 'b', 'c'], subgrader=mg.StringGrader(), ordered=True, length_error=True),
        op(mg.SingleListGrader, answers=(['a', 'b'], {'expect': ['c', 'd'], 'grade_decimal': 0.5, 'msg': 'cd'}),
           subgrader=mg.StringGrader(), partial_credit=False),
        op(mg.SingleListGrader, answers=[['a', 'b'], ['c', 'd']], delimiter=';',
           subgrader=mg.SingleListGrader(subgrader=mg.StringGrader())),
        op(mg.SingleListGrader, subgrader=mg.FormulaGrader(variables=['x']), missing_error=False),
        op(mg.SingleListGrader, subgrader=mg.StringGrader(), debug=True),
        op(mg.IntervalGrader, answers='[1,2)'), op(mg.IntervalGrader), op(mg.IntervalGrader, answers='(0,infty)', partial_credit=False),
    ]
    for g in ls:
        if g is None:
            continue
        for s in ('a,b,c', 'c, b, a', 'a,b', 'a,,b', 'a,b,c,d', 'a, ,c', 'a,b;c,d', 'c,d', '[1,2)', '(1,2]', '[1,2,3]', '[1', 'x+1,x', ''):
            op(g, None, s)
            op(g, 'a,b', s)
            op(g, '[1,2,3]', s)
            op(g, '[1,2)', s)
    shared = _try(mg.StringGrader, wrong_msg='sw')
    lgs = [
        op(mg.ListGrader, answers=['a', 'b'], subgraders=shared),
        op(mg.ListGrader, answers=['a', 'b'], subgraders=[shared, shared], ordered=True, debug=True),
        op(mg.ListGrader, answers=(['a', 'b'], ['c', 'd'], ['b', 'c']), subgraders=mg.StringGrader(), partial_credit=False),
        op(mg.ListGrader, answers=[['a', 'b'], ['c', 'd']], subgraders=mg.ListGrader(subgraders=mg.StringGrader()), grouping=[1, 2, 1, 2]),
        op(mg.ListGrader, answers=['x', 'x+sibling_1'], subgraders=mg.FormulaGrader(variables=['x']), ordered=True),
        op(mg.ListGrader, answers=['a', 'b', 'c', 'd'], subgraders=mg.StringGrader(answers=()),
           attempt_based_credit=mg.GeometricCredit(), attempt_based_credit_msg=True),
    ]
    for g in lgs:
        if g is None:
            continue
        for inp in (['a', 'b'], ['b', 'a'], ['a'], ['a', 'b', 'c', 'd'], ['d', 'c', 'b', 'a'], ['x', '2*x'], ['x', 'sibling_1'],
                    ['a', None], 'a', [['a']], ['(x', 'x']):
            op(g, None, inp)
            op(g, None, inp, attempt=0)
    if shared is not None:
        op(shared, 'a', 'a')
        op(shared, None, 'zz')
    sums = [
        op(mg.SumGrader, answers={'lower': '1', 'upper': '5', 'summand': 'n^2', 'summation_variable': 'n'}),
        op(mg.SumGrader, answers={'lower': '0', 'upper': 'infty', 'summand': '0.5^n', 'summation_variable': 'n'}, infty_val=30,
           input_positions={'summand': 1}),
        op(mg.SumGrader, answers={'lower': '-infty', 'upper': '4', 'summand': '2^n', 'summation_variable': 'n'}, even_odd=1,
           infty_val=21),
        op(mg.SumGrader, answers={'lower': '1', 'upper': '3', 'summand': 'fq(n)+x', 'summation_variable': 'n'}, variables=['x'],
           user_functions={'fq': mg.RandomFunction()}, blacklist=['sin'], instructor_vars=['x'],
           input_positions={'lower': 1, 'upper': 2}),
    ]
    for g in sums:
        if g is None:
            continue
        for inp in (['1', '5', 'n^2', 'n'], ['5', '1', 'k^2', 'k'], ['1', '5.5', 'n', 'n'], ['1', '5', 'n', 'i'], ['0.5^n'],
                    ['1', '3'], ['3', '1'], ['1', 'sin(0)+3'], ['', ''], ['1', '5', 'n^2', 'pi'], ['(1', '5', 'n', 'n']):
            op(g, None, inp)

    # --- comparer / solver / sampler objects used repeatedly
    lc = _try(mg.LinearComparer, proportional=0.5, offset=0.4, linear=0.2)
    if lc is not None:
        for ans in ('0', 'x', '2*x', 'x+1', '3*x+2'):
            g = op(fg, answers={'comparer': lc, 'comparer_params': [ans]})
            if g is not None:
                for s in ('0', 'x', 'x+3', '5*x', '5*x+1', 'x^2'):
                    op(g, None, s)
    m = Munkres()
    for mat in ([[1, 2, 3], [2, 4, 6]], [[0.3, 0.7], [0.7, 0.3], [0.5, 0.5]], [[1, 0, 1, 0]] * 4, [[5]], [[0.9, 1, 1, 1], [1, 0.9, 1, 0.3],
                [1, 1, 0, 1], [0.3, 1, 1, 2 / 3]], [[1, 2], [3, 4]]):
        op(m.compute, mat)
        op(Munkres().compute, [row[:] for row in mat])
    for smp in (lambda: mg.RealInterval([3, 1]), lambda: mg.IntegerRange([5, 1]), lambda: mg.ComplexSector(modulus=[1, 2], argument=[3, 4]),
                lambda: mg.ComplexRectangle(), lambda: mg.DiscreteSet((1, 2, 3)), lambda: mg.RealVectors(shape=3, norm=[2, 3]),
                lambda: mg.RealMatrices(shape=[2, 3]), lambda: mg.ComplexMatrices(shape=2, triangular='upper'),
                lambda: mg.SquareMatrices(dimension=3, symmetry='hermitian', traceless=True, complex=True),
                lambda: mg.SquareMatrices(dimension=3, determinant=1), lambda: mg.SquareMatrices(dimension=2, symmetry='antisymmetric', determinant=1),
                lambda: mg.IdentityMatrixMultiples(dimension=3, sampler=[1, 2]),
                lambda: mg.RandomFunction(input_dim=2, output_dim=3, num_terms=2, center=5, amplitude=2),
                lambda: mg.RandomFunction(complex=True, num_terms=1), lambda: mg.SpecificFunctions([np.sin, np.cos]),
                lambda: mg.SquareMatrices(dimension=2, symmetry='symmetric', traceless=True, determinant=1)):
        s = op(smp)
        if s is not None:
            for _ in range(3):
                x = op(s.gen_sample)
                if callable(x):
                    op(x, 0.5)
                    op(x, 0.5, 1.5)
    # --- registered defaults, set and cleared again (balanced)
    for cls, d in ((mg.StringGrader, {'case_sensitive': False, 'wrong_msg': 'reg'}), (ItemGrader, {'wrong_msg': 'item'}),
                   (mg.FormulaGrader, {'tolerance': 0.5, 'samples': 2}), (mg.ListGrader, {'partial_credit': False}),
                   (AbstractGrader, {'debug': True})):
        op(cls.register_defaults, d)
        op(lambda: mg.StringGrader(answers='a')(None, 'A'))
        op(lambda: mg.FormulaGrader(answers='1')(None, '1.2'))
        op(lambda: mg.NumericalGrader(answers='1')(None, '1.2'))
    for cls in (mg.StringGrader, ItemGrader, mg.FormulaGrader, mg.ListGrader, AbstractGrader):
        try:
            cls.clear_registered_defaults()
        except Exception:  # noqa: BLE001
            pass
    # invalid configurations (must leave nothing behind)
    for bad_cfg in (lambda: mg.FormulaGrader(answers='1', whitelist=['sin'], blacklist=['cos']), lambda: mg.FormulaGrader(answers='1', variables=None),
                    lambda: mg.FormulaGrader(answers='1', user_constants={'sin': 1}), lambda: mg.FormulaGrader(answers='1', tolerance=float('nan')),
                    lambda: mg.ListGrader(answers=['a'], subgraders=mg.StringGrader()), lambda: mg.StringGrader(answers='a', nonsense=1),
                    lambda: mg.SquareMatrices(symmetry='antisymmetric', dimension=3, determinant=1),
                    lambda: mg.SingleListGrader(answers=['a'], subgrader=mg.SingleListGrader(subgrader=mg.StringGrader())),
                    lambda: mg.FormulaGrader(answers='x', variables=['x'], sample_from={'x': 'abc'}), lambda: mg.LinearComparer(equals='abc'),
                    lambda: mg.MatrixGrader(answers='1', entry_partial_credit=7)):
        op(bad_cfg)
    # --- last of all: calls that FAIL inside a grader's check (whatever a check switches on for its duration must be
    # switched back when it raises): negative matrix powers off, then an evaluation with allow_inf
    gnp = _try(mg.MatrixGrader, answers='[[1,2],[3,4]]', max_array_dim=2, negative_powers=False)
    if gnp is not None:
        for sub in ['[[1,2],[3,4]]', '[[1,2],[3,4]]^-1', 'Q*2', '[1,2,3]']:
            op(gnp, None, sub)
    op(evaluator, '1e308*10', allow_inf=True)
    return n


def standing_defaults():
    """Course-wide defaults registered through the documented plug-in mechanism, each EQUAL to the documented default of
    its option - so that, on a correct tree, no configuration and no verdict differs from a process without them.  A
    quarter of the shards keep them registered while their cases run: the merge of registered defaults with a grader's
    explicit options is then exercised by every constructed grader (a seeded change let explicit options of one grader
    leak into the registered table and from there into later graders).  Options that a subclass pins to another value
    (FormulaGrader.samples vs NumericalGrader) are left alone."""
    import mitxgraders as mg
    from mitxgraders.baseclasses import ItemGrader, AbstractGrader
    AbstractGrader.register_defaults({'debug': False})
    ItemGrader.register_defaults({'wrong_msg': ''})
    mg.StringGrader.register_defaults({'strip': True})
    mg.ListGrader.register_defaults({'partial_credit': True})
    mg.SingleListGrader.register_defaults({'delimiter': ','})
    mg.FormulaGrader.register_defaults({'failable_evals': 0})
    mg.MatrixGrader.register_defaults({'max_array_dim': 1})
    return 7
