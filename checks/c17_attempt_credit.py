"""C17 - attempt-based credit: bounded, non-increasing schedules; product law, ok, zero, note and missing attempt."""
import itertools
import re

from hypothesis import strategies as st

from vlib import rivals
from vlib import forms
from vlib.core import call_twice, Part, Violation, Discard, call

from mitxgraders import (StringGrader, FormulaGrader, SingleListGrader, ListGrader,
                         LinearCredit, GeometricCredit, ReciprocalCredit)
from mitxgraders.exceptions import ConfigError, MITxError
from mitxgraders.sampling import set_seed
from voluptuous import Error as SchemaError

RULE = ("Schedules: every LinearCredit over decrease_credit_after 1-6 x decrease_credit_steps 1-6 x minimum_credit "
        "{0, 0.0, 0.1, 0.2, 0.5, 1.0, 1}, GeometricCredit over factor {0, 0.0, 0.1, 0.25, 0.5, 0.75, 0.9, 1.0, 1} and "
        "ReciprocalCredit is evaluated at attempts 1..200 (exhaustive), plus random configurations; oracle: value(1)==1, "
        "0<=value<=1, value>=minimum-5e-5 (LinearCredit; 4-decimal rounding is documented), value(n+1)<=value(n). "
        "Graders: each grid schedule x message flag x two fixed graders (single-input StringGrader, ordered ListGrader; "
        "inputs with base grades 0, partial, 1 and mixed) x attempts -3..200 (exhaustive), plus random String / Formula / "
        "SingleList (ordered, unordered, nested) / List (ordered, unordered, subgrader lists, grouped nested) graders with "
        "built-in or author-defined schedules (tables of ints/floats in [0,1]), attempts -3..40 or omitted. Oracle is "
        "differential: the same configuration without attempt_based_credit, same sampling seed, gives the base result; "
        "with credit c = schedule(max(attempt,1)) (the library's documented 4-decimal rounding of c is accepted as well as "
        "the unrounded value, consistently over the whole result) every positive base grade must become base*c (1e-12), ok "
        "must be False/True/'partial' according to the new grade, zero-grade entries and per-entry messages are unchanged, "
        "and msg/overall_message is the base message followed by 'Maximum credit for attempt #n is p%.' (n = clamped "
        "attempt, |p-100c|<=0.05, no trailing '.0') exactly when c<1, some base grade was positive and the flag is on "
        "(explicitly or by default), otherwise exactly the base message. Attempt omitted -> ConfigError. Non-trivial = "
        "c<1 and (some partial base grade, or a list result with zero and positive entries); for a schedule case: at "
        "least 3 distinct values over attempts 1..200. Distinct by spec."
        " Schedule values are compared with the documented progressions and re-asked after other schedules were used (no dependence on history); author schedules include values equal to 1 at four decimals without being 1; the note clause is judged by observed reduction.")
ASSUMPTIONS = ["attempt is a Python int (or omitted); author-defined schedules return ints or floats in [0,1] and may be "
               "non-monotone", "student inputs are well-formed for the grader, so the grader without attempt-based credit "
               "returns a result (a base grader that raises is discarded, the property is silent there)",
               "the schedule used as reference at grader level is a second instance of the same schedule class, itself "
               "covered by the schedule parts", "debug=False (the debug log is not part of the property)"]
REQUIRED = {'grader/string': 150, 'grader/formula': 100, 'grader/singlelist': 150, 'grader/singlelist-nested': 40,
            'grader/list': 300, 'grader/list-nested': 100, 'list/unordered': 100, 'list/ordered': 100,
            'sched/author-int': 50, 'sched/author-float': 200, 'sched/linear': 200, 'sched/geometric': 100,
            'sched/reciprocal': 100, 'attempt/omitted': 50, 'attempt/below-1': 200, 'credit<1': 1000, 'credit==0': 100,
            'base/partial': 300, 'base/zero': 300, 'base/full': 300, 'list/mixed-zero-positive': 150,
            'note/added': 500, 'note/withheld-flag-off': 200, 'note/withheld-nothing-reduced': 100,
            'note/after-nonempty-message': 50, 'flag/default': 200, 'credit/off-4-decimal-grid': 30}

NOTE_RE = re.compile(r'Maximum credit for attempt #(-?\d+) is (\d+(?:\.\d+)?)%\.\Z')
SEP_TAIL = re.compile(r'(?:\s|<br/>)+\Z')
GRADERS = {'StringGrader': StringGrader, 'FormulaGrader': FormulaGrader, 'SingleListGrader': SingleListGrader,
           'ListGrader': ListGrader}


# ----------------------------------------------------------------------------------------------------
# schedules


def make_schedule(s):
    """Schedule object from its JSON description (a fresh object on every call)."""
    k = s['kind']
    if k == 'linear':
        return LinearCredit(decrease_credit_after=s['after'], decrease_credit_steps=s['steps'],
                            minimum_credit=s['min'])
    if k == 'geometric':
        return GeometricCredit(factor=s['factor'])
    if k == 'reciprocal':
        return ReciprocalCredit()
    if k == 'linear-default':
        return LinearCredit()
    if k == 'geometric-default':
        return GeometricCredit()
    if k == 'table':
        vals = list(s['vals'])
        # an author function is total: below 1 it returns a value different from its value at 1, so that a grader
        # which does not count attempts below 1 as 1 produces a visibly different result
        poison = 0.0625 if vals[0] != 0.0625 else 0.5

        def author(n):
            if n < 1:
                return poison
            return vals[min(n, len(vals)) - 1]
        return author
    raise ValueError(k)


def is_number(v):
    return isinstance(v, (int, float)) and not isinstance(v, bool)


def documented_value(s, n):
    """The progression the class doc-strings describe (before the documented rounding to 4 decimals); None for author
    tables.  LinearCredit: 1 up to decrease_credit_after, then linearly down to minimum_credit over decrease_credit_steps
    attempts, constant afterwards; GeometricCredit: 1, x, x^2, ...; ReciprocalCredit: 1, 1/2, 1/3, ..."""
    k = s['kind']
    if k in ('geometric', 'geometric-default'):
        f = s.get('factor', 0.75)
        return 1.0 if n == 1 else float(f) ** (n - 1)
    if k == 'reciprocal':
        return 1.0 / n
    if k in ('linear', 'linear-default'):
        after, steps, mn = s.get('after', 1), s.get('steps', 4), s.get('min', 0.2)
        d = n - after
        if d <= 0:
            return 1.0
        return float(mn) if d >= steps else 1 + (mn - 1) * d / steps
    return None


COMPANIONS = [{'kind': 'geometric', 'factor': 0.1}, {'kind': 'geometric', 'factor': 0.9}, {'kind': 'geometric-default'},
              {'kind': 'linear', 'after': 2, 'steps': 3, 'min': 0.5}, {'kind': 'linear-default'}, {'kind': 'reciprocal'}]


def judge_schedule(spec, rec):
    s = spec['sched']
    sched = make_schedule(s)
    first_walk = {}
    rec.cls('sched-grid/' + s['kind'])
    prev = None
    vals = set()
    top = spec.get('upto', 200)
    for n in range(1, top + 1):
        v = sched(n)
        if not is_number(v) or v != v:
            raise Violation('schedule/type', 'value at attempt %d is %r' % (n, v), attempt=n)
        if n == 1 and v != 1:
            raise Violation('schedule/first-attempt', 'value at attempt 1 is %r, not 1' % (v,))
        if not 0 <= v <= 1:
            raise Violation('schedule/range', 'value %r at attempt %d is outside [0, 1]' % (v, n), attempt=n)
        if s['kind'] == 'linear' and v < s['min'] - 5e-5:
            raise Violation('schedule/below-minimum', 'value %r at attempt %d is below minimum_credit %r'
                            % (v, n, s['min']), attempt=n)
        if prev is not None and v > prev:
            raise Violation('schedule/increasing', 'value rises from %r (attempt %d) to %r (attempt %d)'
                            % (prev, n - 1, v, n), attempt=n)
        ref = documented_value(s, n)
        if ref is not None and abs(v - ref) > 5.0001e-5:
            raise Violation('schedule/not-the-documented-progression', '%r at attempt %d gives %r; the documented '
                            'progression gives %r (rounded to 4 decimals)' % (s, n, v, ref), attempt=n)
        prev = v
        vals.add(v)
        first_walk[n] = v
    # the value for an attempt is a function of the configuration and the attempt alone: other schedule objects used
    # in between, a second object with the same configuration, and a different order of questions change nothing
    for c in COMPANIONS:
        other = make_schedule(c)
        for n in (3, 2, 7, 1, 40):
            other(n)
    again = make_schedule(s)
    for n in list(range(top, 0, -7)) + [2, 3, 1, 5]:
        v1, v2 = again(n), sched(n)
        if v1 != first_walk[n] or v2 != first_walk[n]:
            raise Violation('schedule/value-depends-on-history', '%r at attempt %d: %r on the first walk, then %r (same '
                            'object) and %r (second object, same configuration) after other schedules were used'
                            % (s, n, first_walk[n], v2, v1), attempt=n)
    rec.calls(top + 30 + 2 * (top // 7 + 5))
    rec.nontrivial(len(vals) >= 3)
    if len(vals) >= 3:
        rec.cls('sched-grid/at-least-3-levels')
    return {'levels': len(vals), 'last': prev}


MINS = [0, 0.0, 0.1, 0.2, 0.5, 1.0, 1]
FACTORS = [0, 0.0, 0.1, 0.25, 0.5, 0.75, 0.9, 1.0, 1]


def grid_schedules():
    for after, steps, mn in itertools.product(range(1, 7), range(1, 7), MINS):
        yield {'kind': 'linear', 'after': after, 'steps': steps, 'min': mn}
    for f in FACTORS:
        yield {'kind': 'geometric', 'factor': f}
    yield {'kind': 'reciprocal'}
    yield {'kind': 'linear-default'}
    yield {'kind': 'geometric-default'}


def items_schedules(tier):
    for s in grid_schedules():
        yield {'sched': s}


def unit_floats():
    return st.one_of(st.floats(0, 1, allow_nan=False), st.sampled_from([0, 1, 0.0, 1.0, 0.3333, 1e-5, 0.99995]),
                     st.integers(0, 10000).map(lambda k: k / 10000.0))


def strat_schedules_random(tier):
    lin = st.builds(lambda a, s, m: {'kind': 'linear', 'after': a, 'steps': s, 'min': m},
                    st.integers(1, 60), st.integers(1, 250), unit_floats())
    geo = unit_floats().map(lambda f: {'kind': 'geometric', 'factor': f})
    return st.one_of(lin, lin, geo).map(lambda s: {'sched': s, 'upto': 320})


# ----------------------------------------------------------------------------------------------------
# graders from JSON


def decode(o):
    """JSON description -> library configuration: {'$tuple': [...]} is a tuple, {'$grader': name, 'kw': {...}} a grader."""
    if isinstance(o, list):
        return [decode(x) for x in o]
    if isinstance(o, dict):
        if '$tuple' in o:
            return tuple(decode(x) for x in o['$tuple'])
        if '$grader' in o:
            return GRADERS[o['$grader']](**{k: decode(v) for k, v in o['kw'].items()})
        return {k: decode(v) for k, v in o.items()}
    return o


def build(g, extra):
    kw = {k: decode(v) for k, v in g['kw'].items()}
    kw.update(extra)
    grader = forms.make(GRADERS[g['$grader']], kw)
    rivals.after_build(grader)     # vlib/rivals.py
    return grader


def entries_of(res):
    if not isinstance(res, dict):
        return None, None
    if 'input_list' in res:
        return res['input_list'], 'overall_message'
    return [res], 'msg'


def ok_rule(grade):
    if grade == 0:
        return False
    if grade == 1:
        return True
    return 'partial'


def same_ok(a, b):
    return a == b and type(a) is type(b)


def strip_tail(s):
    return SEP_TAIL.sub('', s)


def compare(base, res, m, attempt, flag_on):
    """Judge result `res` against base result `base` for credit multiplier m; returns None or (key, message)."""
    be, bkey = entries_of(base)
    rentries, rkey = entries_of(res)
    if rentries is None or rkey != bkey or not isinstance(rentries, list) or len(rentries) != len(be) \
            or set(res) != set(base):
        return 'shape', 'result %r does not have the shape of the base result %r' % (res, base)
    any_positive = False
    for i, (b, r) in enumerate(zip(be, rentries)):
        if not isinstance(r, dict) or set(r) != set(b):
            return 'shape', 'entry %d: %r versus base %r' % (i, r, b)
        g = r['grade_decimal']
        if not is_number(g):
            return 'shape', 'entry %d: grade %r' % (i, g)
        if b['grade_decimal'] > 0:
            any_positive = True
            want = b['grade_decimal'] * m
            if abs(g - want) > 1e-12:
                return 'scale/positive-grade', 'entry %d: base grade %r, credit %r: expected %r, got %r' % (
                    i, b['grade_decimal'], m, want, g)
            if not same_ok(r['ok'], ok_rule(g)):
                return 'ok-not-recomputed', 'entry %d: grade %r has ok=%r' % (i, g, r['ok'])
        else:
            if g != 0 or not same_ok(r['ok'], b['ok']):
                return 'zero-grade-changed', 'entry %d: base %r became %r' % (i, b, r)
        if bkey == 'overall_message' and r['msg'] != b['msg']:
            return 'entry-message-changed', 'entry %d: msg %r, base %r' % (i, r['msg'], b['msg'])
    text, btext = res[rkey], base[bkey]
    if not isinstance(text, str):
        return 'shape', '%s is %r' % (rkey, text)
    # "exactly when some grade was reduced": judged by what happened to the grades (a schedule value such as
    # 0.9999999999999999 equals 1 at the documented 4-decimal resolution and then reduces nothing)
    reduced = any(r['grade_decimal'] < b['grade_decimal'] for b, r in zip(be, rentries))
    if reduced and flag_on:
        mt = NOTE_RE.search(text)
        if mt is None:
            if 'Maximum credit' in text:
                return 'note/format', 'note not in the documented form: %r' % (text,)
            return 'note/missing', 'grades were reduced (credit %r) but the message is %r' % (m, text)
        pre = text[:mt.start()]
        if 'Maximum credit for attempt' in pre:
            return 'note/format', 'note added more than once: %r' % (text,)
        if strip_tail(pre) != strip_tail(btext):
            return 'note/base-message-lost', 'message %r does not start with the base message %r' % (text, btext)
        if int(mt.group(1)) != max(attempt, 1):
            return 'note/attempt-number', 'note names attempt %s, attempt was %d' % (mt.group(1), attempt)
        p = mt.group(2)
        if abs(float(p) - 100 * m) > 0.05 + 1e-9:
            return 'note/percent', 'note says %s%% for credit %r' % (p, m)
        if p.endswith('.0'):
            return 'note/format', 'percentage %r has a trailing .0' % (p,)
    elif text != btext:
        if 'Maximum credit' in text:
            if not flag_on:
                return 'note/unexpected-flag-off', 'note added although attempt_based_credit_msg=False: %r' % (text,)
            return 'note/unexpected-nothing-reduced', 'note added although no grade was reduced (credit %r): %r' % (
                m, text)
        return 'message-changed', 'message %r, base %r' % (text, btext)
    return None


def judge_result(base, res, v, attempt, flag_on):
    """v = schedule value.  The library documents rounding the credit to 4 decimals; the statement says 'the
    schedule's value': a result consistent with either is accepted."""
    m_r = round(float(v), 4)
    bad = compare(base, res, m_r, attempt, flag_on)
    if bad is None:
        return m_r
    if float(v) != m_r and compare(base, res, float(v), attempt, flag_on) is None:
        return float(v)
    raise Violation(bad[0], bad[1] + ' [attempt=%r, schedule value=%r]' % (attempt, v), base=base, result=res)


def classify(rec, base, m, flag, attempt):
    be, bkey = entries_of(base)
    grades = [e['grade_decimal'] for e in be]
    pos = [g for g in grades if g > 0]
    part = [g for g in grades if 0 < g < 1]
    if part:
        rec.cls('base/partial')
    if any(g == 0 for g in grades):
        rec.cls('base/zero')
    if any(g == 1 for g in grades):
        rec.cls('base/full')
    mixed = bkey == 'overall_message' and pos and len(pos) < len(grades)
    if mixed:
        rec.cls('list/mixed-zero-positive')
    if m < 1:
        rec.cls('credit<1')
        if m == 0:
            rec.cls('credit==0')
        if pos and flag is not False:
            rec.cls('note/added')
            if base[bkey]:
                rec.cls('note/after-nonempty-message')
        elif pos:
            rec.cls('note/withheld-flag-off')
        else:
            rec.cls('note/withheld-nothing-reduced')
    else:
        rec.cls('credit==1')
    if attempt < 1:
        rec.cls('attempt/below-1')
    rec.nontrivial(m < 1 and bool(part or mixed))


def sched_classes(rec, s):
    k = s['kind']
    if k == 'table':
        if any(isinstance(x, int) for x in s['vals']):
            rec.cls('sched/author-int')
        if any(isinstance(x, float) for x in s['vals']):
            rec.cls('sched/author-float')
    else:
        rec.cls('sched/' + k.split('-')[0])


def abc_kwargs(s, flag):
    kw = {'attempt_based_credit': make_schedule(s)}
    if flag is not None:
        kw['attempt_based_credit_msg'] = flag
    return kw


def poison_inputs(inp):
    """Submissions that (may) make the call fail, for the failed-call-before history."""
    if isinstance(inp, str):
        return ['((' + inp + ' +', [inp]]
    return [['((' + x + ' +' for x in inp], list(inp)[:-1], 'text']


def run(grader, inp, seed, **kw):
    return call_twice(grader, lambda: set_seed(seed), None, inp if isinstance(inp, str) else list(inp), **kw)


# ----------------------------------------------------------------------------------------------------
# exhaustive grid at grader level: two fixed graders x every grid schedule x flag x attempts -3..200

FIX_SINGLE = {'$grader': 'StringGrader', 'kw': {
    'answers': {'$tuple': [{'expect': 'cat', 'grade_decimal': 1},
                           {'expect': 'feline', 'grade_decimal': 0.5, 'msg': 'Meow!'},
                           {'expect': 'lion', 'grade_decimal': 0.3333},
                           {'expect': 'unicorn', 'grade_decimal': 0, 'msg': 'Really?'}]},
    'wrong_msg': 'too bad'}}
FIX_LIST = {'$grader': 'ListGrader', 'kw': {
    'answers': [{'$tuple': [{'expect': 'a', 'grade_decimal': 1},
                            {'expect': 'b', 'grade_decimal': 0.5, 'msg': 'hm'}]}, 'c'],
    'subgraders': {'$grader': 'StringGrader', 'kw': {}}, 'ordered': True}}
FIXTURES = [(FIX_SINGLE, ['cat', 'feline', 'lion', 'unicorn', 'dog']),
            (FIX_LIST, [['a', 'c'], ['b', 'c'], ['b', 'x'], ['x', 'c'], ['x', 'y']])]


def items_grid(tier):
    for s in grid_schedules():
        for flag in (True, False):
            yield {'sched': s, 'flag': flag}


def judge_grid(spec, rec):
    s, flag = spec['sched'], spec['flag']
    ref = make_schedule(s)
    ncalls = 0
    for g, inputs in FIXTURES:
        twin = build(g, {})
        grader = build(g, abc_kwargs(s, flag))
        bases = []
        for inp in inputs:
            st_, base = run(twin, inp, 0)
            if st_ != 'ok':
                raise base
            bases.append(base)
        for inp in inputs:
            st_, r = run(grader, inp, 0)
            if st_ == 'ok':
                raise Violation('missing-attempt/graded', 'input %r, no attempt number given, yet a result came '
                                'back: %r' % (inp, r))
            if not isinstance(r, ConfigError):
                raise Violation('missing-attempt/wrong-error', 'input %r, no attempt number: %s: %s'
                                % (inp, type(r).__name__, r))
        ncalls += 2 * len(inputs)
        for attempt in range(-3, 201):
            v = ref(max(attempt, 1))
            for inp, base in zip(inputs, bases):
                st_, res = run(grader, inp, 0, attempt=attempt)
                ncalls += 1
                if st_ != 'ok':
                    raise Violation('raised-with-attempt/' + type(res).__name__,
                                    'input %r attempt %d: %s: %s' % (inp, attempt, type(res).__name__, res))
                try:
                    m = judge_result(base, res, v, attempt, flag)
                except Violation as viol:
                    viol.msg = 'input %r: %s' % (inp, viol.msg)
                    raise
                if attempt in (0, 2, 5, 50):
                    classify(rec, base, m, flag, attempt)
    rec.calls(ncalls)
    rec.cls('grid-items')
    return {'calls': ncalls}


# ----------------------------------------------------------------------------------------------------
# random graders

STR_TOKENS = ['cat', 'dog', 'emu', 'fox', 'gnu', 'hen', 'owl', 'pig', 'rat', 'yak', 'Ant', 'bee', 'cod', 'eel',
              'koi', 'red fox']
STR_WRONG = ['unicorn', 'zzz', 'c at', '42']
FORMULAS = [('x^2+1', '1+x*x'), ('2*x', 'x+x'), ('x*y', 'y*x'), ('x+y', 'y+x'), ('sin(x)', 'sin(x)'), ('3', '2+1'),
            ('x/2', '0.5*x'), ('y^2', 'y*y'), ('x-y', '-y+x'), ('cos(y)', 'cos(-y)'), ('x^3', 'x*x*x'), ('y+1', '1+y')]
FORMULA_WRONG = ['x+7', 'y-10', '0', 'x*y*5+1']
GRADES = [1, 1, 1.0, 0.5, 0.45, 0.3333, 0.1, 0.75, 1 / 3, 0.999, 0, 0.0]
MSGS = ['', '', '', 'Meow!', 'hm', 'Good enough!\nReally', '50% here',
        # feedback with braces and format-like fields (MathJax, set notation): it is text, not a template
        'Half: \\(\\frac{1}{2}\\)', 'the set {a, b}', 'see {0} and {1}', 'a } stray { brace', '100% {:.0%}']


def leaf_grader(kind, extra=None):
    kw = dict(extra or {})
    if kind == 'F':
        kw['variables'] = ['x', 'y']
        return {'$grader': 'FormulaGrader', 'kw': kw}
    return {'$grader': 'StringGrader', 'kw': kw}


@st.composite
def leaf(draw, kind, pool):
    """One answer slot of an item grader: (answers JSON, student inputs hitting each alternative, wrong inputs).
    pool is a list of still unused (expect, student form) pairs; used pairs are removed."""
    n = draw(st.integers(1, min(3, len(pool))))
    alts, hits = [], []
    for i in range(n):
        e, sform = pool.pop(draw(st.integers(0, len(pool) - 1)))
        grade = draw(st.sampled_from([1, 1, 1.0, 0.5])) if i == 0 else draw(st.sampled_from(GRADES))
        msg = draw(st.sampled_from(MSGS))
        alts.append((e, grade, msg))
        hits.append(sform)
    if n == 1 and alts[0][1] == 1 and alts[0][2] == '' and isinstance(alts[0][1], int) and draw(st.booleans()):
        ans = alts[0][0]
    else:
        ds = []
        for e, grade, msg in alts:
            d = {'expect': e, 'grade_decimal': grade}
            if msg:
                d['msg'] = msg
            ds.append(d)
        ans = ds[0] if n == 1 and draw(st.booleans()) else {'$tuple': ds}
    return ans, hits


def fresh_pool(kind):
    return [(t, t) for t in STR_TOKENS] if kind != 'F' else list(FORMULAS)


def wrong_of(kind):
    return FORMULA_WRONG if kind == 'F' else STR_WRONG


@st.composite
def pick(draw, kind, hits, p_wrong=0.22):
    """Student text for a slot: one of the alternatives, or something wrong."""
    if draw(st.floats(0, 1)) < p_wrong:
        return draw(st.sampled_from(wrong_of(kind)))
    return hits[draw(st.integers(0, len(hits) - 1))]


@st.composite
def single_item(draw):
    kind = draw(st.sampled_from(['S', 'S', 'F']))
    ans, hits = draw(leaf(kind, fresh_pool(kind)))
    extra = {'answers': ans}
    wm = draw(st.sampled_from(['', '', 'too bad', 'Nope\nTry again']))
    if wm:
        extra['wrong_msg'] = wm
    return leaf_grader(kind, extra), draw(pick(kind, hits)), 'string' if kind == 'S' else 'formula'


@st.composite
def single_list_parts(draw, kind, pool, delimiter, nmax=4):
    """Answers JSON (a list) and a student string for one SingleListGrader answer list."""
    n = draw(st.integers(1, nmax))
    items, texts = [], []
    for _ in range(n):
        if len(pool) < 3:
            break
        ans, hits = draw(leaf(kind, pool))
        items.append(ans)
        texts.append(draw(pick(kind, hits, 0.25)))
    mode = draw(st.sampled_from(['same', 'same', 'same', 'drop', 'extra', 'shuffle', 'shuffle']))
    if mode == 'drop' and len(texts) > 1:
        texts.pop(draw(st.integers(0, len(texts) - 1)))
    elif mode == 'extra':
        texts.append(draw(st.sampled_from(wrong_of(kind))))
    elif mode == 'shuffle':
        texts = draw(st.permutations(texts))
    joiner = delimiter + draw(st.sampled_from(['', ' ']))
    return items, joiner.join(texts)


@st.composite
def single_list(draw, as_subgrader=False):
    """A SingleListGrader (possibly nested).  Returns (grader JSON, answers JSON, student text, label)."""
    nested = draw(st.integers(0, 3)) == 0
    kind = 'S' if nested else draw(st.sampled_from(['S', 'S', 'F']))
    pool = fresh_pool(kind)
    kw = {'ordered': draw(st.booleans())}
    if draw(st.integers(0, 4)) == 0:
        kw['partial_credit'] = False
    if nested:
        inner = {'$grader': 'SingleListGrader', 'kw': {'subgrader': leaf_grader('S'), 'ordered': draw(st.booleans())}}
        kw.update(subgrader=inner, delimiter=';')
        rows, texts = [], []
        for _ in range(draw(st.integers(1, 3))):
            items, text = draw(single_list_parts('S', pool, ',', 3))
            if not items:
                break
            rows.append(items)
            texts.append(text)
        if draw(st.integers(0, 3)) == 0 and len(texts) > 1:
            texts = draw(st.permutations(texts))
        answers, text = rows, ';'.join(texts)
    else:
        kw['subgrader'] = leaf_grader(kind)
        answers, text = draw(single_list_parts(kind, pool, ','))
    wrap = draw(st.integers(0, 3))
    if wrap == 1:
        answers = {'expect': answers, 'grade_decimal': draw(st.sampled_from([1, 0.5, 0.8, 1 / 3])),
                   'msg': draw(st.sampled_from(MSGS))}
    elif wrap == 2 and not nested and len(pool) >= 3 * len(answers):
        alt = []
        for _ in answers:
            alt.append(draw(leaf(kind, pool))[0])
        answers = {'$tuple': [answers, {'expect': alt, 'grade_decimal': 0.5}]}
    if not as_subgrader:
        kw['answers'] = answers
        wm = draw(st.sampled_from(['', '', 'Try again!']))
        if wm:
            kw['wrong_msg'] = wm
    return ({'$grader': 'SingleListGrader', 'kw': kw}, answers, text,
            'singlelist-nested' if nested else 'singlelist')


@st.composite
def slot(draw, kind, pools):
    """A slot of a ListGrader: kind in S, F, SL.  Returns (subgrader JSON, answer JSON, student text)."""
    if kind == 'SL':
        g, ans, text, _ = draw(single_list(as_subgrader=True))
        return g, ans, text
    pool = pools[kind]
    if len(pool) < 3:
        pool.extend(fresh_pool(kind))
    ans, hits = draw(leaf(kind, pool))
    return leaf_grader(kind), ans, draw(pick(kind, hits))


@st.composite
def flat_list(draw, nmin=2, nmax=4, as_subgrader=False):
    """A ListGrader over item graders.  Returns (grader JSON, answers JSON list, student inputs list)."""
    n = draw(st.integers(nmin, nmax))
    pools = {'S': fresh_pool('S'), 'F': fresh_pool('F')}
    kw = {}
    if draw(st.integers(0, 5)) == 0:
        kw['partial_credit'] = False
    if draw(st.booleans()):
        kind = draw(st.sampled_from(['S', 'S', 'F', 'SL']))
        if kind == 'SL':
            # one subgrader object grades all the slots: same list options everywhere
            g = None
            answers, texts = [], []
            for _ in range(n):
                g2, a, t = draw(slot('SL', pools))
                if g is None:
                    g = g2
                if g2['kw']['subgrader']['$grader'] != g['kw']['subgrader']['$grader'] or \
                        g2['kw'].get('delimiter') != g['kw'].get('delimiter'):
                    continue
                answers.append(a)
                texts.append(t)
            while len(answers) < 2:
                answers.append(answers[0] if answers else ['cat'])
                texts.append(texts[0] if texts else 'cat')
            sub = g
        else:
            sub = leaf_grader(kind)
            answers, texts = [], []
            for _ in range(n):
                _, a, t = draw(slot(kind, pools))
                answers.append(a)
                texts.append(t)
        kw['subgraders'] = sub
        kw['ordered'] = draw(st.booleans())
        if not kw['ordered'] or draw(st.integers(0, 3)) == 0:
            texts = list(draw(st.permutations(texts)))
    else:
        subs, answers, texts = [], [], []
        for _ in range(n):
            g, a, t = draw(slot(draw(st.sampled_from(['S', 'S', 'F', 'SL'])), pools))
            subs.append(g)
            answers.append(a)
            texts.append(t)
        kw['subgraders'] = subs
        kw['ordered'] = True
    if not as_subgrader:
        kw['answers'] = answers
    return {'$grader': 'ListGrader', 'kw': kw}, answers, list(texts)


def lay_out(grouping, group_texts):
    """Flat student input list from per-group texts according to the grouping list."""
    its = [iter(t) for t in group_texts]
    return [next(its[g - 1]) for g in grouping]


@st.composite
def nested_list(draw):
    """A ListGrader with grouping whose subgraders are ListGraders (and item graders)."""
    if draw(st.booleans()):
        # m groups of equal size graded by one inner ListGrader
        m, k = draw(st.integers(2, 3)), draw(st.integers(2, 3))
        inner, _, _ = draw(flat_list(k, k, as_subgrader=True))
        answers, gtexts = [], []
        for _ in range(m):
            # answers for the inner grader must suit its subgraders: rebuild slots from the inner description
            a, t = draw(group_for(inner, k))
            answers.append(a)
            gtexts.append(t)
        ordered = draw(st.booleans())
        if not ordered or draw(st.integers(0, 3)) == 0:
            gtexts = list(draw(st.permutations(gtexts)))
        grouping = [g + 1 for g in range(m) for _ in range(k)]
        if draw(st.booleans()):
            grouping = list(draw(st.permutations(grouping)))
        kw = {'subgraders': inner, 'ordered': ordered, 'grouping': grouping, 'answers': answers}
    else:
        # ordered list of subgraders: ListGraders for the groups with several inputs, item graders for the rest
        m = draw(st.integers(2, 3))
        subs, answers, gtexts, grouping = [], [], [], []
        pools = {'S': fresh_pool('S'), 'F': fresh_pool('F')}
        for gi in range(m):
            if gi == 0 or draw(st.booleans()):
                k = draw(st.integers(2, 3))
                inner, _, _ = draw(flat_list(k, k, as_subgrader=True))
                a, t = draw(group_for(inner, k))
                subs.append(inner)
                answers.append(a)
                gtexts.append(t)
                grouping += [gi + 1] * k
            else:
                g, a, t = draw(slot(draw(st.sampled_from(['S', 'F', 'SL'])), pools))
                subs.append(g)
                answers.append(a)
                gtexts.append([t])
                grouping.append(gi + 1)
        if draw(st.booleans()):
            grouping = list(draw(st.permutations(grouping)))
        kw = {'subgraders': subs, 'ordered': True, 'grouping': grouping, 'answers': answers}
    if draw(st.integers(0, 5)) == 0:
        kw['partial_credit'] = False
    return {'$grader': 'ListGrader', 'kw': kw}, lay_out(kw['grouping'], gtexts)


@st.composite
def group_for(draw, inner, k):
    """Answers list and student texts of one group for the inner ListGrader description `inner`."""
    subs = inner['kw']['subgraders']
    sublist = subs if isinstance(subs, list) else [subs] * k
    pools = {'S': fresh_pool('S'), 'F': fresh_pool('F')}
    answers, texts = [], []
    for sg in sublist:
        if sg['$grader'] == 'SingleListGrader':
            kind = 'F' if sg['kw']['subgrader']['$grader'] == 'FormulaGrader' else 'S'
            if sg['kw']['subgrader']['$grader'] == 'SingleListGrader':
                rows, ts = [], []
                pool = fresh_pool('S')
                for _ in range(draw(st.integers(1, 2))):
                    items, text = draw(single_list_parts('S', pool, ',', 2))
                    rows.append(items)
                    ts.append(text)
                answers.append(rows)
                texts.append(';'.join(ts))
            else:
                items, text = draw(single_list_parts(kind, fresh_pool(kind), ',', 3))
                answers.append(items)
                texts.append(text)
        else:
            kind = 'F' if sg['$grader'] == 'FormulaGrader' else 'S'
            if len(pools[kind]) < 3:
                pools[kind].extend(fresh_pool(kind))
            a, hits = draw(leaf(kind, pools[kind]))
            answers.append(a)
            texts.append(draw(pick(kind, hits)))
    if not inner['kw'].get('ordered') and not isinstance(subs, list) and draw(st.booleans()):
        texts = list(draw(st.permutations(texts)))
    return answers, texts


@st.composite
def problems(draw):
    which = draw(st.sampled_from(['item', 'item', 'sl', 'sl', 'list', 'list', 'list', 'nested', 'nested']))
    if which == 'item':
        g, inp, label = draw(single_item())
    elif which == 'sl':
        g, _, inp, label = draw(single_list())
    elif which == 'list':
        g, _, inp = draw(flat_list())
        label = 'list'
    else:
        g, inp = draw(nested_list())
        label = 'list-nested'
    return g, inp, label


def table_values():
    grid = st.integers(0, 10000).map(lambda k: k / 10000.0)
    off = st.integers(0, 9998).map(lambda k: k / 10000.0 + 0.00003)
    nice = st.sampled_from([0.0, 1.0, 0.5, 0.3333, 0.25, 0.9999, 0.0001, 0.2, 0.75, 0.125,
                            # equal to 1 at 4 decimals without being 1 (float noise of an author's formula, slow decay)
                            0.9999999999999999, 0.99996, 0.99995, 1 - 1e-9, 0.999949])
    ints = st.sampled_from([0, 1])
    return st.lists(st.one_of(ints, nice, nice, grid, off), min_size=1, max_size=6)


def schedules_for_graders():
    grid = list(grid_schedules())
    return st.one_of(st.sampled_from(grid), st.just({'kind': 'reciprocal'}),
                     st.sampled_from([g for g in grid if g['kind'].startswith('geometric')]),
                     table_values().map(lambda v: {'kind': 'table', 'vals': v}),
                     table_values().map(lambda v: {'kind': 'table', 'vals': v}))


def attempts():
    return st.one_of(st.sampled_from([-3, -2, -1, 0, 0, 1]), st.integers(2, 8), st.integers(2, 8), st.integers(2, 8),
                     st.integers(9, 40))


def strat_graders(tier):
    return st.builds(
        lambda p, s, atts, omit, flag, seed: {'g': p[0], 'inp': p[1], 'label': p[2], 'sched': s,
                                              'attempts': atts, 'omitted_first': omit, 'flag': flag, 'seed': seed},
        problems(), schedules_for_graders(), st.lists(attempts(), min_size=1, max_size=3),
        st.integers(0, 11).map(lambda k: k == 0), st.sampled_from([True, False, None, True, False]),
        st.integers(0, 2 ** 31 - 1))


def judge_graders(spec, rec):
    g, inp, s, flag, seed = spec['g'], spec['inp'], spec['sched'], spec['flag'], spec['seed']
    st_, twin = call(build, g, {})
    if st_ != 'ok':
        if isinstance(twin, (MITxError, SchemaError)):
            raise Discard('generated configuration rejected: ' + type(twin).__name__)
        raise twin
    st_, base = run(twin, inp, seed)
    rec.calls()
    if st_ != 'ok':
        if isinstance(base, MITxError):
            raise Discard('grader without attempt-based credit raises ' + type(base).__name__)
        raise base
    grader = build(g, abc_kwargs(s, flag))
    ref = make_schedule(s)
    rec.cls('grader/' + spec['label'])
    if g['$grader'] == 'ListGrader':
        rec.cls('list/ordered' if g['kw'].get('ordered') else 'list/unordered')
    sched_classes(rec, s)
    if flag is None:
        rec.cls('flag/default')
    obs = []
    if spec['omitted_first']:
        st_, r = run(grader, inp, seed)
        rec.calls()
        rec.cls('attempt/omitted')
        if st_ == 'ok':
            raise Violation('missing-attempt/graded', 'no attempt number given, yet a result came back: %r' % (r,))
        if not isinstance(r, ConfigError):
            raise Violation('missing-attempt/wrong-error', 'no attempt number: %s: %s' % (type(r).__name__, r))
    for attempt in spec['attempts']:
        v = ref(max(attempt, 1))
        if (seed + attempt) % 2 == 0:
            # history: the call before this one FAILED, at another attempt number (a seeded change looked the credit up
            # before grading and kept it for "the rest of the call" - a failing call left it to the next one).  Failing
            # submissions: unbalanced text (raises in formula graders, is merely wrong elsewhere), then the wrong kind
            # of container (a list for a one-box grader, bare text or one box fewer for a multi-box grader)
            for bad in poison_inputs(inp):
                call(grader, None, bad, attempt=attempt + 3)
                rec.calls()
            rec.cls('history/failed-call-at-another-attempt-just-before')
        st_, res = run(grader, inp, seed, attempt=attempt)
        rec.calls()
        if st_ != 'ok':
            raise Violation('raised-with-attempt/' + type(res).__name__,
                            'attempt %d: %s: %s' % (attempt, type(res).__name__, res), base=base)
        m = judge_result(base, res, v, attempt, flag is not False)
        if float(v) != round(float(v), 4):
            rec.cls('credit/off-4-decimal-grid')
        classify(rec, base, m, flag, attempt)
        obs.append({'attempt': attempt, 'credit': m, 'result': res})
    # ... and AFTER the grader has graded with attempt numbers: the attempt omitted, twice in a row - a configuration error
    # each time (a seeded change remembered the last attempt before the failing look-up, so that the call following the
    # error was graded with the stale credit)
    for k in range(2):
        st_, r = call(grader, None, inp if isinstance(inp, str) else list(inp))
        rec.calls()
        if st_ == 'ok':
            raise Violation('missing-attempt/graded', 'no attempt number given (call %d after graded attempts %r), yet a result '
                            'came back: %r' % (k + 1, spec['attempts'], r))
        if not isinstance(r, ConfigError):
            raise Violation('missing-attempt/wrong-error', 'no attempt number: %s: %s' % (type(r).__name__, r))
    rec.cls('attempt/omitted-after-graded-attempts')
    return {'base': base, 'with_credit': obs}


PARTS = [
    Part('schedules', 'enum', judge_schedule, items=items_schedules, exhaustive=True),
    Part('grid-graders', 'enum', judge_grid, items=items_grid, exhaustive=True),
    Part('schedules-random', 'hyp', judge_schedule, strategy=strat_schedules_random,
         budget={'quick': 1500, 'thorough': 40000}),
    Part('graders', 'hyp', judge_graders, strategy=strat_graders, budget={'quick': 6000, 'thorough': 150000}),
]
