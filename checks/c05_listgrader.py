"""C05 - ListGrader gives the best consistent assignment and reports it per input box."""
import itertools

from hypothesis import strategies as st

from vlib.core import call_twice, Part, Violation, call, canonical, watchdog
from vlib import forms
from vlib.models import TableGrader
from vlib.oracles import best_assignments

from mitxgraders import ListGrader, SingleListGrader
from mitxgraders.exceptions import MITxError

RULE = ("A case is a JSON description of a ListGrader tree (leaves: table-driven TableGrader with a generated "
        "{expect: {input: [credit, msg]}} table, or SingleListGrader over such a leaf; inner nodes: nested ListGraders "
        "with or without grouping), its answers (1-3 alternative lists; answers as strings, dicts with grade_decimal/"
        "msg, tuples of alternatives, expect tuples), and an input list that is graded in one, several or ALL of its "
        "permutations. Exhaustive parts (a matrix is realised by columns = input tokens, so every input order of every "
        "matrix is included): every 2x2 credit matrix over {0,.1,1/3,.5,.7,1} x ordered/unordered x partial_credit; "
        "every 3x3 matrix over {0,.5,1} x partial_credit and every 4x4 over {0,1} (unordered; thorough: also 3x3 over "
        "{0,1/3,.7,1}); every pair of 2x2 matrices "
        "over {0,.5,1} as two alternative answer lists; every equal-size grouping of 4/6/8 inputs (unordered) and every "
        "grouping of 2..5 inputs (2..7 in the thorough tier) into contiguous-numbered groups (ordered, list of "
        "subgraders). Random parts: flat graders n=2..6 (all n! input orders for n<=5, 6 sampled orders for n=6) and "
        "grouped/nested graders with up to 8 inputs and depth 3. Oracle: an independent, identically configured copy "
        "of every LEAF grader gives the per-(answer, input) result; everything a ListGrader adds is recomputed by the "
        "check: ordered = positional pairing; unordered = exhaustive search over all m! assignments of inputs (groups) "
        "to answers on the precomputed result matrix; several lists = maximum over lists; partial_credit=False = all "
        "entries grade 0 / ok False unless every entry of the would-be result is ok True; grouping = the entries of a "
        "group sit at the group's input positions in order. Because several optimal assignments / maximal lists may "
        "exist the check is a validity predicate: the reported total equals the optimum (1e-9) and SOME optimal "
        "assignment of SOME maximal list reproduces (grade, ok, msg) at every box (recursively for nested graders). "
        "Non-trivial = unordered with a non-optimal identity assignment and a partial-credit entry in the result, or "
        ">=2 answer lists with different optima, or a grouping with interleaved members; distinct by spec."
        " In a third of the flat cases the subgrader objects first serve a rival ListGrader with the opposite partial-credit / ordering settings.")
ASSUMPTIONS = ["leaf results come from an independent instance of the same leaf grader class with the same config "
               "(TableGrader is deterministic; SingleListGrader leaves are trusted as black boxes here)",
               "credits are products/averages of the palette {0, 0.1, 1/3, 0.5, 0.7, 1} or of a 0.001-grid palette: totals of different assignments "
               "that differ at all differ by > 1e-6, so the 1e-9 tolerance on totals only absorbs rounding of sums",
               "messages are compared modulo the documented newline -> '<br/>' + newline formatting of __call__; in the "
               "zeroed partial_credit=False case only grade and ok are asserted (the statement is silent on messages)",
               "only configurations the documentation allows are built (unordered: one subgrader and equal-size groups; "
               "a list of subgraders only when ordered; groups with more than one member go to a ListGrader); a "
               "construction or grading error on such a configuration is reported as a violation",
               "SingleListGrader leaf inputs have no empty items (missing_error would raise by design)",
               "a grading call is given 10 s (normal: < 5 ms) before it counts as non-terminating"]
REQUIRED = {'flat/unordered': 5000, 'flat/ordered/single-subgrader': 1500, 'flat/ordered/subgrader-list': 250,
            'lists=1': 5000, 'lists=2': 3000, 'lists=3': 500, 'lists/different-optima': 3000,
            'lists/best-not-first': 1500, 'answers/alternatives': 2000, 'n=2': 5000, 'n=3': 5000, 'n=4': 5000,
            'n=5': 300, 'n=6': 250, 'perms/all': 1200, 'perms/sampled-n6': 300, 'pc-off/zeroed': 5000,
            'pc-off/perfect-kept': 3000, 'unordered/identity-not-optimal': 20000,
            'unordered/several-optimal-assignments': 20000, 'result/has-partial-entry': 10000,
            'grouped/unordered': 2000, 'grouped/ordered/subgrader-list': 800, 'grouped/ordered/single-subgrader': 120,
            'grouped/interleaved': 2500, 'grouped/n=7-8': 2000, 'nested/ListGrader': 3000,
            'nested/SingleListGrader': 500, 'nested/depth-3': 100, 'nested/pc-off-zeroed': 300,
            'nested/answer-alternatives': 500}

PAL = [0, 0.1, 1 / 3, 0.5, 0.7, 1]
FINE = [0.495, 0.505, 0.334, 0.336, 0.245, 0.25, 0.755, 0.751, 0.498, 1, 0, 0.502]
TOL = 1e-9


# ----------------------------------------------------------------------------------------------------
# JSON -> library objects


def to_answer(j):
    """JSON answer description -> the python object an author would write."""
    if isinstance(j, str):
        return j
    if isinstance(j, list):
        return [to_answer(x) for x in j]
    if 'alts' in j:
        return tuple(to_answer(x) for x in j['alts'])
    if 'lists' in j:
        return tuple([to_answer(x) for x in lst] for lst in j['lists'])
    d = {'expect': to_answer(j['expect'])}
    for k in ('grade_decimal', 'msg'):
        if k in j:
            d[k] = j[k]
    return d


def build(g, answers=None):
    """A fresh library grader from its JSON description (answers only for the top-level ListGrader)."""
    k = g['k']
    if k == 'T':
        return TableGrader(table=g['table'], wrong_msg=g.get('wrong_msg', ''))
    if k == 'S':
        return SingleListGrader(subgrader=build(g['sub']), ordered=g['ordered'], partial_credit=g['pc'],
                                delimiter=g.get('delim', ','))
    subs = g['subs']
    kw = dict(subgraders=[build(s) for s in subs] if isinstance(subs, list) else build(subs),
              ordered=g['ordered'], partial_credit=g['pc'])
    if g.get('grouping'):
        kw['grouping'] = list(g['grouping'])
    if answers is not None:
        kw['answers'] = to_answer(answers)
    return forms.make(ListGrader, kw)


# ----------------------------------------------------------------------------------------------------
# reference model (only the leaves touch the library, through independent instances)


def same_ok(a, b):
    return a is b or (type(a) is type(b) and a == b)


def norm_msg(m):
    return m.replace('<br/>\n', '\n') if isinstance(m, str) else m


class LeafOutcome:
    def __init__(self, r):
        self.r = {'ok': r['ok'], 'grade_decimal': r['grade_decimal'], 'msg': r['msg']}
        self.total = r['grade_decimal']
        self.size = 1
        self.perfect = r['ok'] is True
        self.zeroed = False

    def matches(self, entries):
        e = entries[0]
        return (e['grade_decimal'] == self.r['grade_decimal'] and same_ok(e['ok'], self.r['ok'])
                and norm_msg(e['msg']) == self.r['msg'])

    def witnesses(self):
        yield [self.r]


class RefLeaf:
    """An independent, identically configured leaf grader (TableGrader or SingleListGrader)."""

    def __init__(self, g):
        self.kind = g['k']
        self.ref = build(g)
        self.validated = {}
        self.cache = {}

    def outcome(self, ans, inp, akey=None):
        akey = akey or canonical(ans)
        key = (akey, inp)
        o = self.cache.get(key)
        if o is None:
            v = self.validated.get(akey)
            if v is None:
                # exactly what ListGrader is documented to do with each element of its answers
                v = self.validated[akey] = self.ref.post_schema_ans_val(self.ref.schema_answers(to_answer(ans)))
            o = self.cache[key] = LeafOutcome(self.ref.check(v, inp))
        return o


class ListOutcome:
    def __init__(self, node, groups, per_list):
        self.node, self.groups = node, groups
        self.size = sum(len(g) for g in groups)
        mx = max(t for t, _, _ in per_list)
        self.list_totals = [t for t, _, _ in per_list]
        self.best = [(li, perms, get) for li, (t, perms, get) in enumerate(per_list) if t >= mx - TOL]
        self.raw_total = mx
        flags = [all(get(a, p[a]).perfect for a in range(len(groups))) for _, perms, get in self.best for p in perms]
        # every entry <= 1, so an optimal result is all-perfect iff the optimum equals the number of boxes:
        # either all optimal results are perfect or none is
        assert all(flags) or not any(flags), 'optimal results disagree on perfection'
        self.perfect = all(flags)
        self.zeroed = (not node.pc) and not self.perfect
        self.total = 0 if self.zeroed else mx
        self.n_witness_assignments = sum(len(perms) for _, perms, _ in self.best)

    def matches(self, entries):
        if self.zeroed:
            return all(e['grade_decimal'] == 0 and e['ok'] is False for e in entries)
        m = len(self.groups)
        for _, perms, get in self.best:
            for p in perms:
                if all(get(a, p[a]).matches([entries[i] for i in self.groups[p[a]]]) for a in range(m)):
                    return True
        return False

    def witnesses(self, limit=200):
        """Entry lists of (some) optimal results - only used to name the failing clause."""
        count = 0
        for _, perms, get in self.best:
            for p in perms:
                parts = []
                for a in range(len(self.groups)):
                    parts.append(next(iter(get(a, p[a]).witnesses())))
                out = [None] * self.size
                pos = {i: k for k, i in enumerate(sorted(i for g in self.groups for i in g))}
                for a in range(len(self.groups)):
                    for i, e in zip(self.groups[p[a]], parts[a]):
                        out[pos[i]] = e
                yield out
                count += 1
                if count >= limit:
                    return


class RefList:
    def __init__(self, g):
        self.kind = 'L'
        self.ordered, self.pc = g['ordered'], g['pc']
        subs = g['subs']
        self.sublist = isinstance(subs, list)
        self.subs = [make_ref(s) for s in subs] if self.sublist else make_ref(subs)
        grouping = g.get('grouping') or []
        if grouping:
            m = max(grouping)
            self.groups = [[i for i, lab in enumerate(grouping) if lab == k + 1] for k in range(m)]
        else:
            self.groups = None
        self.akeys = {}       # id(answer list) -> canonical text of each answer (the spec outlives the judge call)
        self.solved = {}      # (answers, multiset of grouped inputs) -> optimum and optimal assignments
        self.cache = {}

    def sub(self, a):
        return self.subs[a] if self.sublist else self.subs

    def keys_of(self, lst):
        k = self.akeys.get(id(lst))
        if k is None:
            k = self.akeys[id(lst)] = (lst, [canonical(a) for a in lst])
        return k[1]

    def outcome(self, ans, inputs, akey=None):
        ck = (akey or canonical(ans), tuple(inputs))
        o = self.cache.get(ck)
        if o is None:
            o = self.cache[ck] = self.compute(ans, inputs)
        return o

    def compute(self, ans, inputs):
        lists = ans['lists'] if isinstance(ans, dict) else [ans]
        groups = self.groups if self.groups is not None else [[i] for i in range(len(inputs))]
        m = len(groups)
        gin = [inputs[g[0]] if (self.groups is None or len(g) == 1) else [inputs[i] for i in g] for g in groups]
        per_list = []
        for lst in lists:
            assert len(lst) == m
            ak = self.keys_of(lst)
            if self.ordered:
                row = [self.sub(a).outcome(lst[a], gin[a], ak[a]) for a in range(m)]
                per_list.append((sum(o.total for o in row), [tuple(range(m))], (lambda a, g, row=row: row[a])))
                continue
            mat = [[self.sub(a).outcome(lst[a], gin[g], ak[a]) for g in range(m)] for a in range(m)]
            # the n! search is done once per multiset of inputs: a reordering of the inputs only relabels columns
            # (equal inputs give equal columns, so any consistent relabelling is right)
            gk = [x if isinstance(x, str) else '\x00'.join(x) for x in gin]
            order = sorted(range(m), key=lambda g: gk[g])
            sk = (tuple(ak), tuple(gk[g] for g in order))
            hit = self.solved.get(sk)
            if hit is None:
                hit = self.solved[sk] = best_assignments([[mat[a][order[s]].total for s in range(m)]
                                                          for a in range(m)], tol=TOL)
            best, sperms = hit
            perms = [tuple(order[s] for s in p) for p in sperms]
            per_list.append((best, perms, (lambda a, g, mat=mat: mat[a][g])))
        return ListOutcome(self, groups, per_list)


REF_LEAVES = {}


def make_ref(g):
    if g['k'] == 'L':
        return RefList(g)
    key = canonical(g)
    leaf = REF_LEAVES.get(key)
    if leaf is None:
        if len(REF_LEAVES) > 3000:
            REF_LEAVES.clear()
        leaf = REF_LEAVES[key] = RefLeaf(g)
    return leaf


# ----------------------------------------------------------------------------------------------------
# judging one case


def entry_key(e):
    return (repr(e.get('grade_decimal')), repr(e.get('ok')), norm_msg(e.get('msg')))


def check_result(spec, top, inputs, res, rec, tag):
    g = spec['grader']
    n = len(inputs)
    grouped = bool(g.get('grouping'))
    prefix = ('grouped/' if grouped else '') + ('ordered' if g['ordered'] else 'unordered')
    if not (isinstance(res, dict) and isinstance(res.get('input_list'), list) and len(res['input_list']) == n
            and all(isinstance(e, dict) and {'ok', 'grade_decimal', 'msg'} <= set(e) for e in res['input_list'])):
        raise Violation('shape', 'result is not a list of %d entry dicts: %r' % (n, res), inputs=inputs)
    got = res['input_list']
    out = top.outcome(spec['answers'], inputs)
    info = dict(inputs=inputs, got=got, order=tag)
    all_zero = all(e['grade_decimal'] == 0 and e['ok'] is False for e in got)
    if out.zeroed:
        if not all_zero:
            raise Violation('partial-credit-off/not-zeroed',
                            'partial_credit=False and the best result (total %r of %d) is not perfect, yet not every '
                            'entry is graded 0/False' % (out.raw_total, n), **info)
        return out
    if not g['pc'] and all_zero and out.perfect:
        raise Violation('partial-credit-off/zeroed-though-perfect',
                        'partial_credit=False, every entry of the best result is fully correct, yet all were zeroed',
                        **info)
    total = sum(e['grade_decimal'] for e in got)
    if abs(total - out.total) > TOL:
        nl = len(out.list_totals)
        if not g['pc'] and all_zero:
            key = 'partial-credit-off/zeroed-though-perfect'
        elif g['ordered'] and nl == 1:
            key = prefix + '/entries-differ-from-subgrader'
        elif nl > 1 and any(abs(total - t) <= TOL for t in out.list_totals):
            key = 'answer-lists/not-a-maximal-list'
        else:
            key = prefix + '/total-not-maximal'
        raise Violation(key, 'reported total %r, expected %r (per-list optima %r)' % (total, out.total,
                                                                                      out.list_totals), **info)
    if not out.matches(got):
        key = prefix + ('/entries-differ-from-subgrader' if g['ordered'] else
                        '/no-optimal-assignment-reproduces-entries')
        have = sorted(entry_key(e) for e in got)
        for w in out.witnesses():
            if sorted(entry_key(e) for e in w) == have:
                key = prefix + '/results-at-wrong-boxes'
                break
        wit = next(iter(out.witnesses()))
        raise Violation(key, 'total is right (%r) but no optimal assignment of a maximal answer list reproduces the '
                             'entries box by box' % (total,), one_valid_result=wit, **info)
    return out


def depth(g):
    if g['k'] != 'L':
        return 0
    subs = g['subs'] if isinstance(g['subs'], list) else [g['subs']]
    return 1 + max(depth(s) for s in subs)


def walk(g):
    yield g
    if g['k'] == 'L':
        for s in (g['subs'] if isinstance(g['subs'], list) else [g['subs']]):
            yield from walk(s)
    elif g['k'] == 'S':
        yield g['sub']


def has_alternatives(a):
    if isinstance(a, list):
        return any(has_alternatives(x) for x in a)
    if isinstance(a, dict):
        if 'alts' in a:
            return True
        if 'lists' in a:
            return any(has_alternatives(x) for x in a['lists'])
        return has_alternatives(a['expect'])
    return False


def nested_lists(a, top=True):
    if isinstance(a, list):
        return any(nested_lists(x, False) for x in a)
    if isinstance(a, dict):
        if 'lists' in a:
            return (not top) or any(nested_lists(x, False) for lst in a['lists'] for x in lst)
    return False


def orders_of(spec):
    n = len(spec['inputs'])
    p = spec.get('perms')
    if p == 'all':
        return [list(q) for q in itertools.permutations(range(n))]
    if p:
        return [list(q) for q in p]
    return [list(range(n))]


def judge_case(spec, rec):
    g = spec['grader']
    st_, grader = call(build, g, spec['answers'])
    if st_ == 'err':
        raise Violation('config-rejected/' + type(grader).__name__,
                        'a documented configuration was refused: %s' % str(grader)[:300])
    if len(canonical(spec['inputs'])) % 3 == 0 and not g.get('grouping'):
        # object sharing: the subgrader OBJECT(S) of the grader under test also serve a second ListGrader with the
        # opposite partial-credit setting (and the opposite ordering where a single subgrader allows it), which grades
        # the same submission and its reverse first
        subs = grader.config['subgraders']
        kw = dict(subgraders=subs, partial_credit=not g['pc'],
                  ordered=g['ordered'] if isinstance(subs, list) else not g['ordered'], answers=to_answer(spec['answers']))
        st2, rival = call(ListGrader, **kw)
        if st2 == 'ok':
            call(rival, None, list(spec['inputs']))
            call(rival, None, list(reversed(spec['inputs'])))
            rec.calls(2)
            rec.cls('subgrader-objects-shared-with-a-rival-list')
    return judge_built(spec, grader, make_ref(g), rec)


def judge_built(spec, grader, top, rec):
    g = spec['grader']
    base_inputs = spec['inputs']
    n = len(base_inputs)
    grouped = bool(g.get('grouping'))
    orders = orders_of(spec)
    first = None
    summary = []
    for od in orders:
        inputs = [base_inputs[i] for i in od]
        with watchdog(20):
            # (twice on the same grader object: the resubmission must get the same outcome, vlib.core.call_twice)
            status, res = call_twice(grader, lambda: None, None, list(inputs))
        rec.calls(2)
        if status == 'err':
            raise Violation('raised/' + type(res).__name__, 'grading a well-formed submission raised %s: %s'
                            % (type(res).__name__, str(res)[:300]), inputs=inputs)
        out = check_result(spec, top, inputs, res, rec, od)
        classify(spec, g, out, res['input_list'], rec, n, grouped)
        if first is None:
            first = out
        summary.append([round(out.total, 6), out.n_witness_assignments])
    # ---- per-case classes
    nl = len(spec['answers']['lists']) if isinstance(spec['answers'], dict) else 1
    rec.cls('lists=%d' % nl)
    if not grouped:
        rec.cls('n=%d' % n)
        if g['ordered']:
            rec.cls('flat/ordered/' + ('subgrader-list' if isinstance(g['subs'], list) else 'single-subgrader'))
        else:
            rec.cls('flat/unordered')
    else:
        if n >= 7:
            rec.cls('grouped/n=7-8')
        if g['ordered']:
            rec.cls('grouped/ordered/' + ('subgrader-list' if isinstance(g['subs'], list) else 'single-subgrader'))
        else:
            rec.cls('grouped/unordered')
    interleaved = False
    for node in walk(g):
        if node['k'] == 'L' and node.get('grouping'):
            gr = node['grouping']
            for lab in set(gr):
                idx = [i for i, x in enumerate(gr) if x == lab]
                if idx[-1] - idx[0] + 1 != len(idx):
                    interleaved = True
    if interleaved:
        rec.cls('grouped/interleaved')
        rec.nontrivial()
    kinds = [node['k'] for node in walk(g)][1:]
    if 'L' in kinds:
        rec.cls('nested/ListGrader')
    if 'S' in kinds:
        rec.cls('nested/SingleListGrader')
    if depth(g) >= 3:
        rec.cls('nested/depth-3')
    if has_alternatives(spec['answers']):
        rec.cls('answers/alternatives')
    if nested_lists(spec['answers']):
        rec.cls('nested/answer-alternatives')
    if spec.get('perms') == 'all':
        rec.cls('perms/all')
    elif spec.get('perms') and n == 6:
        rec.cls('perms/sampled-n6')
    if nl > 1 and max(first.list_totals) - min(first.list_totals) > TOL:
        rec.cls('lists/different-optima')
        rec.nontrivial()
        if first.list_totals[0] < max(first.list_totals) - TOL:
            rec.cls('lists/best-not-first')
    return {'orders': len(orders), 'total,optimal-assignments': summary[:6]}


def any_nested_zeroed(out):
    """Does some nested ListGrader outcome taking part in an optimal result zero its entries?"""
    if not isinstance(out, ListOutcome):
        return False
    for _, perms, get in out.best:
        for p in perms[:3]:
            for a in range(len(out.groups)):
                o = get(a, p[a])
                if isinstance(o, ListOutcome) and (o.zeroed or any_nested_zeroed(o)):
                    return True
    return False


def classify(spec, g, out, got, rec, n, grouped):
    if not g['pc']:
        rec.cls('pc-off/zeroed' if out.zeroed else 'pc-off/perfect-kept')
    partial = any(e['ok'] == 'partial' for e in got)
    if partial:
        rec.cls('result/has-partial-entry')
    if any_nested_zeroed(out):
        rec.cls('nested/pc-off-zeroed')
    if not g['ordered']:
        if out.n_witness_assignments > 1:
            rec.cls('unordered/several-optimal-assignments')
        m = len(out.groups)
        ident_best = False
        for _, perms, _get in out.best:
            if tuple(range(m)) in [tuple(p) for p in perms]:
                ident_best = True
        if not ident_best:
            rec.cls('unordered/identity-not-optimal')
            if partial:
                rec.nontrivial()


# ----------------------------------------------------------------------------------------------------
# exhaustive parts


ENUM = {}


def enum_family(pal, n, nlists, ordered, pc):
    """One grader for a whole family of credit matrices: the input token 'c<digits>' earns pal[digit r] from answer
    row r (rows = answers of list 0, then of list 1, ...), so a choice of n tokens realises any matrix by columns."""
    key = (tuple(pal), n, nlists, ordered, pc)
    fam = ENUM.get(key)
    if fam is None:
        rows = n * nlists
        tokens = ['c' + ''.join(map(str, d)) for d in itertools.product(range(len(pal)), repeat=rows)]
        lists = [['L%da%d' % (li, a) for a in range(n)] for li in range(nlists)]
        table = {}
        for li in range(nlists):
            for a in range(n):
                r = li * n + a
                table[lists[li][a]] = {t: [pal[int(t[1 + r])], 'm%d.%d.%s' % (li, a, t)]
                                       for t in tokens if pal[int(t[1 + r])]}
        spec = {'grader': {'k': 'L', 'ordered': ordered, 'pc': pc, 'grouping': [],
                           'subs': {'k': 'T', 'table': table, 'wrong_msg': ''}},
                'answers': lists[0] if nlists == 1 else {'lists': lists}}
        fam = ENUM[key] = (spec, build(spec['grader'], spec['answers']), make_ref(spec['grader']))
    return fam


def judge_enum(spec, rec):
    base, grader, top = enum_family(spec['pal'], spec['n'], spec['lists'], spec['ordered'], spec['pc'])
    case = dict(base, inputs=['c' + ''.join(map(str, col)) for col in spec['cols']])
    return judge_built(case, grader, top, rec)


def enum_items(pal, n, nlists, configs):
    rows = n * nlists
    cols = [list(d) for d in itertools.product(range(len(pal)), repeat=rows)]
    for ordered, pc in configs:
        for choice in itertools.product(cols, repeat=n):
            yield {'pal': list(pal), 'n': n, 'lists': nlists, 'ordered': ordered, 'pc': pc, 'cols': list(choice)}


def items_enum2(tier):
    return enum_items(PAL, 2, 1, [(False, True), (False, False), (True, True), (True, False)])


def items_enum3(tier):
    yield from enum_items([0, 0.5, 1], 3, 1, [(False, True), (False, False)])
    yield from enum_items([0, 1], 4, 1, [(False, True)])
    if tier == 'thorough':
        yield from enum_items([0, 1 / 3, 0.7, 1], 3, 1, [(False, True)])


def items_enumlists(tier):
    yield from enum_items([0, 0.5, 1], 2, 2, [(False, True)])
    if tier == 'thorough':
        yield from enum_items([0, 0.7, 1], 2, 2, [(False, False), (True, True)])
        yield from enum_items([0, 1], 2, 3, [(False, True)])


def det_table(expects, tokens, salt):
    """A fixed, irregular credit table with cell-identifying messages."""
    t = {}
    for ei, e in enumerate(expects):
        row = {}
        for ti, s in enumerate(tokens):
            c = PAL[(7 * ei + 3 * ti + ei * ti + salt * (ei + 2 * ti + 1)) % 6]
            row[s] = [c, 'm%s.%s' % (e, s) if c else '']
        t[e] = row
    return t


def grouping_spec(grouping, ordered, variant):
    n, m = len(grouping), max(grouping)
    tokens = ['s%d' % i for i in range(n)]
    sizes = [grouping.count(k + 1) for k in range(m)]
    answers, cnt = [], 0
    for k in range(m):
        names = ['e%d' % (cnt + j) for j in range(sizes[k])]
        cnt += sizes[k]
        answers.append(names[0] if (ordered and sizes[k] == 1) else names)
    allexp = ['e%d' % j for j in range(n)]
    if ordered:
        subs = []
        for k in range(m):
            leaf = {'k': 'T', 'table': det_table(allexp, tokens, variant + k), 'wrong_msg': ''}
            if sizes[k] == 1:
                subs.append(leaf)
            else:
                subs.append({'k': 'L', 'ordered': bool((variant + k) % 2), 'pc': True, 'grouping': [], 'subs': leaf})
    else:
        k = sizes[0]
        if variant % 2:
            inner = [{'k': 'T', 'table': det_table(allexp, tokens, variant + j), 'wrong_msg': ''} for j in range(k)]
            subs = {'k': 'L', 'ordered': True, 'pc': True, 'grouping': [], 'subs': inner}
        else:
            subs = {'k': 'L', 'ordered': False, 'pc': True, 'grouping': [],
                    'subs': {'k': 'T', 'table': det_table(allexp, tokens, variant), 'wrong_msg': ''}}
    return {'grader': {'k': 'L', 'ordered': ordered, 'pc': True, 'grouping': list(grouping), 'subs': subs},
            'answers': answers, 'inputs': tokens}


def equal_groupings(m, k):
    """All arrangements of labels 1..m, each used k times."""
    n = m * k

    def rec_(prefix, left):
        if len(prefix) == n:
            yield list(prefix)
            return
        for lab in range(1, m + 1):
            if left[lab - 1]:
                left[lab - 1] -= 1
                prefix.append(lab)
                yield from rec_(prefix, left)
                prefix.pop()
                left[lab - 1] += 1
    yield from rec_([], [k] * m)


def items_groupings(tier):
    for m, k in [(2, 2), (2, 3), (3, 2), (2, 4), (4, 2)]:
        for gr in equal_groupings(m, k):
            yield {'grouping': gr, 'ordered': False, 'variant': sum((i + 1) * x for i, x in enumerate(gr)) % 4}
    top = 7 if tier == 'thorough' else 5
    for n in range(2, top + 1):
        for gr in itertools.product(range(1, n + 1), repeat=n):
            m = max(gr)
            if m < 2 or set(gr) != set(range(1, m + 1)):
                continue
            yield {'grouping': list(gr), 'ordered': True, 'variant': sum((i + 1) * x for i, x in enumerate(gr)) % 4}


def judge_grouping(spec, rec):
    return judge_case(grouping_spec(spec['grouping'], spec['ordered'], spec['variant']), rec)


# ----------------------------------------------------------------------------------------------------
# random parts


class Gen:
    """Draws one case.  Structure first, then answers, then inputs, then the credit tables."""

    def __init__(self, draw):
        self.draw = draw
        self.nexp = 0
        self.tables = []      # the T leaf dicts ('_e' = expects they may be asked about)
        self.plant = False

    def i(self, lo, hi):
        return self.draw(st.integers(lo, hi))

    def chance(self, pct):
        return self.draw(st.integers(0, 99)) < pct

    def pick(self, seq):
        return self.draw(st.sampled_from(list(seq)))

    # ---- structure
    def new_T(self):
        t = {'k': 'T', 'table': {}, 'wrong_msg': 'W' if self.chance(12) else '', '_e': []}
        self.tables.append(t)
        return t

    def item_shape(self, s_pct=22):
        if self.chance(s_pct):
            return {'k': 'S', 'ordered': self.chance(50), 'pc': self.chance(70), 'sub': self.new_T(),
                    '_cnt': self.i(1, 3)}
        return self.new_T()

    def flat_list(self, n, s_pct=22, force=None):
        mode = force or self.pick(['unordered', 'unordered', 'ordered-single', 'ordered-list'])
        node = {'k': 'L', 'ordered': mode != 'unordered', 'pc': self.chance(70), 'grouping': [], '_m': n}
        if mode == 'ordered-list':
            node['subs'] = [self.item_shape(s_pct) for _ in range(n)]
        else:
            node['subs'] = self.item_shape(s_pct)
        return node

    def list_shape(self, n, level, force=None):
        """A ListGrader description for n inputs; level = nesting depth so far."""
        options = ['flat']
        divisors = [m for m in range(2, n // 2 + 1) if n % m == 0]
        if level < 2 and n >= 3:
            options.append('group-ordered-list')
            if divisors:
                options += ['group-unordered', 'group-ordered-single']
        mode = force or (self.pick(options) if self.chance(45) else 'flat')
        if mode == 'flat':
            return self.flat_list(n)
        node = {'k': 'L', 'ordered': mode != 'group-unordered', 'pc': self.chance(75)}
        if mode == 'group-ordered-list':
            m = self.i(2, min(n - 1, 4))
            cuts = sorted(self.draw(st.lists(st.integers(1, n - 1), min_size=m - 1, max_size=m - 1, unique=True)))
            sizes = [b - a for a, b in zip([0] + cuts, cuts + [n])]
            sizes = self.draw(st.permutations(sizes))
            node['subs'] = [self.item_shape() if sz == 1 else self.list_shape(sz, level + 1) for sz in sizes]
        else:
            m = self.pick(divisors)
            sizes = [n // m] * m
            node['subs'] = self.list_shape(n // m, level + 1)
        labels = [k + 1 for k, sz in enumerate(sizes) for _ in range(sz)]
        if self.chance(75):
            labels = self.draw(st.permutations(labels))
        node['grouping'] = list(labels)
        node['_m'] = len(sizes)
        return node

    # ---- answers
    def newexp(self, T):
        e = 'e%d' % self.nexp
        self.nexp += 1
        T['_e'].append(e)
        return e

    def t_dict(self, T, first):
        d = {'expect': self.newexp(T)}
        d['grade_decimal'] = 1 if (first and (self.plant or self.chance(55))) else self.pick([1, 0.5, 0.7, 0.1, 0])
        if self.chance(35):
            d['msg'] = 'A' + d['expect']
        return d

    def t_answer(self, T, simple=False):
        form = 'plain' if simple and not self.chance(30) else self.pick(
            ['plain', 'plain', 'dict', 'dict', 'alts', 'alts', 'exptuple'])
        if form == 'plain':
            return self.newexp(T)
        if form == 'dict':
            return self.t_dict(T, True)
        if form == 'exptuple':
            d = self.t_dict(T, True)
            d['expect'] = {'alts': [d['expect'], self.newexp(T)]}
            return d
        first = self.t_dict(T, True) if self.chance(70) else self.newexp(T)
        return {'alts': [first] + [self.t_dict(T, False) for _ in range(self.i(1, 2))]}

    def s_answer(self, S):
        T = S['sub']
        cnt = S['_cnt'] if self.plant else self.i(1, 3)

        def items():
            return [self.t_answer(T, simple=True) for _ in range(cnt)]
        form = self.pick(['list', 'list', 'dict', 'alts'])
        if form == 'list':
            return items()
        d = {'expect': items(), 'grade_decimal': 1 if self.plant else self.pick([1, 1, 0.5, 0.7]),
             'msg': self.pick(['', 'SL%d' % self.nexp])}
        if form == 'dict':
            return d
        return {'alts': [d, {'expect': items(), 'grade_decimal': self.pick([1, 0.5, 0.1]), 'msg': ''}]}

    def answer_for(self, node, nlists=None):
        if node['k'] == 'T':
            return self.t_answer(node)
        if node['k'] == 'S':
            return self.s_answer(node)
        m = node['_m']
        subs = node['subs']
        if nlists is None:
            nlists = 2 if self.chance(18) else 1

        def one():
            return [self.answer_for(subs[a] if isinstance(subs, list) else subs) for a in range(m)]
        if nlists == 1:
            return one()
        return {'lists': [one() for _ in range(nlists)]}

    # ---- inputs
    def leaf_at(self, node, n):
        """The leaf description that grades each of the n input positions of a ListGrader node."""
        subs = node['subs']
        if not node.get('grouping'):
            return [subs[i] if isinstance(subs, list) else subs for i in range(n)]
        out = [None] * n
        for k in range(node['_m']):
            idx = [i for i, lab in enumerate(node['grouping']) if lab == k + 1]
            sub = subs[k] if isinstance(subs, list) else subs
            if sub['k'] == 'L':
                for i, leaf in zip(idx, self.leaf_at(sub, len(idx))):
                    out[i] = leaf
            else:
                out[idx[0]] = sub
        return out

    def inputs_for(self, node, n):
        inputs, tokens = [], []
        for i, leaf in enumerate(self.leaf_at(node, n)):
            if leaf['k'] == 'S':
                cnt = leaf['_cnt'] if self.plant else self.i(1, 3)
                toks = ['s%dx%d' % (i, j) for j in range(cnt)]
                if cnt > 1 and self.chance(15):
                    toks[1] = toks[0]
                tokens += toks
                inputs.append(self.pick([',', ', ']).join(toks))
            else:
                tok = 's%d' % i
                if i and leaf['k'] == 'T' and self.chance(6):
                    prev = [t for t in inputs[:i] if ',' not in t]
                    if prev:
                        tok = self.pick(prev)       # two boxes with the same entry
                tokens.append(tok)
                inputs.append(tok)
        return inputs, sorted(set(tokens))

    # ---- tables
    def fill_tables(self, tokens):
        for T in self.tables:
            exps = T.pop('_e')
            # FINE: credits on a 0.001 grid - assignments whose totals differ by a few thousandths (a seeded change
            # rounded the assignment costs to whole percents)
            pal = self.pick([PAL, PAL, PAL, [0, 1], [0, 0.5, 1], [0, 0, 0] + PAL, [0.5, 1], [0, 0, 1, 0.7], FINE, FINE])
            if pal is FINE:
                self.fine = True
            cells = len(exps) * len(tokens)
            if not cells:
                continue
            vals = self.draw(st.lists(st.sampled_from(pal), min_size=cells, max_size=cells))
            mflag = self.draw(st.lists(st.integers(0, 9), min_size=cells, max_size=cells))
            k = 0
            for e in exps:
                row = {}
                for s in tokens:
                    c, f = vals[k], mflag[k]
                    k += 1
                    msg = 'm%s.%s' % (e, s) if (c and f < 5) or f == 9 else ''
                    if c or msg:
                        row[s] = [c, msg]
                T['table'][e] = row

    # ---- planting a perfect solution
    @staticmethod
    def first_expect(a):
        while not isinstance(a, str):
            a = a['alts'][0] if 'alts' in a else a['expect']
        return a

    def plant_at(self, node, ans, inp):
        if node['k'] == 'T':
            e = self.first_expect(ans)
            node['table'].setdefault(e, {})[inp.strip()] = [1, 'ok' + e if self.chance(30) else '']
            return
        if node['k'] == 'S':
            a = ans
            while not isinstance(a, list):
                a = a['alts'][0] if 'alts' in a else a['expect']
            toks = [t.strip() for t in inp.split(',')]
            if len(toks) == len(a):
                for item, tok in zip(a, toks):
                    self.plant_at(node['sub'], item, tok)
            return
        lst = ans['lists'][self.i(0, len(ans['lists']) - 1)] if isinstance(ans, dict) else ans
        m = node['_m']
        if node.get('grouping'):
            groups = [[i for i, lab in enumerate(node['grouping']) if lab == k + 1] for k in range(m)]
        else:
            groups = [[i] for i in range(m)]
        gin = [inp[g[0]] if (not node.get('grouping') or len(g) == 1) else [inp[i] for i in g] for g in groups]
        q = list(range(m)) if node['ordered'] else list(self.draw(st.permutations(range(m))))
        subs = node['subs']
        for a in range(m):
            self.plant_at(subs[a] if isinstance(subs, list) else subs, lst[a], gin[q[a]])

    # ---- whole case
    def case(self, node, n, nlists):
        answers = self.answer_for(node, nlists)
        inputs, tokens = self.inputs_for(node, n)
        self.fill_tables(tokens)
        if self.plant:
            self.plant_at(node, answers, inputs)
        return {'grader': clean(node), 'answers': answers, 'inputs': inputs}


def clean(node):
    if isinstance(node, list):
        return [clean(x) for x in node]
    if isinstance(node, dict) and 'k' in node:
        return {k: clean(v) if k in ('subs', 'sub') else v for k, v in node.items() if not k.startswith('_')}
    return node


@st.composite
def flat_cases(draw):
    gen = Gen(draw)
    n = gen.pick([2, 3, 3, 4, 4, 5, 5, 6, 6])
    nlists = gen.pick([1, 1, 1, 2, 2, 3, 3])
    node = gen.flat_list(n, s_pct=8)
    if gen.chance(35):
        node['pc'] = False
    gen.plant = gen.chance(45 if not node['pc'] else 12)
    spec = gen.case(node, n, nlists)
    if n <= 5:
        spec['perms'] = 'all'
    else:
        spec['perms'] = [list(draw(st.permutations(range(n)))) for _ in range(6)]
    return spec


@st.composite
def grouped_cases(draw):
    gen = Gen(draw)
    mode = gen.pick(['group-unordered', 'group-unordered', 'group-ordered-list', 'group-ordered-list',
                     'group-ordered-single'])
    if mode == 'group-ordered-list':
        n = gen.pick([3, 4, 5, 6, 7, 7, 8, 8])
    else:
        n = gen.pick([4, 6, 6, 8, 8])
    node = gen.list_shape(n, 0, force=mode)
    if gen.chance(25):
        node['pc'] = False
    gen.plant = gen.chance(40 if not node['pc'] else 15)
    spec = gen.case(node, n, gen.pick([1, 1, 1, 2, 3]))
    k = gen.pick([0, 0, 2])
    if k:
        spec['perms'] = [list(range(n))] + [list(draw(st.permutations(range(n)))) for _ in range(k)]
    return spec



# ----------------------------------------------------------------------------------------------------
# 'sibling-history' (exhaustive): ordered ListGraders whose answers refer to the submissions of sibling boxes; every
# sequence of up to three submissions (some of which make a subgrader raise) on ONE grader object; every returned
# result is (i) what a freshly built grader returns for that submission and (ii) what the arithmetic says

SIB_SUBMISSIONS = [['2', '4', '6'], ['3', '9', '12'], ['3', '9+', '12'], ['2', '5', '7'], ['(', '1', '1'], ['3', '4', '7'],
                   ['2', '4', '']]


def _sib_grader():
    from mitxgraders import FormulaGrader
    return ListGrader(answers=['sibling_3-sibling_2', 'sibling_1^2', 'sibling_1+sibling_2'],
                      subgraders=FormulaGrader(), ordered=True)


def _sib_expected(sub):
    try:
        a, b, c = [float(x) for x in sub]
    except ValueError:
        return None
    return [abs(a - (c - b)) < 1e-9, abs(b - a * a) < 1e-9, abs(c - (a + b)) < 1e-9]


def items_sibling_history(tier):
    n = len(SIB_SUBMISSIONS)
    for L in (1, 2, 3):
        for seq in itertools.product(range(n), repeat=L):
            yield {'seq': list(seq)}


def judge_sibling_history(spec, rec):
    g = _sib_grader()
    raised = False
    after_raise = False
    for n, k in enumerate(spec['seq']):
        sub = SIB_SUBMISSIONS[k]
        st_, res = call(g, None, list(sub))
        st_f, res_f = call(_sib_grader(), None, list(sub))
        rec.calls(2)
        where = 'submission %r after %r on one ordered ListGrader with sibling answers' % (
            sub, [SIB_SUBMISSIONS[j] for j in spec['seq'][:n]])
        if st_ != st_f or (st_ == 'ok' and res != res_f) or (st_ == 'err' and (type(res) is not type(res_f) or str(res) != str(res_f))):
            raise Violation('sibling-history/differs-from-fresh-grader', '%s: %s, a freshly built grader: %s' % (
                where, (st_, str(res)[:200]), (st_f, str(res_f)[:200])))
        exp = _sib_expected(sub)
        if st_ == 'ok' and exp is not None:
            got = [e['ok'] is True for e in res['input_list']]
            if got != exp:
                raise Violation('sibling-history/entry-not-what-the-subgrader-gives', '%s: entries %r, the sibling arithmetic '
                                'gives %r' % (where, got, exp))
            if raised:
                after_raise = True
        if st_ == 'err':
            if not isinstance(res, MITxError):
                raise res
            raised = True
    rec.cls('sibling-history/judged')
    if after_raise:
        rec.cls('sibling-history/graded-after-a-raising-call')
    rec.nontrivial(after_raise)
    return {'seq': spec['seq']}



# ----------------------------------------------------------------------------------------------------
# 'nested-reuse' (exhaustive): ONE ListGrader / SingleListGrader object with answers of its own serves as the nested
# subgrader of an outer ListGrader AND grades its own problem; building and using the outer grader must not change what
# the inner one does with its own answers (a seeded change stored the outer grader's group answers in the inner config)

def _nested_world(kind, unordered_inner):
    from mitxgraders import StringGrader
    if kind == 'list':
        inner = ListGrader(answers=['a', 'b', 'c'], subgraders=StringGrader(), ordered=not unordered_inner)
        fresh = ListGrader(answers=['a', 'b', 'c'], subgraders=StringGrader(), ordered=not unordered_inner)
        outer = lambda: ListGrader(answers=[['x', 'y', 'z'], ['p', 'q', 'r']], subgraders=inner,     # noqa: E731
                                   grouping=[1, 1, 1, 2, 2, 2])
        own = [['a', 'b', 'c'], ['c', 'a', 'b'], ['a', 'b', 'x'], ['p', 'q', 'r'], ['x', 'y', 'z']]
        outer_in = [['x', 'y', 'z', 'p', 'q', 'r'], ['p', 'q', 'r', 'x', 'y', 'z'], ['x', 'y', 'a', 'p', 'q', 'b']]
    else:
        inner = SingleListGrader(answers=['a', 'b', 'c'], subgrader=StringGrader(), ordered=not unordered_inner)
        fresh = SingleListGrader(answers=['a', 'b', 'c'], subgrader=StringGrader(), ordered=not unordered_inner)
        outer = lambda: ListGrader(answers=[['x', 'y', 'z'], ['p', 'q', 'r']], subgraders=inner)      # noqa: E731
        own = ['a, b, c', 'c, a, b', 'a, b, x', 'p, q, r', 'x, y, z']
        outer_in = [['x, y, z', 'p, q, r'], ['p, q, r', 'x, y, z'], ['x, y, a', 'p, q, b']]
    return inner, fresh, outer, own, outer_in


def items_nested_reuse(tier):
    for kind in ('list', 'single'):
        for unordered in (False, True):
            for plan in ('outer-built', 'outer-built-and-used', 'inner-used-then-outer-used'):
                yield {'kind': kind, 'unordered': unordered, 'plan': plan}


def judge_nested_reuse(spec, rec):
    inner, fresh, outer, own, outer_in = _nested_world(spec['kind'], spec['unordered'])
    if spec['plan'] == 'inner-used-then-outer-used':
        for sub in own:
            call(inner, None, sub if isinstance(sub, str) else list(sub))
    og = outer()
    if spec['plan'] != 'outer-built':
        for sub in outer_in:
            call(og, None, list(sub))
    for sub in own:
        arg = sub if isinstance(sub, str) else list(sub)
        st_, res = call(inner, None, arg)
        st_f, res_f = call(fresh, None, sub if isinstance(sub, str) else list(sub))
        rec.calls(2)
        if st_ != st_f or (st_ == 'ok' and res != res_f) or (st_ == 'err' and type(res) is not type(res_f)):
            raise Violation('nested-reuse/own-problem-graded-differently', '%s grader with its own answers [a, b, c], also '
                            'nested in an outer ListGrader (%s): submission %r gives %s, a grader that was never nested gives '
                            '%s' % (spec['kind'], spec['plan'], sub, (st_, str(res)[:160]), (st_f, str(res_f)[:160])))
    rec.cls('nested-reuse/judged')
    rec.nontrivial()
    return {'plan': spec['plan']}


# ----------------------------------------------------------------------------------------------------
# "fully correct" is said of every entry: credits one rounding step below 1 (0.7+0.2+0.1 = 1-2^-53, 1-2^-52) next to
# full credits.  n additions of such numbers round back to exactly n, so a zeroing rule phrased through a sum or a mean
# sees a perfect submission (a seeded change did that).  Each input matches exactly one answer: the assignment is unique.

NEAR_ONE = [0.7 + 0.2 + 0.1, 1 - 2.0 ** -52, 0.9999999999999]
N1_TOKENS = ['a', 'b', 'c', 'd', 'e', 'f']


def items_near_one(tier):
    for n in range(2, 7):
        for near in NEAR_ONE:
            for mask in range(1, 2 ** n):
                if bin(mask).count('1') > 3:
                    continue
                for ordered in (True, False):
                    yield {'n': n, 'near': near, 'mask': mask, 'ordered': ordered}


def judge_near_one(spec, rec):
    from mitxgraders import StringGrader
    n, near, mask = spec['n'], spec['near'], spec['mask']
    credits = [near if mask >> i & 1 else 1 for i in range(n)]
    answers = [{'expect': N1_TOKENS[i], 'grade_decimal': credits[i]} for i in range(n)]
    inputs = N1_TOKENS[:n]
    if not spec['ordered']:
        inputs = inputs[1:] + inputs[:1]
    g = ListGrader(answers=answers, subgraders=StringGrader(), ordered=spec['ordered'], partial_credit=False)
    kind, res = call_twice(g, lambda: None, None, list(inputs))
    rec.calls(2)
    if kind != 'ok':
        raise res
    got = res['input_list']
    rec.nontrivial()
    rec.cls('near-one/judged')
    if not all(e['grade_decimal'] == 0 and e['ok'] is False for e in got):
        raise Violation('partial-credit-off/not-zeroed',
                        'partial_credit=False, item credits %r (so %d entr%s not fully correct), yet the entries are %r'
                        % (credits, bin(mask).count('1'), 'y is' if bin(mask).count('1') == 1 else 'ies are',
                           [(e['ok'], e['grade_decimal']) for e in got]), inputs=inputs)
    # the same submission with partial credit on: each box keeps its own credit
    g2 = ListGrader(answers=answers, subgraders=StringGrader(), ordered=spec['ordered'], partial_credit=True)
    res2 = g2(None, list(inputs))
    want = sorted(credits)
    if sorted(e['grade_decimal'] for e in res2['input_list']) != want:
        raise Violation('unordered/total-not-maximal' if not spec['ordered'] else 'ordered/entries-differ-from-subgrader',
                        'item credits %r but entries %r' % (credits, res2['input_list']), inputs=inputs)
    return {'credits': credits, 'entries': [(e['ok'], e['grade_decimal']) for e in got]}


PARTS = [
    Part('nested-reuse', 'enum', judge_nested_reuse, items=items_nested_reuse, exhaustive=True, shards=4),
    Part('sibling-history', 'enum', judge_sibling_history, items=items_sibling_history, exhaustive=True),
    Part('near-one', 'enum', judge_near_one, items=items_near_one, exhaustive=True),
    Part('enum2', 'enum', judge_enum, items=items_enum2, exhaustive=True),
    Part('enum3', 'enum', judge_enum, items=items_enum3, exhaustive=True),
    Part('enumlists', 'enum', judge_enum, items=items_enumlists, exhaustive=True),
    Part('groupings', 'enum', judge_grouping, items=items_groupings, exhaustive=True),
    Part('flat', 'hyp', judge_case, strategy=lambda tier: flat_cases(), budget={'quick': 2400, 'thorough': 60000}),
    Part('grouped', 'hyp', judge_case, strategy=lambda tier: grouped_cases(),
         budget={'quick': 1800, 'thorough': 45000}),
]
