"""Construction forms: every library object with a schema accepts its options as keyword arguments or as ONE positional
dictionary ("cls(**kw)" and "cls(kw)" are documented as equivalent).  The checks' builders go through `make` so that
both spellings occur for every option combination; which one is used is a pure function of `salt` (an int, or a
JSON-able value), so a case replays identically.

Why: a seeded change made MatrixGrader look for entry_partial_credit in its keyword arguments only - a dictionary
configured grader silently kept the plain comparer.  Builders that only ever write keywords cannot see that.
"""
import json
import zlib


def pick(salt, n=2):
    if not isinstance(salt, int):
        try:
            text = json.dumps(salt, sort_keys=True, default=lambda o: type(o).__name__)
        except (TypeError, ValueError):       # keys that JSON cannot write: fall back to the option names
            text = ','.join(sorted(str(k) for k in salt)) if isinstance(salt, dict) else type(salt).__name__
        salt = zlib.crc32(text.encode())
    return salt % n


def make(cls, kw, salt=None):
    if salt is None:
        salt = kw
    if pick(salt) == 1:
        return cls(dict(kw))
    return cls(**kw)
