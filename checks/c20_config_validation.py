"""C20 - configuration validation enforces the documented option domains and fills the documented defaults.

The option tables below (option name, documented default, in-domain pool, out-of-domain pool) are transcribed BY HAND
from the docs under /repo/docs ("Option Listing" sections, sampling.md, comparer_functions.md, graders.md,
matrix_grader.md, interval_grader.md, sum_grader.md) and from the class doc-strings.  They are NOT derived from the
schema objects: the check compares documentation with behaviour.  Pool values are Python expression strings that are
evaluated in a fixed namespace (fresh objects for every construction, JSON-able specs, replayable).
"""
import numbers

import numpy as np
from hypothesis import strategies as st

from vlib.core import Part, Violation, Discard, call

import mitxgraders
from mitxgraders import *  # noqa: F401,F403 - namespace for the pool expressions
from mitxgraders.baseclasses import ObjectWithSchema
from mitxgraders.exceptions import ConfigError
from mitxgraders.helpers.calc import MathArray
from mitxgraders.helpers.calc.specify_domain import SpecifyDomain
from mitxgraders.sampling import set_seed
from voluptuous import Error as VError

RULE = ("Cases are configurations {class, option -> value expression}. Exhaustive parts: every single-option "
        "deviation from the base configuration with every value of the hand-transcribed in-domain and out-of-domain "
        "pools (plus an unknown option name) for 36 public classes; every listed cross-option rule scenario with its "
        "valid near-miss; every SquareMatrices symmetry/traceless/determinant/complex/dimension combination. Random "
        "parts: multi-option combinations (values from both pools) and randomly built answers structures (string, "
        "dict, tuples, tuple-valued expect, lists and tuples of lists) with random defects. Oracle: in-domain and "
        "rules satisfied -> both the keyword and the dictionary form construct, are equal, config holds every "
        "documented option with the documented default when omitted, answers are in the canonical tuple-of-dicts "
        "form computed independently, and (graders) Cls(obj.config) constructs, is equal and grades probes "
        "identically; otherwise both forms raise voluptuous.Error or ConfigError (anything else is a foreign "
        "exception). Non-trivial = at least one option differs from its documented default, or a rule scenario, or "
        "a non-string answers format; distinct by spec.")
ASSUMPTIONS = [
    "option domains and defaults are those written in /repo/docs and the class doc-strings; where two documents "
    "disagree (SumGrader samples 1 vs 2, GeometricCredit factor 0.5 vs 0.75, LinearComparer *_msg None vs '') every "
    "documented value is accepted as the default; values the documents do not settle are in neither pool "
    "(delimiter '' and multi-character delimiters, bool where int is documented, None for IntervalGrader.subgrader, "
    "SingleListGrader answers=[], answer tuples of unequal length, grade ranges of LinearComparer credits)",
    "exceptions counted as 'configuration or validation error': voluptuous.Error and mitxgraders ConfigError",
    "re-validation idempotence (Cls(obj.config) == obj, identical grading of probes) is claimed for graders only",
    "scipy is absent: IntegralGrader is out of scope; Orthogonal/UnitaryMatrices are constructed but never sampled",
]
REQUIRED = {'accepted-in-domain': 600, 'rejected-out-of-domain': 600, 'cross-rule-violation': 60,
            'defaults-checked': 600, 'kwargs-dict-equal': 600, 'roundtrip-grader': 300, 'answers-canonical': 200,
            'unknown-option': 30, 'multi-option': 300, 'answers-format/tuple': 50, 'answers-format/dict': 50,
            'answers-format/tuple-expect': 30, 'answers-format/list': 50, 'answers-format/tuple-of-lists': 30}

OK_ERRORS = (VError, ConfigError)


# ----------------------------------------------------------------------------------------------------------------
# namespace for the pool expressions

def f1(x):
    """unary function"""
    return x * x


def f2(x, y):
    return x + y


def cmp3(comparer_params_eval, student_eval, utils):
    """a comparer function with the documented three-argument signature"""
    return utils.within_tolerance(comparer_params_eval[0], student_eval)


NS = {k: v for k, v in vars(mitxgraders).items() if not k.startswith('_')}
NS.update({'np': np, 'MathArray': MathArray, 'SpecifyDomain': SpecifyDomain, 'f1': f1, 'f2': f2, 'cmp3': cmp3,
           '__builtins__': {'True': True, 'False': False, 'None': None, 'abs': abs, 'float': float, 'len': len}})


def ev(expr):
    """evaluate a pool expression: a fresh object every time"""
    return eval(expr, NS)  # noqa: S307 - hand-written constant expressions of this module only


# ----------------------------------------------------------------------------------------------------------------
# structural comparison that is safe for arrays, library objects and NaN

def same(a, b):
    if isinstance(a, ObjectWithSchema) or isinstance(b, ObjectWithSchema):
        return type(a) is type(b) and same(a.config, b.config)
    if isinstance(a, np.ndarray) or isinstance(b, np.ndarray):
        if not (isinstance(a, np.ndarray) and isinstance(b, np.ndarray)):
            return False
        return type(a) is type(b) and a.shape == b.shape and bool(np.array_equal(np.asarray(a), np.asarray(b)))
    if isinstance(a, dict) or isinstance(b, dict):
        if not (isinstance(a, dict) and isinstance(b, dict)) or set(a) != set(b):
            return False
        return all(same(a[k], b[k]) for k in a)
    if isinstance(a, (list, tuple)) or isinstance(b, (list, tuple)):
        if type(a) is not type(b) or len(a) != len(b):
            return False
        return all(same(x, y) for x, y in zip(a, b))
    if isinstance(a, bool) or isinstance(b, bool):
        return a is b
    if isinstance(a, numbers.Number) and isinstance(b, numbers.Number):
        if a != a and b != b:
            return True
        return a == b
    if callable(a) or callable(b):
        return a is b or (type(a) is type(b) and a == b)
    return type(a) is type(b) and a == b


def snap_cfg(o):
    """Structural fingerprint of option objects: containers by content, numbers / strings / None by value, arrays by bytes,
    library objects by their configuration, everything else (functions ...) by identity."""
    if isinstance(o, dict):
        return ('dict', tuple((repr(k), snap_cfg(v)) for k, v in o.items()))
    if isinstance(o, (list, tuple)):
        return (type(o).__name__, tuple(snap_cfg(x) for x in o))
    if isinstance(o, np.ndarray):
        return ('array', o.shape, o.tobytes())
    if isinstance(o, (str, bytes, numbers.Number)) or o is None:
        return ('value', type(o).__name__, repr(o))
    if isinstance(o, ObjectWithSchema):
        return ('object', type(o).__name__, id(o), snap_cfg(o.config))
    return ('id', id(o))


def brief(o, n=160):
    try:
        s = repr(o)
    except Exception:  # noqa: BLE001
        s = '<unprintable %s>' % type(o).__name__
    return s if len(s) <= n else s[:n] + '...'


def as_range(v):
    if isinstance(v, dict) and set(v) == {'start', 'stop'}:
        return (v['start'], v['stop'])
    if isinstance(v, list) and len(v) == 2:
        return (v[0], v[1])
    return None


def as_shape(v):
    if isinstance(v, bool):
        return None
    if isinstance(v, int):
        return (v,)
    if isinstance(v, (list, tuple)):
        return tuple(v)
    return None


def as_pct(v):
    if isinstance(v, str) and v.strip().endswith('%'):
        try:
            return ('%', float(v.strip()[:-1]))
        except ValueError:
            return None
    if isinstance(v, numbers.Number) and not isinstance(v, bool):
        return ('abs', v)
    return None


def default_matches(cmp, got, want):
    """does the configuration value `got` carry the documented default `want`?"""
    if cmp == 'range':          # docs: a list [start, stop] and a dictionary {'start':..,'stop':..} are the same thing
        return as_range(got) is not None and as_range(got) == as_range(want)
    if cmp == 'shape':          # docs: shapes are standardized to tuples
        return as_shape(got) is not None and as_shape(got) == as_shape(want)
    if cmp == 'tol':            # '5%' and '5.0%' are the same percentage
        return as_pct(got) is not None and as_pct(got) == as_pct(want)
    if cmp == 'empty':          # default [] / no answers: canonical form is an empty tuple
        return isinstance(got, (tuple, list)) and len(got) == 0
    if cmp == 'transform':      # documented default None; the code comment documents coercion to the identity function
        marker = object()
        return got is None or (callable(got) and got(marker) is marker)
    return same(got, want)


# ----------------------------------------------------------------------------------------------------------------
# option tables (hand-transcribed from the documentation)

class O:
    """one documented option: default (expression, list of accepted expressions when documents disagree, or None when
    there is no documented default), in-domain pool, out-of-domain pool, comparison mode for the default"""

    def __init__(self, default, good, bad, cmp=None, absent=False):
        self.defaults = [] if default is None else (list(default) if isinstance(default, list) else [default])
        self.good, self.bad, self.cmp, self.absent = list(good), list(bad), cmp, absent
        for d in self.defaults:
            if d not in self.good:
                self.good.append(d)


class C:
    def __init__(self, kind, base, opts, probes=(), unknown=True):
        self.kind, self.base, self.opts, self.probes, self.unknown = kind, dict(base), dict(opts), list(probes), unknown


BOOL_BAD = ['None', '0', '1', "'True'", '[]', '2.5']
STR_BAD = ['None', '5', "['a']", 'True', "{'a': 1}"]
NONNEG_INT_BAD = ['-1', '2.5', '1.0', "'3'", 'None', '[1]']
POS_INT_BAD = ['0', '-1', '2.5', '1.0', "'3'", 'None', '[1]']
RANGE_GOOD = ['[0, 1]', '[-5, 0]', '[2, 2]', "{'start': 0, 'stop': 2}", '[0.5, 10]']
RANGE_BAD = ['[1]', '[1, 2, 3]', "'ab'", 'None', '5', "['a', 'b']", '(1, 2)', "{'start': 'a', 'stop': 2}",
             "{'begin': 1, 'stop': 2}"]


def bool_opt(default):
    return O(default, ['True', 'False'], BOOL_BAD)


def abstract_opts():
    # graders.md "Option Listing" + AbstractGrader doc-string
    return {
        'debug': bool_opt('False'),
        'suppress_warnings': bool_opt('False'),
        'attempt_based_credit': O('None', ['LinearCredit()', 'GeometricCredit(factor=0.5)', 'ReciprocalCredit()',
                                           'LinearCredit(decrease_credit_after=2, minimum_credit=0.5)', 'f1'],
                                  ['5', "'abc'", '[]', 'True', "{'f': f1}"]),
        'attempt_based_credit_msg': bool_opt('True'),
    }


def item_opts(answers_good, answers_bad):
    d = abstract_opts()
    d['wrong_msg'] = O("''", ["'Try again!'", "'w'"], STR_BAD)
    d['answers'] = O('()', answers_good, answers_bad, cmp='empty')
    return d


STRING_ANS_GOOD = ["'cat'", "''", "('cat', 'dog')", "{'expect': 'cat'}",
                   "{'expect': 'zebra', 'grade_decimal': 1, 'msg': 'Yay!'}",
                   "{'expect': 'cat', 'grade_decimal': 0.5, 'msg': 'm'}",
                   "{'expect': ('a', 'b'), 'grade_decimal': 0}",
                   "{'expect': 'cat', 'ok': 'partial'}", "{'expect': 'cat', 'ok': False, 'grade_decimal': 0.25}",
                   "{'expect': 'cat', 'ok': 'computed', 'msg': 'k'}",
                   "('wolf', 'canis lupus', {'expect': 'dog', 'grade_decimal': 0.5, 'msg': 'No, not dog!'}, "
                   "{'expect': 'unicorn', 'grade_decimal': 0, 'msg': 'No!'}, "
                   "{'expect': ('werewolf', 'vampire'), 'grade_decimal': 0, 'msg': 'Wrong universe!'})"]
STRING_ANS_BAD = ['5', 'None', "['cat']", "{'grade_decimal': 1}", "{'expect': 'cat', 'grade_decimal': 2}",
                  "{'expect': 'cat', 'grade_decimal': -0.1}", "{'expect': 'cat', 'grade_decimal': '1'}",
                  "{'expect': 'cat', 'msg': 5}", "{'expect': 'cat', 'nosuch': 1}", "{'expect': 5}",
                  "('cat', 5)", "{'expect': 'cat', 'ok': 'yes'}", "{'expect': ('a', 5)}", "{'expect': ['a', 'b']}",
                  "{'expect': 'cat', 'grade_decimal': None}", "{'expect': 'cat', 'grade_decimal': float('nan')}"]

FORMULA_ANS_GOOD = ["'x+1'", "('x+1', 'x')", "{'expect': 'x', 'grade_decimal': 0.3}",
                    "{'expect': ('x', 'x*1'), 'msg': 'm'}",
                    "{'expect': {'comparer_params': ['x', '2'], 'comparer': congruence_comparer}}",
                    "{'comparer_params': ['x'], 'comparer': LinearComparer()}",
                    "{'expect': {'comparer_params': ['x'], 'comparer': cmp3}, 'grade_decimal': 0.5}",
                    "('x', {'expect': '2*x', 'grade_decimal': 0.5, 'msg': 'factor'})"]
FORMULA_ANS_BAD = ['5', "['x']", 'None', "{'expect': {'comparer_params': 'x', 'comparer': congruence_comparer}}",
                   "{'expect': {'comparer_params': ['x'], 'comparer': f1}}", "{'comparer_params': ['x']}",
                   "{'expect': {'comparer_params': ['x'], 'comparer': 'equality'}}",
                   "{'expect': 'x', 'grade_decimal': 1.5}", "{'expect': {'comparer_params': [1], 'comparer': cmp3}}",
                   "('x', 5)", "{'expect': 'x', 'nosuch': 2}"]

TOL_GOOD = ['0', '0.1', '1e-6', '1', "'5%'", "'0%'", "'0.5%'"]
TOL_BAD = ['-0.1', "'-5%'", "'abc'", 'None', '[0.1]', "'5'", "'%'", '1j', "float('nan')"]   # NaN is not >= 0


def math_opts(tolerance="'0.01%'", samples='5', random_functions=True):
    # formula_grader.md "Options Listing" + FormulaGrader doc-string
    uf_good = ["{'f': np.sin}", "{'f': f1}", "{\"f'\": f1, 'g': f2}"]
    uf_bad = ['[]', 'None', "{'f': 5}", "{'f': 'sin'}", "{1: np.sin}", "{'f': [np.sin, 5]}", "{'f': RealInterval()}",
              "'f'"]
    if random_functions:
        uf_good += ["{'f': RandomFunction()}", "{'f': [np.sin, np.cos]}", "{'f': SpecificFunctions([np.sin, np.tan])}",
                    "{'f': RandomFunction(center=1, amplitude=2), 'g': np.tanh}"]
    else:
        uf_bad += ["{'f': RandomFunction()}", "{'f': [np.sin, np.cos]}", "{'f': SpecificFunctions([np.sin])}"]
    return {
        'variables': O('[]', ["['x']", "['x', 'y']", "['a', 'b', 'c']"], ["'x'", '[1]', 'None', "('x',)", "['x', 5]",
                                                                           "{'x': 1}"]),
        'numbered_vars': O('[]', ["['a']", "['a', 'q']"], ["'a'", '[1]', 'None', "('a',)"]),
        'sample_from': O('{}', ["{'x': [1, 3]}", "{'x': (1, 2, 3)}", "{'x': 2.5}", "{'x': RealInterval([2, 4])}",
                                "{'x': IntegerRange([1, 3]), 'y': ComplexSector()}",
                                "{'x': DependentSampler(formula='y^2')}", "{'x': RealMatrices()}",
                                "{'x': DiscreteSet((1, 2))}", "{'y': ComplexRectangle()}", "{'a': [0, 1]}"],
                         ['[]', 'None', "'x'", "{'x': 'abc'}", "{'x': [1, 2, 3]}", "{'x': None}", "{'x': [1]}",
                          "{'nosuchvar': [1, 2]}", "{'x': RandomFunction()}", "{'x': ()}", "{'x': np.sin}"],
                         cmp='sample_from'),
        'samples': O(samples, ['1', '2', '10'], POS_INT_BAD),
        'user_functions': O('{}', uf_good, uf_bad),
        'user_constants': O('{}', ["{'c': 3e10}", "{'c': 2, 'd': 1j}", "{'M': MathArray([[1, 2], [3, 4]])}"],
                            ['[]', 'None', "{'c': 'abc'}", "{'c': [1, 2]}", "{1: 2}", "{'c': np.sin}", "'c'"]),
        'blacklist': O('[]', ["['sin']", "['sin', 'cos']"], ["'sin'", '[5]', 'None', "['nosuchfunc']", '[None]']),
        'whitelist': O('[]', ["['sin']", "['sin', 'cos']", '[None]'],
                       ["'sin'", '[5]', 'None', "['nosuchfunc']", '[None, None]', "[None, 'sin']"]),
        'forbidden_strings': O('[]', ["['+x']", "['x+y', 'y+x']"], ["'x'", '[5]', 'None', "('x',)"]),
        'forbidden_message': O("'Invalid Input: This particular answer is forbidden'", ["'no'"], STR_BAD),
        'required_functions': O('[]', ["['sin']", "['sin', 'cos']"], ["'sin'", '[5]', 'None']),
        'tolerance': O(tolerance, TOL_GOOD, TOL_BAD, cmp='tol'),
        'metric_suffixes': bool_opt('False'),
        'failable_evals': O('0', ['1', '3'], NONNEG_INT_BAD),
        'instructor_vars': O('[]', ["['x']", "['c', 'd']"], ["'x'", '[5]', 'None']),
    }


def formula_opts(**kw):
    d = item_opts(FORMULA_ANS_GOOD, FORMULA_ANS_BAD)
    d.update(math_opts(**kw))
    d['allow_inf'] = bool_opt('False')      # formula_grader.md: "you can specify allow_inf=True"
    return d


def numerical_opts():
    # numerical_grader.md + NumericalGrader doc-string ("Will always be ...")
    d = formula_opts(tolerance="'5%'", samples='1', random_functions=False)
    d['answers'] = O('()', ["'1'", "('1', '2')", "{'expect': '3', 'msg': 'k'}", "{'expect': ('1', '1.0'), "
                     "'grade_decimal': 0.5}", "{'comparer_params': ['1e6', '1e9'], 'comparer': between_comparer}"],
                     FORMULA_ANS_BAD, cmp='empty')
    d['samples'] = O('1', [], ['2', '0', '5', 'None'])
    d['variables'] = O('[]', [], ["['x']", 'None', "'x'", '5'])
    d['numbered_vars'] = O('[]', [], ["['a']", 'None', "'a'"])
    d['sample_from'] = O('{}', [], ["{'x': [1, 2]}", 'None', '[]'])
    d['failable_evals'] = O('0', [], ['1', 'None', '-1'])
    d['instructor_vars'] = O('[]', ["['c']"], ["'x'", '[5]', 'None'])
    return d


def matrix_opts():
    # matrix_grader.md "Configuration Options" + MatrixGrader doc-string
    d = formula_opts()
    d['answers'] = O('()', ["'[1, 2]'", "'[[1, 2], [3, 4]]'", "('x*[1, 2]', '[x, 2*x]')",
                            "{'expect': '[1, 2]', 'grade_decimal': 0.5}",
                            "{'comparer_params': ['[1, 2]'], 'comparer': MatrixEntryComparer()}"],
                     FORMULA_ANS_BAD, cmp='empty')
    d['allow_inf'] = O(None, [], ['True'])   # "keys that MatrixGrader does not have: allow_inf"
    d['sample_from'] = O('{}', ["{'x': [1, 3]}", "{'x': RealMatrices()}", "{'x': RealVectors(shape=2), 'y': 2}",
                                "{'x': IdentityMatrixMultiples(dimension=3)}"],
                         ['[]', 'None', "{'x': 'abc'}", "{'nosuchvar': [1, 2]}"], cmp='sample_from')
    d['whitelist'] = O('[]', ["['sin']", "['trans', 'det']", '[None]'], ["'sin'", "['nosuchfunc']", '[None, None]'])
    d['blacklist'] = O('[]', ["['sin']", "['trans']", "['cross', 'norm']"], ["'sin'", "['nosuchfunc']", '[None]'])
    d['identity_dim'] = O('None', ['2', '3'], ['-1', '2.5', "'2'", '[2]'])
    d['max_array_dim'] = O('1', ['0', '2', '3'], ['-1', '1.5', "'1'", '[1]'])
    d['negative_powers'] = bool_opt('True')
    d['shape_errors'] = bool_opt('True')
    d['suppress_matrix_messages'] = bool_opt('False')
    d['answer_shape_mismatch'] = O("{'is_raised': True, 'msg_detail': 'type'}",
                                   ["{'is_raised': False}", "{'msg_detail': 'shape'}", "{'msg_detail': None}",
                                    "{'is_raised': False, 'msg_detail': 'shape'}", '{}'],
                                   ['None', "{'is_raised': 1}", "{'msg_detail': 'full'}", "{'nosuch': 1}", "'type'",
                                    '[]', 'True'], cmp='fill')
    d['entry_partial_credit'] = O(None, ["'proportional'", '0.5', '0', '1', '0.25'],
                                  ['-0.1', '1.5', "'half'", 'None', '[0.5]'], absent=True)
    d['entry_partial_msg'] = O(None, ["'m {error_locations}'", "''", "'wrong entries'"], STR_BAD, absent=True)
    return d


SUM_ANS = "{'lower': '1', 'upper': '3', 'summand': 'n', 'summation_variable': 'n'}"


def sum_opts():
    # sum_grader.md + SumGrader doc-string
    d = abstract_opts()
    d.update(math_opts(tolerance='1e-12', samples=['2', '1']))
    d['answers'] = O(None, [SUM_ANS, "{'lower': '0', 'upper': 'infty', 'summand': '1/2^n', "
                            "'summation_variable': 'n'}",
                            "{'lower': 'a', 'upper': 'a+5', 'summand': 'k^2', 'summation_variable': 'k'}"],
                     ["'n'", 'None', "{'lower': '1', 'upper': '3', 'summand': 'n'}",
                      "{'lower': 1, 'upper': '3', 'summand': 'n', 'summation_variable': 'n'}",
                      "(" + SUM_ANS + ",)", "[" + SUM_ANS + "]",
                      "{'lower': '1', 'upper': '3', 'summand': 'n', 'summation_variable': 'n', 'extra': '1'}"])
    d['input_positions'] = O("{'lower': 1, 'upper': 2, 'summand': 3, 'summation_variable': 4}",
                             ["{'summand': 1}", "{'upper': 1, 'summand': 2}",
                              "{'lower': 2, 'upper': 1, 'summand': 3}", "{'summand': 1, 'lower': None}",
                              "{'lower': 1, 'upper': 2, 'summand': 3}"],
                             ["{'summand': 2}", "{'lower': 1, 'upper': 1}", "{'lower': 1, 'summand': 3}",
                              "{'nosuch': 1}", "{'summand': 0}", "{'summand': 1.5}", 'None', '[1, 2, 3, 4]',
                              "{'summand': '1'}"], cmp='positions')
    d['infty_val'] = O('1e3', ['50', '100', '1e4'], ['0', '-5', "'1000'", 'None', '[100]'])
    d['infty_val_fact'] = O('80', ['20', '100'], ['0', '-5', "'80'", 'None'])
    d['even_odd'] = O('0', ['1', '2'], ['3', '-1', "'1'", 'None', '1.5', '[1]'])
    d['variables'] = O('[]', ["['x']", "['x', 'y']", "['a', 'b', 'c']"], ["'x'", '[1]', 'None'])
    return d


LIST_SUB_GOOD = ['StringGrader()', 'StringGrader(case_sensitive=False)',
                 "FormulaGrader(variables=['a', 'b', 'c', 'd', 'A'])", 'NumericalGrader()']


def singlelist_opts():
    # single_list_grader.md "Option Listing" + SingleListGrader doc-string
    d = item_opts(["['a', 'b']", "'a, b'", "'a,b'", "(['a', 'b'], ['c', 'd'])",
                   "{'expect': ['a', 'b'], 'grade_decimal': 0.5}", "[('a', 'A'), 'b']",
                   "['a', {'expect': 'b', 'msg': 'm'}]", "('a,b', {'expect': 'c,d', 'grade_decimal': 0.5})",
                   "{'expect': (['a', 'b'], ['c', 'd']), 'msg': 'k'}", "['a', 'b', 'c']", "['a', '']", "'a,,b'"],
                  ['5', 'None', "['a', 5]", "{'expect': 5}", "{'expect': ['a', 'b'], 'grade_decimal': 3}",
                   "{'expect': ['a', 'b'], 'nosuch': 1}", "[['a', 'b'], 5]"])
    d['subgrader'] = O(None, LIST_SUB_GOOD,
                       ['None', '5', 'ListGrader(subgraders=StringGrader())', "'StringGrader'", '[StringGrader()]',
                        'StringGrader', 'LinearCredit()'])
    d['ordered'] = bool_opt('False')
    d['length_error'] = bool_opt('False')
    d['missing_error'] = bool_opt('True')
    d['partial_credit'] = bool_opt('True')
    d['delimiter'] = O("','", ["';'", "' '", "'|'"], ['None', '5', "[',']", 'True'])
    return d


def list_opts():
    # list_grader.md "Option Listing" + ListGrader doc-string
    d = abstract_opts()
    d['answers'] = O('[]', ["['a', 'b']", "['a', 'b', 'c']", "(['a', 'b'], ['c', 'd'])",
                            "[('a', 'A'), {'expect': 'b', 'grade_decimal': 0.5}]",
                            "[{'expect': 'a', 'msg': 'hi'}, 'b']", "(['a', 'b'], ['c', 'd'], ['a', 'd'])"],
                     ["['a']", "'ab'", '5', 'None', "['a', 5]", "{'expect': ['a', 'b']}", "('a', 'b')",
                      "['a', {'expect': 'b', 'grade_decimal': 2}]", "(['a', 'b'], 'cd')"], cmp='empty')
    d['subgraders'] = O(None, LIST_SUB_GOOD + ['[StringGrader(), StringGrader()]',
                                               "[StringGrader(), FormulaGrader(variables=['b'])]"],
                        ['None', '5', '[StringGrader(), 5]', "'StringGrader'", 'StringGrader', 'LinearCredit()',
                         '(StringGrader(), StringGrader())'])
    d['ordered'] = bool_opt('False')
    d['partial_credit'] = bool_opt('True')
    d['grouping'] = O('[]', ['[1, 2]', '[1, 1, 2, 2]'], ['[0, 1]', '[1.5]', "'12'", 'None', '[1, 3]', '[2, 3]', '5',
                                                          "['1', '2']"])
    return d


def interval_opts():
    # interval_grader.md "Options Listing" + IntervalGrader doc-string
    d = item_opts(["'[1,2)'", "'(0, 1+pi]'", "['(', '1', '2', ']']", "('[1,2)', '(1,2]')",
                   "{'expect': '[1,2]', 'grade_decimal': 0.5}", "{'expect': ('[1,2]', '(1,2)'), 'msg': 'm'}",
                   "['[', {'expect': '1', 'msg': 'm'}, '2', (')', {'expect': ']', 'grade_decimal': 0.5})]",
                   "'[1:2)'", "'{1,2}'", "'<1,2>'"],
                  ["'[1,2,3]'", "'ab'", '5', 'None', "['[', '1', '2']", "'[1,)'", "['[', '1', '2', ']', ')']",
                   "{'expect': '[1,2]', 'grade_decimal': 7}", "['[(', '1', '2', ']']", "['[', 1, 2, ']']"])
    d['opening_brackets'] = O("'[('", ["'[(<'", "'[{'", "'['", "'('", "'([{'"], ["''", 'None', '5', "['[', '(']"])
    d['closing_brackets'] = O("'])'", ["'])>'", "')}'", "')'", "']'", "')]}'"], ["''", 'None', '5', "[']', ')']"])
    d['delimiter'] = O("','", ["':'", "';'"], ['None', '5', "[',']"])
    d['partial_credit'] = bool_opt('True')
    d['subgrader'] = O('NumericalGrader(tolerance=1e-13, allow_inf=True)',
                       ["FormulaGrader(variables=['a', 'b'])", 'NumericalGrader()',
                        "FormulaGrader(variables=['x'], tolerance=0.1)"],
                       ['StringGrader()', '5', "'abc'", 'SingleListGrader(subgrader=StringGrader())', 'FormulaGrader',
                        'LinearCredit()'])
    return d


def array_opts(shape_default, shape_good, shape_bad, complex_fixed=None, triangular=False):
    # sampling.md + ArraySamplingSet / VectorSamplingSet / MatrixSamplingSet / TensorSamplingSet doc-strings
    d = {'shape': O(shape_default, shape_good, shape_bad, cmp='shape'),
         'norm': O('[1, 5]', RANGE_GOOD, RANGE_BAD, cmp='range')}
    if complex_fixed is True:       # "complex is always True"
        d['complex'] = O('True', [], ['False', 'None', "'yes'"])
    elif complex_fixed is False:    # "complex is always False"
        d['complex'] = O('False', [], ['True', 'None', "'no'"])
    if triangular:
        d['triangular'] = O('None', ["'upper'", "'lower'"], ["'diag'", 'True', '5', "['upper']"])
    return d


VEC_SHAPE = ('(3,)', ['4', '[2]', '(5,)', '1'], ['0', '-1', '2.5', '[2, 2]', "'3'", 'None', '[]', '[0]'])
MAT_SHAPE = ('(2, 2)', ['[3, 2]', '(2, 3)', '[1, 4]'], ['3', '[2]', '[2, 2, 2]', '[0, 2]', '[2.5, 2]', 'None',
                                                         "'22'"])
TEN_SHAPE = (None, ['[3, 2, 4]', '(2, 2, 2, 2)', '[2, 2, 2]'], ['[2, 2]', '3', 'None', '[2, 0, 2]', "'222'"])
DIM = O('2', ['3', '4', '5'], ['1', '0', '-2', '2.5', "'2'", 'None', '[2]'])     # "Dimension of the matrix (minimum 2)"


def square_opts():
    return {
        'dimension': DIM, 'norm': O('[1, 5]', RANGE_GOOD, RANGE_BAD, cmp='range'),
        'complex': O('False', ['True'], ['None', "'yes'", '[]'], cmp='sq-complex'),
        'traceless': bool_opt('False'),
        'determinant': O('None', ['0', '1'], ['2', '-1', "'1'", '0.5', '[1]']),
        'symmetry': O('None', ["'diagonal'", "'symmetric'", "'antisymmetric'", "'hermitian'", "'antihermitian'"],
                      ["'triangular'", '5', 'True', "['symmetric']"]),
    }


CREDIT01_GOOD = ['0', '1', '0.5', '0.0', '1.0', '0.9']
CREDIT01_BAD = ['-0.1', '1.5', "'0.2'", 'None', '[0.5]', "float('nan')"]   # NaN is not a number between 0 and 1
MSG_OPT = dict(good=["'m'", "''"], bad=['5', "['m']", 'True'])
LIN_CREDIT_GOOD = ['0', '1', '0.25', 'None', '0.5', '1.0']
LIN_CREDIT_BAD = ["'abc'", '[0.5]', '1j', "{'a': 1}"]

TABLE = {
    'StringGrader': C('grader', {}, dict(item_opts(STRING_ANS_GOOD, STRING_ANS_BAD), **{
        # string_grader.md "Option Listing" + StringGrader doc-string
        'case_sensitive': bool_opt('True'), 'strip': bool_opt('True'), 'clean_spaces': bool_opt('True'),
        'strip_all': bool_opt('False'), 'accept_any': bool_opt('False'), 'accept_nonempty': bool_opt('False'),
        'min_words': O('0', ['2', '5'], NONNEG_INT_BAD), 'min_length': O('0', ['3', '10'], NONNEG_INT_BAD),
        'explain_minimums': O("'err'", ["'msg'", 'None'], ["'error'", 'True', '5', "['err']"]),
        'validation_pattern': O('None', ["'[a-z]+'", "'(cat|dog)'", "'\\\\d{3}'"], ['5', "['a']", 'True']),
        'explain_validation': O("'err'", ["'msg'", 'None'], ["'error'", 'False', '0', "['msg']"]),
        'invalid_msg': O("'Your input is not in the expected format'", ["'bad'"], STR_BAD),
    }), probes=[("'cat'", "'cat'"), ("'cat'", "' Cat  x'"), ("'cat'", "'a b c'"), ("'cat'", "''")]),
    'FormulaGrader': C('grader', {'answers': "'x'", 'variables': "['x', 'y']"}, formula_opts(),
                       probes=[("'x'", "'x'"), ("'x'", "'2*x'"), ("'x'", "'x+y'"), ("'x'", "'sin(x)^2+cos(x)^2+x-1'")]),
    'NumericalGrader': C('grader', {'answers': "'1'"}, numerical_opts(),
                         probes=[("'1'", "'1'"), ("'1'", "'1.04'"), ("'1'", "'2'"), ("'1'", "'sin(0)+1'")]),
    'MatrixGrader': C('grader', {'answers': "'[1, 2]'", 'variables': "['x', 'y']"}, matrix_opts(),
                      probes=[("'[1, 2]'", "'[1, 2]'"), ("'[1, 2]'", "'[1, 3]'"), ("'[1, 2]'", "'[1, 2, 3]'"),
                              ("'[1, 2]'", "'x*[1, 2]'")]),
    'SingleListGrader': C('grader', {'answers': "['a', 'b']", 'subgrader': 'StringGrader()'}, singlelist_opts(),
                          probes=[("'a, b'", "'a, b'"), ("'a, b'", "'b, a'"), ("'a, b'", "'a'"), ("'a, b'", "'a; c'"),
                                  ("'a, b'", "'a,,b'")]),
    'ListGrader': C('grader', {'answers': "['a', 'b']", 'subgraders': 'StringGrader()'}, list_opts(),
                    probes=[('None', "['a', 'b']"), ('None', "['b', 'a']"), ('None', "['a', 'c']"),
                            ('None', "['a', 'b', 'c']"), ('None', "['a', 'b', 'c', 'd']")]),
    'IntervalGrader': C('grader', {'answers': "'[1,2)'"}, interval_opts(),
                        probes=[("'[1,2)'", "'[1,2)'"), ("'[1,2)'", "'(1,2)'"), ("'[1,2)'", "'[1,3)'"),
                                ("'[1,2)'", "'[1:2)'")]),
    'SumGrader': C('grader', {'answers': SUM_ANS}, sum_opts(),
                   probes=[('None', "['1', '3', 'n', 'n']"), ('None', "['0', '3', 'k', 'k']"), ('None', "'n'"),
                           ('None', "['3', 'n']"), ('None', "['1', '3', 'n']")]),
    # ---- samplers (sampling.md and doc-strings)
    'RealInterval': C('sampler', {}, {'start': O('1', ['0', '-2', '3.5', '7'], ["'1'", 'None', '[1]', '1j'], cmp='swap'),
                                      'stop': O('5', ['0', '-2', '3.5', '7'], ["'1'", 'None', '[1]'], cmp='swap')}),
    'IntegerRange': C('sampler', {}, {'start': O('1', ['0', '-3', '7'], ['1.5', "'1'", 'None', '[1]'], cmp='swap'),
                                      'stop': O('5', ['0', '-3', '7'], ['1.5', "'1'", 'None', '[1]'], cmp='swap')}),
    'ComplexRectangle': C('sampler', {}, {'re': O('[1, 3]', RANGE_GOOD, RANGE_BAD, cmp='range'),
                                          'im': O('[1, 3]', RANGE_GOOD, RANGE_BAD, cmp='range')}),
    'ComplexSector': C('sampler', {}, {'modulus': O('[1, 3]', RANGE_GOOD, RANGE_BAD, cmp='range'),
                                       'argument': O('[0, np.pi/2]', RANGE_GOOD + ['[-np.pi, np.pi]'], RANGE_BAD,
                                                     cmp='range')}),
    'RandomFunction': C('sampler', {}, {
        'input_dim': O('1', ['2', '3'], POS_INT_BAD), 'output_dim': O('1', ['2', '3'], POS_INT_BAD),
        'num_terms': O('3', ['1', '5'], POS_INT_BAD), 'center': O('0', ['1', '0.5', '-3'], ["'0'", 'None', '[0]']),
        'amplitude': O('10', ['2', '0.5'], ["'10'", 'None', '[1]', "float('nan')"]), 'complex': bool_opt('False')}),
    'DependentSampler': C('sampler', {'formula': "'x^2'"}, {
        'formula': O(None, ["'x^2'", "'sqrt(x^2+y^2+z^2)'", "'[[x,0],[0,-x^2]]'", "'2'"],
                     ['5', 'None', "['x']", "'x+'", "'(x'"]),
        'depends': O(None, ["['x']", 'None', "['x', 'y', 'z']"], [])}),
    'RealVectors': C('sampler', {}, array_opts(*VEC_SHAPE, complex_fixed=False)),
    'ComplexVectors': C('sampler', {}, array_opts(*VEC_SHAPE, complex_fixed=True)),
    'RealMatrices': C('sampler', {}, array_opts(*MAT_SHAPE, complex_fixed=False, triangular=True)),
    'ComplexMatrices': C('sampler', {}, array_opts(*MAT_SHAPE, complex_fixed=True, triangular=True)),
    'RealTensors': C('sampler', {'shape': '[2, 2, 2]'}, array_opts(*TEN_SHAPE, complex_fixed=False)),
    'ComplexTensors': C('sampler', {'shape': '[2, 2, 2]'}, array_opts(*TEN_SHAPE, complex_fixed=True)),
    'IdentityMatrixMultiples': C('sampler', {}, {
        'dimension': DIM,
        'sampler': O('RealInterval([1, 5])', ['[1, 3]', 'ComplexSector()', 'IntegerRange([1, 3])',
                                              'RealInterval([2, 4])', 'ComplexRectangle()'],
                     ['DiscreteSet((1, 2))', '5', 'None', '[1, 2, 3]', 'RealMatrices()', "'ab'",
                      "DependentSampler(formula='x')"], cmp='sampler')}),
    'SquareMatrices': C('sampler', {}, square_opts()),
    'OrthogonalMatrices': C('sampler', {}, {'dimension': DIM, 'unitdet': bool_opt('False')}),
    'UnitaryMatrices': C('sampler', {}, {'dimension': DIM, 'unitdet': bool_opt('False')}),
    # ---- function domain decorator (user_functions.md / SpecifyDomain doc-string)
    'SpecifyDomain': C('other', {'input_shapes': '[1]'}, {
        'input_shapes': O(None, ['[1]', '[3, 3]', "[1, [3, 2], 2, 'square']", '[(3, 2)]', '[2]'],
                          ['3', 'None', "['round']", '[0]', '[[2, -1]]', "'square'", '[2.5]']),
        'display_name': O('None', ["'f'"], ['5', "['f']", 'True']),
        'min_length': O('None', ['2', '1'], ['0', '-1', '1.5', "'2'", '[1]'])}),
    # ---- comparers (comparer_functions.md and doc-strings)
    'EqualityComparer': C('comparer', {}, {
        'transform': O('None', ['np.cos', 'np.linalg.norm', 'f1'], ['5', "'cos'", '[np.cos]'], cmp='transform')}),
    'MatrixEntryComparer': C('comparer', {}, {
        'transform': O('None', ['np.cos', 'f1'], ['5', "'cos'", '[np.cos]'], cmp='transform'),
        'entry_partial_credit': O('0', ["'proportional'", '0.5', '1', '1.0', '0.0', '0.25'],
                                  ['-0.5', '1.5', "'half'", 'None', '[0.5]']),
        'entry_partial_msg': O("'Some array entries are incorrect, marked below:\\n{error_locations}'",
                               ["'msg'", "''"], STR_BAD)}),
    'LinearComparer': C('comparer', {}, {
        'equals': O('1.0', LIN_CREDIT_GOOD, LIN_CREDIT_BAD), 'proportional': O('0.5', LIN_CREDIT_GOOD, LIN_CREDIT_BAD),
        'offset': O('None', LIN_CREDIT_GOOD, LIN_CREDIT_BAD), 'linear': O('None', LIN_CREDIT_GOOD, LIN_CREDIT_BAD),
        'equals_msg': O(["''", 'None'], **MSG_OPT), 'offset_msg': O(["''", 'None'], **MSG_OPT),
        'linear_msg': O(["''", 'None'], **MSG_OPT),
        'proportional_msg': O("'The submitted answer differs from an expected answer by a constant factor.'",
                              **MSG_OPT)}),
    # ---- attempt-based credit (graders.md and doc-strings)
    'LinearCredit': C('credit', {}, {
        'decrease_credit_after': O('1', ['2', '5'], POS_INT_BAD),
        'decrease_credit_steps': O('4', ['1', '2'], POS_INT_BAD),
        'minimum_credit': O('0.2', CREDIT01_GOOD, CREDIT01_BAD)}),
    'GeometricCredit': C('credit', {}, {'factor': O(['0.75', '0.5'], CREDIT01_GOOD, CREDIT01_BAD)}),
    'ReciprocalCredit': C('credit', {}, {}),
}
# in-domain values that are documented for one message option only where the two documents agree: the *_msg options
# of LinearComparer document None in comparer_functions.md but str in the doc-string -> None is in neither pool
for _o in ('equals_msg', 'offset_msg', 'linear_msg'):
    TABLE['LinearComparer'].opts[_o].good.remove('None')

# classes configured by one positional value instead of a dictionary: (class, in-domain, out-of-domain)
POSITIONAL = {
    'DiscreteSet': (['3.142', '(1, 3, 5, 7, 9)', 'MathArray([[1, 0], [0, 1]])',
                     '(MathArray([1, 2]), MathArray([3, 4]))', '(1, MathArray([1, 2]))', '1j', '(2,)'],
                    ['()', "'abc'", '[1, 2]', "(1, 'a')", 'None', 'np.sin', "{'a': 1}"]),
    'SpecificFunctions': (['np.sin', '[np.sin, np.cos, np.tan]', 'f1', '[f1]'],
                          ['5', '[np.sin, 5]', "'sin'", '[]', 'None', "{'f': np.sin}"]),
    'RealInterval': (['[3, 7]', '[-2, 4]', '[5, 1]', '[2.5, 2.5]'], ['[1]', '[1, 2, 3]', "['a', 'b']", '5', "'ab'",
                                                                   '(1, 2)']),
    'IntegerRange': (['[3, 7]', '[-2, 4]'], ['[1]', '[1.5, 3]', '[1, 2, 3]', "'ab'", '(1, 2)']),
}
# documented equivalences between a positional and a keyword form (sampling.md)
EQUIV = [('RealInterval([3, 7])', 'RealInterval(start=3, stop=7)'), ('RealInterval()', 'RealInterval([1, 5])'),
         ('IntegerRange([3, 7])', 'IntegerRange(start=3, stop=7)'), ('IntegerRange()', 'IntegerRange([1, 5])'),
         ('ComplexRectangle()', 'ComplexRectangle(re=[1, 3], im=[1, 3])'),
         ('ComplexSector()', 'ComplexSector(modulus=[1, 3], argument=[0, np.pi/2])'),
         ('RealVectors()', 'RealVectors(shape=3, norm=[1, 5])'), ('ComplexVectors()', 'ComplexVectors(shape=3, norm=[1, 5])'),
         ('RealMatrices()', "RealMatrices({'norm': [1, 5], 'shape': (2, 2)})"),
         ('ComplexMatrices()', "ComplexMatrices({'norm': [1, 5], 'shape': (2, 2)})"),
         ('IdentityMatrixMultiples()', 'IdentityMatrixMultiples(dimension=2, sampler=[1, 5])'),
         ('SquareMatrices()', 'SquareMatrices(dimension=2, complex=False, traceless=False, determinant=None, '
                              'symmetry=None, norm=[1, 5])'),
         ('OrthogonalMatrices()', 'OrthogonalMatrices(dimension=2, unitdet=False)'),
         ('UnitaryMatrices()', 'UnitaryMatrices(dimension=2, unitdet=False)'),
         ('LinearCredit()', 'LinearCredit(decrease_credit_after=1, minimum_credit=0.2, decrease_credit_steps=4)'),
         ('EqualityComparer()', 'equality_comparer'), ('EqualityComparer()', 'EqualityComparer(transform=None)'),
         ('DiscreteSet(3.5)', 'DiscreteSet((3.5,))'), ('SpecificFunctions(np.sin)', 'SpecificFunctions([np.sin])'),
         ("StringGrader(answers='zebra')", "StringGrader(answers={'expect': 'zebra', 'msg': '', 'grade_decimal': 1})"),
         ('IntervalGrader()', 'IntervalGrader(subgrader=NumericalGrader(tolerance=1e-13, allow_inf=True))'),
         # the documented ways of writing the same answers, also where the grader sits inside a list grader (string form
         # and list form of an interval, delimiter string and list of a SingleListGrader, bare value and dictionary)
         ("IntervalGrader(answers='[1,2)')", "IntervalGrader(answers=['[', '1', '2', ')'])"),
         ("IntervalGrader(answers='(0,5]')", "IntervalGrader(answers=['(', {'expect': '0'}, '5', ']'])"),
         ("ListGrader(answers=['[1,2)', '(3,4]'], subgraders=IntervalGrader())",
          "ListGrader(answers=[['[', '1', '2', ')'], ['(', '3', '4', ']']], subgraders=IntervalGrader())"),
         ("ListGrader(answers=['[1,2)', 'cat'], subgraders=[IntervalGrader(), StringGrader()], ordered=True)",
          "ListGrader(answers=[['[', '1', '2', ')'], {'expect': 'cat'}], subgraders=[IntervalGrader(), StringGrader()], "
          "ordered=True)"),
         ("ListGrader(answers=[{'expect': '[1,2)', 'msg': 'm'}, '(3,4]'], subgraders=IntervalGrader())",
          "ListGrader(answers=[{'expect': ['[', '1', '2', ')'], 'msg': 'm'}, ['(', '3', '4', ']']], "
          "subgraders=IntervalGrader())"),
         ("SingleListGrader(answers=['[1,2)', '(3,4]'], subgrader=IntervalGrader(), delimiter=';')",
          "SingleListGrader(answers='[1,2);(3,4]', subgrader=IntervalGrader(), delimiter=';')"),
         ("ListGrader(answers=['a,b', 'c,d'], subgraders=SingleListGrader(subgrader=StringGrader()))",
          "ListGrader(answers=[['a', 'b'], ['c', 'd']], subgraders=SingleListGrader(subgrader=StringGrader()))"),
         ("ListGrader(answers=['a', 'b'], subgraders=StringGrader())",
          "ListGrader(answers=[{'expect': 'a'}, {'expect': 'b', 'grade_decimal': 1, 'msg': ''}], subgraders=StringGrader())"),
         ("SingleListGrader(answers='a,b', subgrader=StringGrader())", "SingleListGrader(answers=['a', 'b'], subgrader=StringGrader())"),
         ("SingleListGrader(answers=('a,b', 'c,d'), subgrader=StringGrader())",
          "SingleListGrader(answers=(['a', 'b'], {'expect': ['c', 'd']}), subgrader=StringGrader())"),
         ("FormulaGrader(answers='x+1', variables=['x'])", "FormulaGrader(answers={'expect': 'x+1'}, variables=['x'])"),
         ("ListGrader(answers=['x', '2*x'], subgraders=FormulaGrader(variables=['x']))",
          "ListGrader(answers=[{'expect': 'x'}, {'expect': '2*x', 'msg': ''}], subgraders=FormulaGrader(variables=['x']))")]


# ----------------------------------------------------------------------------------------------------------------
# cross-option rules, written from the documentation (independent of the library's validation code)

SCALAR_FUNCS = {'sin', 'cos', 'tan', 'sec', 'csc', 'cot', 'sqrt', 'log10', 'log2', 'ln', 'exp', 'arccos', 'arcsin',
                'arctan', 'arctan2', 'arcsec', 'arccsc', 'arccot', 'abs', 'factorial', 'fact', 'sinh', 'cosh', 'tanh',
                'sech', 'csch', 'coth', 'arcsinh', 'arccosh', 'arctanh', 'arcsech', 'arccsch', 'arccoth', 'floor',
                'ceil', 'min', 'max', 're', 'im', 'conj', 'kronecker'}
ARRAY_FUNCS = {'abs', 'adj', 'cross', 'ctrans', 'det', 'norm', 'trans', 'trace'}
DEFAULT_CONSTS = {'i', 'j', 'e', 'pi'}
MATH_CLASSES = ('FormulaGrader', 'NumericalGrader', 'MatrixGrader', 'SumGrader')


class Undecided(Exception):
    """the hand-written rules cannot settle this configuration"""


def math_rules(name, v):
    out = []
    funcs = SCALAR_FUNCS | (ARRAY_FUNCS if name == 'MatrixGrader' else set())
    consts = set(DEFAULT_CONSTS)
    if name == 'SumGrader' or v.get('allow_inf') is True:
        consts.add('infty')
    wl, bl = v['whitelist'], v['blacklist']
    if wl and bl:
        out.append('whitelist+blacklist')
    if any(f not in funcs for f in bl) or (wl != [None] and any(f not in funcs for f in wl)):
        out.append('unknown-function-in-list')
    if not v['suppress_warnings']:
        for key in ('variables', 'numbered_vars', 'user_constants'):
            if set(v[key]) & consts:
                out.append('override-default-constant/' + key)
        if set(v['user_functions']) & funcs:
            out.append('override-default-function')
    if set(v['variables']) & set(v['user_constants']):
        out.append('collision/variables-user_constants')
    if not set(v['sample_from']) <= set(v['variables']) | set(v['numbered_vars']):
        out.append('sample_from/unknown-variable')
    return out


def item_answer_list(ans):
    """the individual answers of an ItemGrader answers value (tuple = several answers)"""
    return list(ans) if isinstance(ans, tuple) else [ans]


def expects_of(answer):
    """the expect values of one ItemGrader answer (string / list / dict with expect, expect possibly a tuple)"""
    e = answer['expect'] if isinstance(answer, dict) and 'expect' in answer else answer
    return list(e) if isinstance(e, tuple) else [e]


def any_blank(x):
    if isinstance(x, str):
        return x.strip() == ''
    if isinstance(x, (list, tuple)):
        return any(any_blank(y) for y in x)
    if isinstance(x, dict):
        return any_blank(x['expect']) if 'expect' in x else False
    return False


def singlelist_rules(v):
    out = []
    sub, delim = v['subgrader'], v['delimiter']
    if isinstance(sub, SingleListGrader):
        raise Undecided('nested SingleListGrader in a generic case')
    lengths = set()
    for answer in item_answer_list(v['answers']):
        for e in expects_of(answer):
            items = e.split(delim) if isinstance(e, str) else e
            if not isinstance(items, list):
                raise Undecided('unexpected expect value')
            lengths.add(len(items))
            if v['missing_error'] and any_blank(items):
                out.append('empty-entry-with-missing_error')
    if len(lengths) > 1:
        if v['length_error']:
            out.append('alternative-lists-unequal-length')     # single_list_grader.md, length_error
        else:
            raise Undecided('answer lists of unequal length without length_error')
    return out


def list_rules(v):
    out = []
    ans, subs, grouping = v['answers'], v['subgraders'], v['grouping']
    lists = list(ans) if isinstance(ans, tuple) else [ans]
    if isinstance(ans, list) and len(ans) == 1:
        out.append('single-answer')     # "ListGrader does not work with a single answer"
    elif any(len(a) == 1 for a in lists):
        raise Undecided('tuple of one-entry lists')
    if len({len(a) for a in lists}) > 1:
        raise Undecided('answer lists of unequal length')
    n_ans = len(lists[0]) if lists else 0
    if isinstance(subs, list):
        if n_ans:
            if len(subs) != n_ans:
                out.append('subgraders-answers-count')
            if not v['ordered']:
                out.append('unordered-with-subgrader-list')
    if grouping:
        groups = sorted(set(grouping))
        if groups != list(range(1, len(groups) + 1)):
            out.append('grouping-not-contiguous')
        else:
            sizes = [grouping.count(g) for g in groups]
            if not isinstance(subs, list) and not isinstance(subs, ListGrader):
                out.append('grouping-needs-listgrader')
            if not v['ordered'] and len(set(sizes)) > 1:
                out.append('unordered-unequal-groups')
            if isinstance(subs, list):
                if len(subs) != len(groups):
                    out.append('groups-subgraders-count')
                else:
                    for s, size in zip(subs, sizes):
                        if size > 1 and not isinstance(s, ListGrader):
                            out.append('group-needs-listgrader')
    return out


def interval_rules(v):
    out = []
    delim, opening, closing = v['delimiter'], v['opening_brackets'], v['closing_brackets']

    def bracket_chars(b):
        chars = []
        for answer in item_answer_list(b):
            for e in expects_of(answer):
                if not isinstance(e, str):
                    raise Undecided('bracket form')
                chars.append(e)
        return chars

    for answer in item_answer_list(v['answers']):
        for e in expects_of(answer):
            if isinstance(e, str):
                t = e.strip()
                if len(t) < 5:
                    out.append('interval-unreadable')
                    continue
                parts = [t[0]] + t[1:-1].split(delim) + [t[-1]]
            elif isinstance(e, list):
                parts = e
            else:
                raise Undecided('interval form')
            if len(parts) != 4:
                out.append('interval-needs-4-entries')
                continue
            if any_blank(parts):
                out.append('interval-empty-entry')
                continue
            for chars, allowed, label in ((bracket_chars(parts[0]), opening, 'opening'),
                                          (bracket_chars(parts[3]), closing, 'closing')):
                if any(len(c) != 1 or c not in allowed for c in chars):
                    out.append('interval-bracket-not-allowed/' + label)
    return out


def square_rules(v):
    """SquareMatrices doc-string: combinations that cannot be handled or do not exist"""
    out = []
    sym, tr, det, dim = v['symmetry'], v['traceless'], v['determinant'], v['dimension']
    cx = v['complex'] or sym in ('hermitian', 'antihermitian')
    if det == 0:
        if tr:
            out.append('square/zero-det-traceless')
        if sym == 'antisymmetric' and (cx or dim % 2 == 0):
            out.append('square/zero-det-antisymmetric')
    if det == 1:
        if dim == 2 and tr and ((sym in ('diagonal', 'symmetric') and not cx) or sym == 'hermitian'):
            out.append('square/no-traceless-unit-det-2x2')
        if dim % 2 == 1 and sym in ('antisymmetric', 'antihermitian'):
            out.append('square/odd-dim-unit-det')
    return out


def positions_rule(v):
    used = [p for p in v['input_positions'].values() if p is not None]
    if len(set(used)) != len(used) or set(used) != set(range(1, len(used) + 1)):
        return ['input_positions-not-consecutive']
    return []


def rules(name, v):
    """list of violated cross-option rules for the effective configuration v (values, not expressions)"""
    out = []
    if name in MATH_CLASSES:
        out += math_rules(name, v)
    if name == 'SumGrader':
        out += positions_rule(v)
    if name == 'SingleListGrader':
        out += singlelist_rules(v)
    if name == 'ListGrader':
        out += list_rules(v)
    if name == 'IntervalGrader':
        out += interval_rules(v)
    if name == 'SquareMatrices':
        out += square_rules(v)
    if name == 'SpecifyDomain' and v['min_length'] is not None and len(v['input_shapes']) != 1:
        out.append('min_length-needs-single-shape')
    return out


# ----------------------------------------------------------------------------------------------------------------
# canonical answers, computed independently from the documented formats

def ok_from(grade, ok='computed'):
    # ItemGrader doc-string: ok is ignored unless grade_decimal is 1; 'computed' is the default
    if grade != 1:
        return {0: False}.get(grade, 'partial')
    return True if ok == 'computed' else ok


def canon_item_answers(ans, canon_expect):
    """tuple of {'expect': tuple, 'grade_decimal', 'msg', 'ok'} for an ItemGrader answers value"""
    out = []
    for a in item_answer_list(ans):
        if isinstance(a, dict) and 'expect' in a:
            g = a.get('grade_decimal', 1)
            d = {'expect': a['expect'], 'grade_decimal': g, 'msg': a.get('msg', ''), 'ok': ok_from(g, a.get('ok', 'computed'))}
        else:
            d = {'expect': a, 'grade_decimal': 1, 'msg': '', 'ok': True}
        e = d['expect']
        d['expect'] = tuple(canon_expect(x) for x in (e if isinstance(e, tuple) else (e,)))
        out.append(d)
    return tuple(out)


def canon_for(sub):
    """function computing the canonical answers of one entry for the item grader `sub`"""
    if isinstance(sub, SingleListGrader) and type(sub) is SingleListGrader:
        inner = canon_for(sub.config['subgrader'])
        delim = sub.config['delimiter']

        def expect_list(e):
            items = e.split(delim) if isinstance(e, str) else e
            return [inner(x) for x in items]
        return lambda ans: canon_item_answers(ans, expect_list)
    if isinstance(sub, FormulaGrader):
        # documented default comparer: equality_comparer; MatrixGrader with entry_partial_* keys: MatrixEntryComparer
        extra = {k: sub.config[k] for k in ('entry_partial_credit', 'entry_partial_msg') if k in sub.config}
        dflt = MatrixEntryComparer(extra) if extra else NS['equality_comparer']

        def expect_formula(e):
            if isinstance(e, str):
                return {'comparer_params': [e], 'comparer': dflt}
            return {'comparer_params': list(e['comparer_params']), 'comparer': e['comparer']}
        return lambda ans: canon_item_answers(ans, expect_formula)
    if type(sub) is StringGrader:
        return lambda ans: canon_item_answers(ans, lambda e: e)
    raise Undecided('no canonical form for ' + type(sub).__name__)


def canon_answers(name, obj, supplied):
    """expected obj.config['answers'] for the supplied answers value (None when not modelled)"""
    if name in ('StringGrader', 'FormulaGrader', 'NumericalGrader', 'MatrixGrader', 'SingleListGrader'):
        return canon_for(obj)(supplied)
    if name == 'ListGrader':
        subs = obj.config['subgraders']
        lists = list(supplied) if isinstance(supplied, tuple) else [supplied]
        if lists == [[]]:
            return ()
        out = []
        for lst in lists:
            row = []
            for k, a in enumerate(lst):
                s = subs[k] if isinstance(subs, list) else subs
                if isinstance(s, ListGrader):
                    raise Undecided('nested ListGrader answers')
                row.append(canon_for(s)(a))
            out.append(row)
        return tuple(out)
    raise Undecided('answers of ' + name)


def shape_ok(x, depth=0):
    """generic validity predicate: tuple of dicts with exactly expect/grade_decimal/msg/ok, expect a tuple"""
    if not isinstance(x, tuple):
        return 'answers level %d is %s, not a tuple' % (depth, type(x).__name__)
    for d in x:
        if not isinstance(d, dict) or set(d) != {'expect', 'grade_decimal', 'msg', 'ok'}:
            return 'answer %s is not a dict with exactly expect, grade_decimal, msg, ok' % brief(d, 80)
        if not isinstance(d['expect'], tuple):
            return 'expect %s is not a tuple' % brief(d['expect'], 80)
        if d['ok'] not in (True, False, 'partial'):
            return 'ok value %r' % (d['ok'],)
        for e in d['expect']:
            if isinstance(e, list):
                for item in e:
                    if isinstance(item, tuple):
                        r = shape_ok(item, depth + 1)
                        if r:
                            return r
                    else:
                        return 'list entry %s was not normalised to a tuple of dicts' % brief(item, 80)
    return None


# ----------------------------------------------------------------------------------------------------------------
# the oracle

def innermost_owner(exc):
    """class name of `self` in the innermost traceback frame (else the function name)"""
    tb = exc.__traceback__
    if tb is None:
        return '?'
    while tb.tb_next is not None:
        tb = tb.tb_next
    slf = tb.tb_frame.f_locals.get('self')
    return type(slf).__name__ if slf is not None else tb.tb_frame.f_code.co_name


def classify(status, value):
    """'ok' | 'reject' ; foreign exceptions are violations with their own bucket"""
    if status == 'ok':
        return 'ok'
    if isinstance(value, OK_ERRORS):
        return 'reject'
    raise Violation('foreign-exception/%s/%s' % (type(value).__name__, innermost_owner(value)),
                    'construction raised %s (%s) instead of a configuration/validation error'
                    % (type(value).__name__, str(value)[:200]))


def construct(name, exprs, form):
    ctor = NS[name]
    if '__config__' in exprs:
        return call(ctor, ev(exprs['__config__']))
    vals = {k: ev(e) for k, e in exprs.items()}
    if form == 'kw':
        return call(lambda: ctor(**vals))
    return call(lambda: ctor(dict(vals)))


def doc_default(name, opt, o, eff):
    """accepted documented default values (already evaluated) for option opt under the effective config eff"""
    return [ev(d) for d in o.defaults]


def check_defaults(name, obj, supplied, eff, rec):
    cls = TABLE[name]
    cfg = obj.config
    for opt, o in cls.opts.items():
        if opt in supplied:
            if opt not in cfg:
                raise Violation('config-missing-option/%s/%s' % (name, opt), 'supplied option is not in obj.config')
            continue
        if o.absent:
            if opt in cfg:
                raise Violation('default/%s/%s' % (name, opt), 'optional key appears in config although omitted')
            continue
        if not o.defaults:
            continue
        if opt not in cfg:
            raise Violation('config-missing-option/%s/%s' % (name, opt),
                            'documented option %r is absent from obj.config when omitted' % opt)
        got = cfg[opt]
        wants = [ev(d) for d in o.defaults]
        if o.cmp == 'sample_from':
            # "By default, each variable samples from RealInterval([1, 5])"
            names = list(eff['variables']) + list(eff['numbered_vars'])
            okay = isinstance(got, dict) and set(got) == set(names) and all(
                same(got[k], RealInterval([1, 5])) for k in names)
        elif o.cmp == 'swap':
            # RealInterval/IntegerRange doc-string: start and stop are put the right way around
            lo, hi = sorted([eff['start'], eff['stop']])
            okay = same(got, lo if opt == 'start' else hi)
        elif o.cmp == 'sq-complex':
            # "If 'hermitian' or 'antihermitian' are chosen, 'complex' is set to True"
            okay = got is (eff['symmetry'] in ('hermitian', 'antihermitian'))
        elif o.cmp == 'sampler':
            okay = any(same(got, w) or (isinstance(w, list) and same(got, RealInterval(w))) for w in wants)
        elif o.cmp in ('fill', 'positions'):
            okay = any(same(got, w) for w in wants)
        else:
            okay = any(default_matches(o.cmp, got, w) for w in wants)
        if not okay:
            note = {'sample_from': ' with RealInterval([1, 5]) for every variable',
                    'swap': ' (start/stop in ascending order)',
                    'sq-complex': ' (True for hermitian/antihermitian)'}.get(o.cmp, '')
            raise Violation('default/%s/%s' % (name, opt), 'omitted option %r holds %s, documented default %s%s'
                            % (opt, brief(got), ' or '.join(o.defaults), note))
    rec.cls('defaults-checked')
    # sub-dictionaries whose unset keys take documented defaults
    if name == 'MatrixGrader' and 'answer_shape_mismatch' in supplied:
        want = dict({'is_raised': True, 'msg_detail': 'type'}, **supplied['answer_shape_mismatch'])
        if not same(cfg['answer_shape_mismatch'], want):
            raise Violation('default/MatrixGrader/answer_shape_mismatch-subkey', 'got %s want %s'
                            % (brief(cfg['answer_shape_mismatch']), brief(want)))
    if name == 'SumGrader' and 'input_positions' in supplied:
        want = dict({'lower': None, 'upper': None, 'summand': None, 'summation_variable': None},
                    **supplied['input_positions'])
        if not same(cfg['input_positions'], want):
            raise Violation('default/SumGrader/input_positions-subkey', 'got %s want %s'
                            % (brief(cfg['input_positions']), brief(want)))


def answers_format_classes(ans, rec):
    if isinstance(ans, tuple):
        rec.cls('answers-format/tuple')
        if ans and all(isinstance(a, list) for a in ans):
            rec.cls('answers-format/tuple-of-lists')
    elif isinstance(ans, dict):
        rec.cls('answers-format/dict')
    elif isinstance(ans, list):
        rec.cls('answers-format/list')
    elif isinstance(ans, str):
        rec.cls('answers-format/string')
    for a in item_answer_list(ans):
        if isinstance(a, dict) and isinstance(a.get('expect'), tuple):
            rec.cls('answers-format/tuple-expect')


def check_answers(name, obj, supplied, rec):
    cls = TABLE[name]
    if cls.kind != 'grader' or name == 'SumGrader':
        return
    got = obj.config.get('answers')
    if name == 'ListGrader':
        msg = None
        if not isinstance(got, tuple):
            msg = 'answers is %s, not a tuple' % type(got).__name__
        else:
            for lst in got:
                if not isinstance(lst, list):
                    msg = 'answers entry %s is not a list' % brief(lst, 80)
                    break
                for entry in lst:
                    if isinstance(entry, tuple) and not (entry and isinstance(entry[0], list)):
                        msg = msg or shape_ok(entry)
                    elif not isinstance(entry, tuple):
                        msg = 'list entry %s is not a tuple' % brief(entry, 80)
    else:
        msg = shape_ok(got)
    if msg:
        raise Violation('answers-not-canonical/%s' % name, msg, got=brief(got, 400))
    if 'answers' in supplied:
        answers_format_classes(supplied['answers'], rec)
        try:
            want = canon_answers(name, obj, supplied['answers'])
        except Undecided:
            rec.note('answers-shape-only')
            rec.cls('answers-canonical')
            return
        if not same(got, want):
            raise Violation('answers-normalisation/%s' % name, 'config answers %s, expected canonical form %s'
                            % (brief(got, 300), brief(want, 300)))
    rec.cls('answers-canonical')


def lib_equal(a, b):
    """the library's == ; array-valued constants make it raise ValueError (ambiguous truth value): then undecided"""
    try:
        return bool(a == b)
    except ValueError:
        return None


def outcome(status, value):
    if status == 'ok':
        return ('ok', value)
    return ('err', type(value).__name__, str(value))


def probe_pair(a, b, probes, seed, attempt, rec):
    for k, (exp_e, inp_e) in enumerate(probes):
        kw = {'attempt': attempt} if attempt else {}
        set_seed(seed + k)
        ra = outcome(*call(a, ev(exp_e), ev(inp_e), **kw))
        set_seed(seed + k)
        rb = outcome(*call(b, ev(exp_e), ev(inp_e), **kw))
        rec.calls(2)
        if not same(ra, rb):
            return 'probe %s / %s: %s versus %s' % (exp_e, inp_e, brief(ra, 200), brief(rb, 200))
    return None


def judge_config(name, exprs, rec, seed=0, expect=None, label=None, nprobes=None):
    """construct class `name` from {option: expression}; expect is 'valid'/'invalid' or None (= derive from the
    table and the rules)"""
    cls = TABLE.get(name)
    positional = '__config__' in exprs
    supplied = None
    if not positional:
        supplied = {k: ev(e) for k, e in exprs.items()}
    eff = None
    if cls is not None and not positional:
        eff = {o: ev(opt.defaults[0]) for o, opt in cls.opts.items() if opt.defaults}
        eff.update(supplied)
    if expect is None:
        why = []
        for k, e in exprs.items():
            if k not in cls.opts:
                why.append('unknown-option')
            elif e in cls.opts[k].bad:
                why.append('out-of-domain/' + k)
            elif e not in cls.opts[k].good and cls.base.get(k) != e:
                raise Discard('value in neither pool')
        if not why:
            try:
                why = ['rule/' + r for r in rules(name, eff)]
            except Undecided as u:
                raise Discard('rules undecided: %s' % u)
        expect = 'invalid' if why else 'valid'
        label = label or (why[0] if why else 'in-domain')
    label = label or expect

    st_kw = classify(*construct(name, exprs, 'kw'))
    rec.calls()
    st_d = st_kw
    obj_kw = construct(name, exprs, 'kw')[1] if st_kw == 'ok' else None
    obj_d = None
    if not positional:
        s, v = construct(name, exprs, 'dict')
        rec.calls()
        st_d = classify(s, v)
        obj_d = v if st_d == 'ok' else None
        if st_d != st_kw:
            raise Violation('kwargs-dict/outcome/%s' % name, 'keyword form: %s, dictionary form: %s' % (st_kw, st_d))
    if expect != 'invalid' and not positional and st_kw == 'ok':
        # both forms once more, now from the SAME option objects (an author writes the answers list once and hands it to
        # the keyword form, the dictionary form, a second grader ...): each construction still succeeds, gives an equal
        # object, and leaves the author's objects as they were (a seeded change normalised the caller's lists in place)
        vals = {k: ev(e) for k, e in exprs.items()}
        before = snap_cfg(vals)
        outs = [call(lambda: NS[name](**vals)), call(lambda: NS[name](dict(vals))), call(lambda: NS[name](**vals))]
        rec.calls(3)
        if snap_cfg(vals) != before:
            raise Violation('kwargs-dict/option-objects-altered/%s' % name, 'constructing %s altered the option objects it was '
                            'given (%s), so the next form built from them is no longer the same configuration' % (
                                name, ', '.join(k for k in vals if snap_cfg(vals[k]) != snap_cfg(ev(exprs[k])) ) or '?'))
        for s2, v2 in outs:
            if classify(s2, v2) != 'ok':
                raise Violation('kwargs-dict/shared-objects-rejected/%s' % name, 'a form built from option objects that had '
                                'already served another construction was rejected: %s' % str(v2)[:200])
        if lib_equal(outs[0][1], outs[2][1]) is False or not same(outs[0][1].config, outs[2][1].config):
            raise Violation('kwargs-dict/shared-objects-not-equal/%s' % name, 'first and third construction from the same '
                            'option objects differ')
        rec.cls('forms-from-shared-option-objects')
    if expect == 'invalid':
        if st_kw == 'ok':
            raise Violation('accepted-invalid/%s/%s' % (name, label),
                            'construction succeeded although the configuration is invalid (%s)' % label)
        if label.startswith('rule/') or label.startswith('scenario'):
            rec.cls('cross-rule-violation')
        elif label == 'unknown-option':
            rec.cls('unknown-option')
            rec.cls('rejected-out-of-domain')
        else:
            rec.cls('rejected-out-of-domain')
        return {'expect': expect, 'why': label, 'outcome': 'rejected'}
    if st_kw != 'ok':
        s, v = construct(name, exprs, 'kw')
        raise Violation('rejected-valid/%s/%s' % (name, '+'.join(sorted(exprs)) if len(exprs) < 3 else 'multi'),
                        'in-domain configuration was rejected: %s' % str(v)[:300])
    rec.cls('accepted-in-domain')
    rec.cls('kind/' + (cls.kind if cls else 'positional'))
    obj = obj_kw
    if positional or cls is None:
        return {'expect': expect, 'outcome': 'constructed', 'config': brief(obj.config, 120)}

    check_defaults(name, obj, supplied, eff, rec)
    check_answers(name, obj, supplied, rec)

    # keyword form == dictionary form
    le = lib_equal(obj, obj_d)
    if le is False or not same(obj.config, obj_d.config):
        raise Violation('kwargs-dict/not-equal/%s' % name, 'Cls(**cfg) and Cls(cfg) differ: %s versus %s'
                        % (brief(obj.config, 300), brief(obj_d.config, 300)))
    rec.cls('kwargs-dict-equal')

    # re-validation (graders only)
    result = {'expect': expect, 'outcome': 'constructed'}
    if cls.kind == 'grader':
        s, again = call(NS[name], obj.config)
        rec.calls()
        if s != 'ok':
            if (name == 'ListGrader' and isinstance(again, IndexError) and obj.config['answers'] == ()
                    and isinstance(obj.config['subgraders'], list)):
                raise Violation('roundtrip/ListGrader/empty-answers-with-subgrader-list',
                                'ListGrader(obj.config) raises IndexError for a ListGrader with a list of subgraders '
                                'and no answers')
            raise Violation('roundtrip/%s/raises-%s' % (name, type(again).__name__),
                            'Cls(obj.config) raised %s: %s' % (type(again).__name__, str(again)[:300]))
        le = lib_equal(again, obj)
        if le is False or not same(again.config, obj.config):
            raise Violation('roundtrip/%s/not-equal' % name, 'Cls(obj.config) differs from obj: %s versus %s'
                            % (brief(again.config, 300), brief(obj.config, 300)))
        attempt = 2 if obj.config.get('attempt_based_credit') else None
        probes = cls.probes if nprobes is None else [cls.probes[(seed + i) % len(cls.probes)] for i in range(nprobes)]
        diff = probe_pair(obj, again, probes, seed, attempt, rec)
        if diff:
            raise Violation('roundtrip/%s/grades-differently' % name, diff)
        diff = probe_pair(obj_d, construct(name, exprs, 'kw')[1], probes[:2], seed, attempt, rec)
        if diff:
            raise Violation('kwargs-dict/grades-differently/%s' % name, diff)
        rec.cls('roundtrip-grader')
        result['roundtrip'] = True
    return result


def nontrivial_cfg(name, exprs):
    cls = TABLE.get(name)
    if cls is None or '__config__' in exprs:
        return True
    for k, e in exprs.items():
        if k not in cls.opts or e not in cls.opts[k].defaults:
            if k in cls.base and cls.base[k] == e:
                continue
            return True
    return False


# ----------------------------------------------------------------------------------------------------------------
# part 1 (exhaustive): every single-option deviation from the base configuration, unknown option, positional forms

def judge_single(spec, rec):
    name, exprs = spec['cls'], spec['cfg']
    rec.nontrivial(nontrivial_cfg(name, exprs))
    return judge_config(name, exprs, rec, seed=spec.get('seed', 0), expect=spec.get('expect'),
                        label=spec.get('label'))


def items_single(tier):
    k = 0
    for name in sorted(TABLE):
        cls = TABLE[name]
        yield {'cls': name, 'cfg': dict(cls.base), 'seed': 1}
        for opt in sorted(cls.opts):
            o = cls.opts[opt]
            for e in o.good + o.bad:
                k += 1
                yield {'cls': name, 'cfg': dict(cls.base, **{opt: e}), 'seed': k}
        for bad_key, val in (('nosuchoption', '1'), ('Debug', 'True'), ('answer', "'x'")):
            yield {'cls': name, 'cfg': dict(cls.base, **{bad_key: val}), 'seed': 2}
    for name in sorted(POSITIONAL):
        good, bad = POSITIONAL[name]
        for e in good:
            yield {'cls': name, 'cfg': {'__config__': e}, 'expect': 'valid'}
        for e in bad:
            yield {'cls': name, 'cfg': {'__config__': e}, 'expect': 'invalid', 'label': 'out-of-domain/config'}


# ----------------------------------------------------------------------------------------------------------------
# part 2 (exhaustive): cross-option rule scenarios, each with its valid near-miss

SL = 'SingleListGrader'
INNER_COMMA = "SingleListGrader(subgrader=StringGrader(), delimiter=',')"
INNER_SEMI = "SingleListGrader(subgrader=StringGrader(), delimiter=';')"
MID_SEMI_INNER_COMMA = "SingleListGrader(subgrader=%s, delimiter=';')" % INNER_COMMA
MID_SEMI_INNER_BAR = "SingleListGrader(subgrader=SingleListGrader(subgrader=StringGrader(), delimiter='|'), delimiter=';')"
PAIR = "ListGrader(subgraders=[StringGrader(), NumericalGrader()], ordered=True)"
ANIMALS = "[['cat', '1'], ['dog', '2'], ['tiger', '3']]"
FG = {'answers': "'x'"}


def V(cls, cfg, label):
    return {'cls': cls, 'cfg': cfg, 'expect': 'valid', 'label': 'scenario/' + label}


def X(cls, cfg, label):
    return {'cls': cls, 'cfg': cfg, 'expect': 'invalid', 'label': 'scenario/' + label}


def scenarios():
    out = []
    for g in ('FormulaGrader', 'NumericalGrader', 'MatrixGrader'):
        out += [
            X(g, {'whitelist': "['sin']", 'blacklist': "['cos']"}, 'whitelist+blacklist'),
            X(g, {'whitelist': '[None]', 'blacklist': "['cos']"}, 'whitelist+blacklist'),
            V(g, {'whitelist': "['sin']", 'blacklist': '[]'}, 'whitelist-only'),
            V(g, {'whitelist': '[]', 'blacklist': "['cos', 'tan']"}, 'blacklist-only'),
            X(g, {'user_constants': "{'pi': 3}"}, 'override-constant'),
            V(g, {'user_constants': "{'pi': 3}", 'suppress_warnings': 'True'}, 'override-constant-suppressed'),
            X(g, {'user_constants': "{'i': 3, 'k': 2}"}, 'override-constant'),
            X(g, {'user_functions': "{'sin': f1}"}, 'override-function'),
            V(g, {'user_functions': "{'sin': f1}", 'suppress_warnings': 'True'}, 'override-function-suppressed'),
            V(g, {'user_functions': "{'Sin': f1}"}, 'case-differs-no-override'),
        ]
    for g in ('FormulaGrader', 'MatrixGrader', 'SumGrader'):
        base = {'answers': SUM_ANS} if g == 'SumGrader' else {}
        out += [
            X(g, dict(base, variables="['pi']"), 'override-constant-by-variable'),
            V(g, dict(base, variables="['pi']", suppress_warnings='True'), 'override-suppressed'),
            X(g, dict(base, variables="['x', 'e']"), 'override-constant-by-variable'),
            X(g, dict(base, numbered_vars="['e']"), 'override-constant-by-numbered-var'),
            V(g, dict(base, numbered_vars="['e']", suppress_warnings='True'), 'override-suppressed'),
            V(g, dict(base, numbered_vars="['E']"), 'case-differs-no-override'),
            X(g, dict(base, variables="['x']", user_constants="{'x': 2}"), 'collision'),
            X(g, dict(base, variables="['x']", user_constants="{'x': 2}", suppress_warnings='True'), 'collision'),
            X(g, dict(base, variables="['x', 'y']", user_constants="{'c': 1, 'y': 2}"), 'collision'),
            V(g, dict(base, variables="['x']", user_constants="{'y': 2}"), 'no-collision'),
            X(g, dict(base, variables="['x']", sample_from="{'z': [1, 2]}"), 'sample_from-unknown-variable'),
            X(g, dict(base, sample_from="{'x': [1, 2]}"), 'sample_from-unknown-variable'),
            V(g, dict(base, variables="['x']", sample_from="{'x': [1, 2]}"), 'sample_from-known-variable'),
            V(g, dict(base, numbered_vars="['a']", sample_from="{'a': [1, 2]}"), 'sample_from-numbered-var'),
            X(g, dict(base, variables="['x']", numbered_vars="['a']", sample_from="{'x': 1, 'a': 2, 'b': 3}"),
              'sample_from-unknown-variable'),
        ]
    out += [
        V('FormulaGrader', {'variables': "['infty']"}, 'infty-free-without-allow_inf'),
        X('FormulaGrader', {'variables': "['infty']", 'allow_inf': 'True'}, 'override-infty'),
        V('FormulaGrader', {'variables': "['infty']", 'allow_inf': 'True', 'suppress_warnings': 'True'},
          'override-infty-suppressed'),
        X('SumGrader', {'answers': SUM_ANS, 'variables': "['infty']"}, 'override-infty'),
        V('SumGrader', {'answers': SUM_ANS, 'variables': "['infty']", 'suppress_warnings': 'True'},
          'override-infty-suppressed'),
        X('FormulaGrader', {'blacklist': "['trans']"}, 'array-function-unknown-in-formulagrader'),
        V('MatrixGrader', {'blacklist': "['trans']"}, 'array-function-known-in-matrixgrader'),
        X('FormulaGrader', {'whitelist': "['det']"}, 'array-function-unknown-in-formulagrader'),
        V('MatrixGrader', {'whitelist': "['det']"}, 'array-function-known-in-matrixgrader'),
        X('SumGrader', {'answers': SUM_ANS, 'whitelist': "['det']"}, 'array-function-unknown-in-sumgrader'),
        V('MatrixGrader', {'user_functions': "{'trans': f1}", 'suppress_warnings': 'True'}, 'override-suppressed'),
        X('MatrixGrader', {'user_functions': "{'trans': f1}"}, 'override-array-function'),
        V('FormulaGrader', {'user_functions': "{'trans': f1}"}, 'no-override-in-formulagrader'),
        # MatrixGrader partial credit keys: keyword and dictionary form must pick the same comparer
        V('MatrixGrader', {'answers': "'[1, 2]'", 'entry_partial_credit': "'proportional'"}, 'entry-partial'),
        V('MatrixGrader', {'answers': "('[1, 2]', {'expect': '[2, 1]', 'grade_decimal': 0.5})",
                           'entry_partial_msg': "'wrong: {error_locations}'"}, 'entry-partial'),
        V('MatrixGrader', {'answers': "'[1, 2]'", 'entry_partial_credit': '0.5', 'entry_partial_msg': "''"},
          'entry-partial'),
        # required options
        X(SL, {'answers': "['a', 'b']"}, 'required-missing/subgrader'),
        X('ListGrader', {'answers': "['a', 'b']"}, 'required-missing/subgraders'),
        X('SumGrader', {}, 'required-missing/answers'),
        X('DependentSampler', {}, 'required-missing/formula'),
        X('DependentSampler', {'depends': "['x']"}, 'required-missing/formula'),
        X('RealTensors', {}, 'required-missing/shape'),
        X('ComplexTensors', {'norm': '[1, 2]'}, 'required-missing/shape'),
        X('SpecifyDomain', {}, 'required-missing/input_shapes'),
        V(SL, {'subgrader': 'StringGrader()'}, 'answers-may-be-omitted'),
        V('ListGrader', {'subgraders': 'StringGrader()'}, 'answers-may-be-omitted'),
        # SingleListGrader: nested delimiters, empty entries
        X(SL, {'subgrader': INNER_COMMA, 'delimiter': "','"}, 'nested-equal-delimiters'),
        X(SL, {'subgrader': INNER_COMMA}, 'nested-equal-delimiters'),
        V(SL, {'subgrader': INNER_COMMA, 'delimiter': "';'"}, 'nested-distinct-delimiters'),
        V(SL, {'subgrader': INNER_COMMA, 'delimiter': "';'", 'answers': "[['a', 'b'], ['c', 'd']]"}, 'nested-answers'),
        V(SL, {'subgrader': INNER_COMMA, 'delimiter': "';'", 'answers': "'a,b;c,d'"}, 'nested-answers-string'),
        V(SL, {'subgrader': INNER_COMMA, 'delimiter': "';'", 'answers': "('a,b;c,d', [['a', 'b'], 'e,f'])"},
          'nested-answers-mixed'),
        X(SL, {'subgrader': INNER_SEMI, 'delimiter': "';'"}, 'nested-equal-delimiters'),
        X(SL, {'subgrader': MID_SEMI_INNER_BAR, 'delimiter': "'|'"}, 'nested-equal-delimiters-level-1-3'),
        X(SL, {'subgrader': MID_SEMI_INNER_COMMA, 'delimiter': "';'"}, 'nested-equal-delimiters-level-1-2'),
        V(SL, {'subgrader': MID_SEMI_INNER_COMMA, 'delimiter': "'|'"}, 'nested-distinct-3-levels'),
        V(SL, {'subgrader': MID_SEMI_INNER_COMMA, 'delimiter': "'|'", 'answers': "'a,b;c,d|e,f;g,h'"},
          'nested-distinct-3-levels'),
        # single_list_grader.md, length_error: "all answers in a tuple of lists ... must have the same length" - in every
        # documented way of writing alternative lists (tuple of lists, tuple-valued expect, tuple of dictionaries,
        # delimiter strings, the lists of an inner grader)
        X(SL, {'subgrader': 'StringGrader()', 'length_error': 'True', 'answers': "(['a', 'b'], ['a', 'b', 'c'])"},
          'alternative-lists-unequal-length'),
        X(SL, {'subgrader': 'StringGrader()', 'length_error': 'True', 'answers': "{'expect': (['a', 'b'], ['a', 'b', 'c'])}"},
          'alternative-lists-unequal-length'),
        X(SL, {'subgrader': 'StringGrader()', 'length_error': 'True',
               'answers': "{'expect': (['a', 'b'], ['c', 'd'], ['e']), 'grade_decimal': 0.5}"}, 'alternative-lists-unequal-length'),
        X(SL, {'subgrader': 'StringGrader()', 'length_error': 'True',
               'answers': "({'expect': ['a', 'b']}, {'expect': (['c', 'd'], ['c', 'd', 'e'])})"}, 'alternative-lists-unequal-length'),
        X(SL, {'subgrader': 'StringGrader()', 'length_error': 'True', 'answers': "{'expect': ('a, b', 'a, b, c')}"},
          'alternative-lists-unequal-length'),
        X(SL, {'subgrader': 'StringGrader()', 'length_error': 'True', 'answers': "('a, b', {'expect': ('c, d', 'c')})"},
          'alternative-lists-unequal-length'),
        X(SL, {'subgrader': "SingleListGrader(subgrader=StringGrader(), delimiter=',', length_error=True)", 'delimiter': "';'",
               'answers': "[['a', 'b'], {'expect': (['c', 'd'], ['c', 'd', 'e'])}]"}, 'alternative-lists-unequal-length'),
        V(SL, {'subgrader': 'StringGrader()', 'length_error': 'True', 'answers': "{'expect': (['a', 'b'], ['c', 'd'])}"},
          'alternative-lists-equal-length'),
        V(SL, {'subgrader': 'StringGrader()', 'length_error': 'True',
               'answers': "({'expect': ('a, b', ['c', 'd'])}, ['e', 'f'])"}, 'alternative-lists-equal-length'),
        X(SL, {'subgrader': 'StringGrader()', 'answers': "['a', '']"}, 'empty-entry'),
        X(SL, {'subgrader': 'StringGrader()', 'answers': "['a', '  ']"}, 'empty-entry'),
        X(SL, {'subgrader': 'StringGrader()', 'answers': "'a,,b'"}, 'empty-entry'),
        X(SL, {'subgrader': 'StringGrader()', 'answers': "['a', ('b', '')]"}, 'empty-entry'),
        X(SL, {'subgrader': 'StringGrader()', 'answers': "['a', {'expect': ''}]"}, 'empty-entry'),
        V(SL, {'subgrader': 'StringGrader()', 'answers': "['a', '']", 'missing_error': 'False'}, 'empty-entry-allowed'),
        V(SL, {'subgrader': 'StringGrader()', 'answers': "'a,,b'", 'missing_error': 'False'}, 'empty-entry-allowed'),
        X(SL, {'subgrader': "FormulaGrader(variables=['x'])", 'answers': "['x', 5]"}, 'entry-invalid-for-subgrader'),
        X(SL, {'subgrader': 'StringGrader()', 'answers': "['a', ['b', 'c']]"}, 'entry-invalid-for-subgrader'),
        V(SL, {'subgrader': "FormulaGrader(variables=['x'])",
               'answers': "['x', {'comparer_params': ['x', '2'], 'comparer': congruence_comparer}]"},
          'entry-valid-for-subgrader'),
        X(SL, {'subgrader': 'StringGrader()',
               'answers': "['x', {'comparer_params': ['x', '2'], 'comparer': congruence_comparer}]"},
          'entry-invalid-for-subgrader'),
        # ListGrader
        X('ListGrader', {'subgraders': 'StringGrader()', 'answers': "['a']"}, 'single-answer'),
        X('ListGrader', {'subgraders': '[StringGrader(), StringGrader()]', 'answers': "['a', 'b']"},
          'unordered-with-subgrader-list'),
        X('ListGrader', {'subgraders': '[StringGrader(), StringGrader()]', 'answers': "['a', 'b']",
                         'ordered': 'False'}, 'unordered-with-subgrader-list'),
        V('ListGrader', {'subgraders': '[StringGrader(), StringGrader()]', 'answers': "['a', 'b']", 'ordered': 'True'},
          'ordered-subgrader-list'),
        V('ListGrader', {'subgraders': "[StringGrader(), FormulaGrader(variables=['x'])]",
                         'answers': "(['cat', 'x^2+1'], ['dog', 'x'])", 'ordered': 'True'}, 'ordered-subgrader-list'),
        X('ListGrader', {'subgraders': '[StringGrader(), StringGrader()]', 'answers': "['a', 'b', 'c']",
                         'ordered': 'True'}, 'subgraders-answers-count'),
        X('ListGrader', {'subgraders': '[StringGrader(), StringGrader(), StringGrader()]', 'answers': "['a', 'b']",
                         'ordered': 'True'}, 'subgraders-answers-count'),
        X('ListGrader', {'subgraders': "[StringGrader(), FormulaGrader(variables=['x'])]",
                         'answers': "['a', ['x']]", 'ordered': 'True'}, 'entry-invalid-for-subgrader'),
        V('ListGrader', {'subgraders': '[StringGrader(), StringGrader()]', 'ordered': 'True'},
          'subgrader-list-without-answers'),
        V('ListGrader', {'subgraders': "[StringGrader(), NumericalGrader(), FormulaGrader(variables=['x'])]",
                         'ordered': 'True', 'partial_credit': 'False'}, 'subgrader-list-without-answers'),
        V('ListGrader', {'subgraders': PAIR, 'answers': ANIMALS, 'grouping': '[1, 1, 2, 2, 3, 3]'}, 'grouping'),
        V('ListGrader', {'subgraders': PAIR, 'answers': ANIMALS, 'grouping': '[1, 2, 3, 1, 2, 3]'}, 'grouping'),
        V('ListGrader', {'subgraders': PAIR, 'answers': ANIMALS, 'grouping': '[1, 1, 2, 2, 3, 3]', 'ordered': 'True'},
          'grouping'),
        X('ListGrader', {'subgraders': 'StringGrader()', 'answers': "['a', 'b', 'c']", 'grouping': '[1, 1, 2, 2, 3, 3]'},
          'grouping-needs-listgrader'),
        X('ListGrader', {'subgraders': 'NumericalGrader()', 'answers': "['1', '2']", 'grouping': '[1, 2]'},
          'grouping-needs-listgrader'),
        X('ListGrader', {'subgraders': PAIR, 'answers': ANIMALS, 'grouping': '[1, 1, 2, 2, 4, 4]'},
          'grouping-not-contiguous'),
        X('ListGrader', {'subgraders': PAIR, 'answers': ANIMALS, 'grouping': '[2, 2, 3, 3, 4, 4]'},
          'grouping-not-contiguous'),
        X('ListGrader', {'subgraders': PAIR, 'answers': ANIMALS, 'grouping': '[1, 1, 2, 2, 3]'},
          'unordered-unequal-groups'),
        X('ListGrader', {'subgraders': PAIR, 'answers': ANIMALS, 'grouping': '[1, 1, 1, 2, 3, 3]'},
          'unordered-unequal-groups'),
        V('ListGrader', {'subgraders': '[ListGrader(subgraders=StringGrader()), StringGrader()]',
                         'answers': "[['a', 'b', 'c'], 'd']", 'ordered': 'True', 'grouping': '[1, 1, 1, 2]'},
          'ordered-unequal-groups-with-subgrader-list'),
        V('ListGrader', {'subgraders': '[ListGrader(subgraders=StringGrader()), StringGrader()]',
                         'answers': "[['a', 'b', 'c'], 'd']", 'ordered': 'True', 'grouping': '[1, 2, 1, 1]'},
          'ordered-unequal-groups-with-subgrader-list'),
        X('ListGrader', {'subgraders': '[StringGrader(), StringGrader()]', 'answers': "['a', 'd']", 'ordered': 'True',
                         'grouping': '[1, 1, 1, 2]'}, 'group-needs-listgrader'),
        X('ListGrader', {'subgraders': '[StringGrader(), ListGrader(subgraders=StringGrader())]',
                         'answers': "['d', ['a', 'b', 'c']]", 'ordered': 'True', 'grouping': '[1, 1, 1, 2]'},
          'group-needs-listgrader'),
        X('ListGrader', {'subgraders': '[ListGrader(subgraders=StringGrader()), StringGrader()]',
                         'answers': "[['a', 'b', 'c'], 'd']", 'ordered': 'True', 'grouping': '[1, 1, 2, 3]'},
          'groups-subgraders-count'),
        X('ListGrader', {'subgraders': '[ListGrader(subgraders=StringGrader()), StringGrader()]',
                         'answers': "[['a', 'b', 'c'], 'd']", 'ordered': 'True', 'grouping': '[1, 1, 1, 1]'},
          'groups-subgraders-count'),
        V('ListGrader', {'subgraders': '[StringGrader(), StringGrader()]', 'answers': "['a', 'b']", 'ordered': 'True',
                         'grouping': '[2, 1]'}, 'singleton-groups-with-item-graders'),
        X('ListGrader', {'subgraders': PAIR, 'answers': "[['cat', '1'], ['dog']]", 'grouping': '[1, 1, 2, 2]'},
          'nested-single-answer'),
        # IntervalGrader: brackets and delimiter against the answers
        X('IntervalGrader', {'answers': "'[1,2)'", 'opening_brackets': "'('"}, 'bracket-not-allowed'),
        X('IntervalGrader', {'answers': "'[1,2)'", 'closing_brackets': "']'"}, 'bracket-not-allowed'),
        X('IntervalGrader', {'answers': "'{1,2}'"}, 'bracket-not-allowed'),
        V('IntervalGrader', {'answers': "'{1,2}'", 'opening_brackets': "'[{'", 'closing_brackets': "'}]'"},
          'bracket-allowed'),
        X('IntervalGrader', {'answers': "['[(', '1', '2', ')']"}, 'bracket-not-single-character'),
        X('IntervalGrader', {'answers': "[('[', '{'), '1', '2', ')']"}, 'bracket-not-allowed'),
        V('IntervalGrader', {'answers': "[('[', '('), '1', '2', ')']"}, 'bracket-alternatives'),
        V('IntervalGrader', {'answers': "'[1:2)'", 'delimiter': "':'"}, 'delimiter-matches-answers'),
        X('IntervalGrader', {'answers': "'[1,2)'", 'delimiter': "':'"}, 'delimiter-does-not-match-answers'),
        X('IntervalGrader', {'answers': "'[1:2)'"}, 'delimiter-does-not-match-answers'),
        V('IntervalGrader', {'answers': "'[a,b^2]'", 'subgrader': "FormulaGrader(variables=['a', 'b'])"},
          'formula-subgrader'),
        X('IntervalGrader', {'answers': "['[', 5, '2', ')']"}, 'entry-invalid-for-subgrader'),
        # SumGrader input positions
        X('SumGrader', {'answers': SUM_ANS, 'input_positions': "{'lower': 2, 'upper': 3}"}, 'positions-not-from-1'),
        X('SumGrader', {'answers': SUM_ANS, 'input_positions': "{'lower': 1, 'upper': 2, 'summand': 2}"},
          'positions-repeated'),
        X('SumGrader', {'answers': SUM_ANS, 'input_positions': "{'lower': 1, 'upper': 2, 'summand': 4}"},
          'positions-gap'),
        V('SumGrader', {'answers': SUM_ANS, 'input_positions': "{'summation_variable': 1, 'summand': 2}"},
          'positions-subset'),
        # SpecifyDomain
        X('SpecifyDomain', {'input_shapes': '[1, 1]', 'min_length': '2'}, 'min_length-needs-single-shape'),
        X('SpecifyDomain', {'input_shapes': '[]', 'min_length': '1'}, 'min_length-needs-single-shape'),
        V('SpecifyDomain', {'input_shapes': '[3]', 'min_length': '2'}, 'min_length-single-shape'),
        V('SpecifyDomain', {'input_shapes': '[1, 1]'}, 'no-min_length'),
    ]
    return out


def items_rules(tier):
    for k, s in enumerate(scenarios()):
        yield dict(s, seed=100 + k)


def judge_rules(spec, rec):
    rec.nontrivial()
    return judge_config(spec['cls'], spec['cfg'], rec, seed=spec.get('seed', 0), expect=spec['expect'],
                        label=spec['label'])


# ----------------------------------------------------------------------------------------------------------------
# part 3 (exhaustive): SquareMatrices combinations against the documented impossible/unsupported cases

def items_square(tier):
    for sym in ('None', "'diagonal'", "'symmetric'", "'antisymmetric'", "'hermitian'", "'antihermitian'"):
        for tr in ('False', 'True'):
            for det in ('None', '0', '1'):
                for cx in ('False', 'True'):
                    for dim in ('2', '3', '4', '5'):
                        yield {'cls': 'SquareMatrices', 'seed': 0,
                               'cfg': {'symmetry': sym, 'traceless': tr, 'determinant': det, 'complex': cx,
                                       'dimension': dim}}


# ----------------------------------------------------------------------------------------------------------------
# part 4 (exhaustive): documented equivalences between two ways of writing the same configuration

def items_equiv(tier):
    for a, b in EQUIV:
        yield {'a': a, 'b': b}


def judge_equiv(spec, rec):
    rec.nontrivial()
    sa, oa = call(ev, spec['a'])
    sb, ob = call(ev, spec['b'])
    rec.calls(2)
    for s, o, e in ((sa, oa, spec['a']), (sb, ob, spec['b'])):
        if classify(s, o) != 'ok':
            raise Violation('rejected-valid/equivalence', 'documented construction %s raised %s' % (e, o))
    if lib_equal(oa, ob) is False or not same(oa.config, ob.config):
        raise Violation('equivalence/not-equal', '%s != %s: %s versus %s' % (spec['a'], spec['b'], brief(oa.config),
                                                                           brief(ob.config)))
    rec.cls('documented-equivalence')
    return {'equal': True}


# ----------------------------------------------------------------------------------------------------------------
# part 5 (random): multi-option combinations

MULTI_WEIGHTS = {'grader': 5, 'sampler': 1, 'comparer': 2, 'credit': 1, 'other': 1}
MULTI_CLASSES = [n for n in sorted(TABLE) for _ in range(MULTI_WEIGHTS[TABLE[n].kind]) if TABLE[n].opts]


@st.composite
def multi_specs(draw):
    name = draw(st.sampled_from(MULTI_CLASSES))
    cls = TABLE[name]
    names = sorted(cls.opts)
    opts = draw(st.lists(st.sampled_from(names), min_size=min(2, len(names)), max_size=min(6, len(names)),
                         unique=True))
    nbad = draw(st.sampled_from([0, 0, 0, 0, 0, 1, 1, 2]))
    cfg = dict(cls.base)
    for i, o in enumerate(opts):
        opt = cls.opts[o]
        pool = opt.bad if (i < nbad and opt.bad) or not opt.good else opt.good
        cfg[o] = draw(st.sampled_from(pool))
    if draw(st.integers(0, 19)) == 0:
        cfg['nosuchoption'] = '1'
    return {'cls': name, 'cfg': cfg, 'seed': draw(st.integers(0, 10 ** 6))}


def strat_multi(tier):
    return multi_specs()


def judge_multi(spec, rec):
    name, exprs = spec['cls'], spec['cfg']
    rec.nontrivial(nontrivial_cfg(name, exprs))
    rec.cls('multi-option')
    return judge_config(name, exprs, rec, seed=spec['seed'], nprobes=2)


# ----------------------------------------------------------------------------------------------------------------
# part 6 (random): answers structures in every documented format, with random defects

WORDS = st.sampled_from(['a', 'b', 'c', 'x', 'y', 'cat', 'dog', 'x+1', '2*y', 'A'])
GRADES = st.sampled_from([0, 1, 0.5, 0.25, 1.0, 0.0, 0.75])


class Flag:
    def __init__(self):
        self.bad = False


@st.composite
def item_answer(draw, flag, leaf=WORDS):
    """one ItemGrader answer: expect value or dictionary"""
    def expect_value():
        if draw(st.integers(0, 3)) == 0:
            return tuple(draw(st.lists(leaf, min_size=1, max_size=3)))
        return draw(leaf)
    if draw(st.booleans()):
        return draw(leaf)
    d = {'expect': expect_value()}
    if draw(st.booleans()):
        d['grade_decimal'] = draw(GRADES)
    if draw(st.booleans()):
        d['msg'] = draw(st.sampled_from(['', 'm', 'Well done!']))
    if draw(st.integers(0, 4)) == 0:
        d['ok'] = draw(st.sampled_from(['computed', True, False, 'partial']))
    if draw(st.integers(0, 11)) == 0:
        flag.bad = True
        kind = draw(st.integers(0, 5))
        if kind == 0:
            d['grade_decimal'] = draw(st.sampled_from([1.5, -0.25, '1', None]))
        elif kind == 1:
            d['msg'] = draw(st.sampled_from([5, None, ['m']]))
        elif kind == 2:
            d['ok'] = draw(st.sampled_from(['yes', 'maybe', 2]))
        elif kind == 3:
            d['nosuch'] = 1
        elif kind == 4:
            del d['expect']
            d.setdefault('msg', 'm')
        else:
            d['expect'] = draw(st.sampled_from([5, None, ('a', 5), {'a': 1}]))
    return d


@st.composite
def tuple_or_single(draw, elem):
    if draw(st.integers(0, 2)) == 0:
        return tuple(draw(st.lists(elem, min_size=1, max_size=3)))
    return draw(elem)


@st.composite
def answers_specs(draw):
    flag = Flag()
    which = draw(st.sampled_from(['StringGrader', 'FormulaGrader', 'SingleListGrader', 'SingleListGrader',
                                  'ListGrader', 'ListGrader']))
    cfg = {}
    if which in ('StringGrader', 'FormulaGrader'):
        if which == 'FormulaGrader':
            cfg['variables'] = "['a', 'b', 'c', 'x', 'y', 'cat', 'dog', 'A']"
        ans = draw(tuple_or_single(item_answer(flag)))
    elif which == 'SingleListGrader':
        cfg['subgrader'] = draw(st.sampled_from(['StringGrader()', "FormulaGrader(variables=['a', 'b', 'c', 'x', "
                                                 "'y', 'cat', 'dog', 'A'])"]))
        n = draw(st.integers(1, 3))
        words = st.sampled_from(['a', 'b', 'c', 'x', 'y', 'A'])

        def one_list():
            if draw(st.integers(0, 3)) == 0:
                return ','.join(draw(st.lists(words, min_size=n, max_size=n)))
            return draw(st.lists(item_answer(flag, leaf=words), min_size=n, max_size=n))

        def one_answer():
            if draw(st.booleans()):
                return one_list()
            e = one_list() if draw(st.booleans()) else tuple(one_list() for _ in range(draw(st.integers(1, 2))))
            d = {'expect': e}
            if draw(st.booleans()):
                d['grade_decimal'] = draw(GRADES)
            if draw(st.booleans()):
                d['msg'] = 'list msg'
            return d
        ans = tuple(one_answer() for _ in range(draw(st.integers(1, 3)))) if draw(st.booleans()) else one_answer()
        if draw(st.integers(0, 14)) == 0:
            flag.bad = True
            ans = draw(st.sampled_from([5, None, {'expect': 5}, {'expect': ['a', 'b'], 'grade_decimal': 3}]))
    else:
        cfg['subgraders'] = draw(st.sampled_from(['StringGrader()', "FormulaGrader(variables=['a', 'b', 'c', 'x', "
                                                  "'y', 'cat', 'dog', 'A'])"]))
        n = draw(st.integers(2, 4))
        lists = [draw(st.lists(item_answer(flag), min_size=n, max_size=n)) for _ in range(draw(st.integers(1, 3)))]
        ans = lists[0] if len(lists) == 1 and draw(st.booleans()) else tuple(lists)
        if draw(st.integers(0, 14)) == 0:
            flag.bad = True
            ans = draw(st.sampled_from([5, None, 'ab', ['a'], ('a', 'b'), {'expect': ['a', 'b']}]))
    cfg['answers'] = repr(ans)
    return {'cls': which, 'cfg': cfg, 'expect': 'invalid' if flag.bad else 'valid',
            'label': 'out-of-domain/answers' if flag.bad else 'in-domain', 'seed': draw(st.integers(0, 10 ** 6))}


def strat_answers(tier):
    return answers_specs()


def judge_answers(spec, rec):
    rec.nontrivial(not (spec['cfg']['answers'].startswith("'")))
    rec.cls('answers-random')
    return judge_config(spec['cls'], spec['cfg'], rec, seed=spec['seed'], expect=spec['expect'], label=spec['label'],
                        nprobes=2)


PARTS = [
    Part('single', 'enum', judge_single, items=items_single, exhaustive=True),
    Part('rules', 'enum', judge_rules, items=items_rules, exhaustive=True),
    Part('square', 'enum', judge_single, items=items_square, exhaustive=True),
    Part('equiv', 'enum', judge_equiv, items=items_equiv, exhaustive=True),
    Part('multi', 'hyp', judge_multi, strategy=strat_multi, budget={'quick': 5000, 'thorough': 60000}),
    Part('answers', 'hyp', judge_answers, strategy=strat_answers, budget={'quick': 2500, 'thorough': 30000}),
]
