"""C13 - sampled variable sets are complete and dependent values are consistent."""
import itertools
import math

import numpy as np
from hypothesis import strategies as st

from vlib.core import Part, Violation, Discard, call, watchdog
from vlib import exprgen as X
from vlib.models import make_recorder

from mitxgraders import ListGrader, FormulaGrader, MatrixGrader, RealInterval, DependentSampler, RealVectors, DiscreteSet
from mitxgraders.exceptions import ConfigError, MITxError
from mitxgraders.sampling import gen_symbols_samples, set_seed

RULE = ("Random dependency DAGs of 2..8 variables (independent RealInterval / DiscreteSet / vector samplers with "
        "pairwise disjoint ranges so that provenance is visible; dependent variables with generated formulas over "
        "earlier variables, constants and numbered-variable instances), declared in a generated order (variables list "
        "and sample_from insertion order shuffled independently), 1..3 samples. Observed through gen_symbols_samples "
        "and through a real FormulaGrader call with a recording comparer that lists every name. Oracle: every declared "
        "variable, numbered instance, dependent and unshadowed constant has a value; independents lie in their own "
        "set; numbered instances lie in their base name's set (a specifically named variable wins); each dependent "
        "equals the reference evaluation of its formula on the same sample; samples of one call differ. Cyclic "
        "(self-loop, 2-cycle, long cycle) and dangling variants must raise ConfigError naming a participating symbol "
        "within 10 s. Non-trivial iff dependency depth >= 2 with a non-topological declaration order, or a diamond, or "
        "a numbered instance feeding a dependent, or a cyclic/dangling variant. Distinct by spec hash."
        " 'siblings' (exhaustive): ordered ListGraders whose subgrader refers to another box (sibling_k) in comparer parameters, a declared variable's DependentSampler and/or a numbered base name's DependentSampler. In the dags part the sampler objects are, in most valid cases, used before by another grader (inputs as constants) and in other declaration orders.")
ASSUMPTIONS = ["dependent formulas use total functions; ill-conditioned or >1e12 reference evaluations are discarded",
               "a numbered instance used inside a dependent formula also occurs in the graded expressions (otherwise "
               "the library reports it as an undefined dependency, which the property allows)"]
REQUIRED = {'depth>=2-nontopological': 150, 'diamond': 100, 'numbered-feeds-dependent': 40, 'cycle': 100,
            'dangling': 50, 'mode/grader': 300, 'mode/gss': 300, 'shadowed-constant': 30, 'vector': 50,
            'numbered-vs-named': 30, 'unsampled-key-in-sample_from': 100}

FUNCS = ['sin', 'cos', 'sqrt', 'abs', 'arctan', 'f', 'g']
LIBF = dict(FormulaGrader.default_functions)
LIBF.update(X.USER_FUNCS)
NUM_IDX = [0, 1, 12, -3]


def total_trees(var_names):
    """Formulas that are defined for every value of their variables (no division by expressions, no poles)."""
    nz = st.sampled_from([['num', '2', 2.0], ['num', '0.5', 0.5], ['num', '3', 3.0], ['num', '1.5', 1.5],
                          ['num', '4', 4.0], ['num', '.25', 0.25], ['num', '1e1', 10.0], ['num', '7', 7.0]])
    leaf = st.one_of(st.sampled_from(var_names).map(lambda v: ['var', v]),
                     st.sampled_from(var_names).map(lambda v: ['var', v]), nz,
                     st.sampled_from(['pi', 'e']).map(lambda v: ['var', v]))

    def ext(ch):
        return st.one_of(
            ch.map(lambda c: ['neg', c]),
            st.tuples(st.sampled_from(['add', 'sub', 'mul']), ch, ch).map(list),
            st.tuples(ch, st.sampled_from([['num', '2', 2.0], ['num', '3', 3.0]])).map(lambda p: ['pow', p[0], p[1]]),
            st.tuples(ch, nz).map(lambda p: ['div', p[0], p[1]]),
            st.tuples(st.sampled_from(['sin', 'cos', 'abs', 'arctan', 'f']), ch).map(lambda p: ['call', p[0], [p[1]]]),
            st.tuples(ch, ch).map(lambda p: ['call', 'g', [p[0], p[1]]]),
            ch.map(lambda c: ['call', 'sqrt', [['call', 'abs', [c]]]]),
        )
    return st.recursive(leaf, ext, max_leaves=6)


def vname(i):
    return ['u', 'v', 'w', 'x', 'y', 'z', 'p', 'q'][i]


@st.composite
def specs(draw):
    n = draw(st.integers(2, 8))
    mode = draw(st.sampled_from(['gss', 'grader']))
    numbered = mode == 'grader' and draw(st.integers(0, 2)) == 0
    nodes = []
    for i in range(n):
        name = vname(i)
        indep_names = [nd['name'] for nd in nodes if nd['kind'] != 'vec']
        if i == 0 or not indep_names or draw(st.integers(0, 9)) < 3:
            kind = draw(st.sampled_from(['ind', 'ind', 'ind', 'disc', 'vec', 'const-dep']))
            if kind == 'const-dep':
                # "dependence on constants": a dependent variable whose formula mentions constants only (the user constant
                # c0 = 42 and the defaults) - its value is the same in every sample OF THIS PROBLEM
                tree = draw(total_trees(['c0']))
                if 'c0' not in X.names_of(tree)['vars']:
                    tree = ['add', tree, ['var', 'c0']]
                nodes.append({'name': name, 'kind': 'dep', 'tree': tree})
                continue
            nodes.append({'name': name, 'kind': kind})
        else:
            k = draw(st.integers(1, min(3, len(indep_names))))
            deps = draw(st.lists(st.sampled_from(indep_names), min_size=k, max_size=k, unique=True))
            pool = list(deps)
            used_num = []
            if numbered and draw(st.integers(0, 1)):
                idx = draw(st.sampled_from(NUM_IDX))
                used_num = ['a_{%d}' % idx]
                pool = pool + used_num
            tree = draw(total_trees(pool))
            # make sure every chosen dependency really occurs (sum them in)
            have = X.names_of(tree)['vars']
            for d in pool:
                if d not in have:
                    tree = ['add', tree, ['var', d]]
            nodes.append({'name': name, 'kind': 'dep', 'tree': tree, 'tiny': draw(st.integers(0, 6)) == 0})
    order = draw(st.permutations(list(range(n))))
    sf_order = draw(st.permutations(list(range(n))))
    variant = draw(st.sampled_from([None, None, None, None, 'selfloop', 'cycle2', 'longcycle', 'dangling']))
    spec = {'nodes': nodes, 'order': list(order), 'sf_order': list(sf_order), 'mode': mode,
            'samples': draw(st.integers(1, 3)), 'seed': draw(st.integers(0, 10 ** 6)), 'variant': variant,
            'numbered': numbered, 'named_instance': numbered and draw(st.booleans()),
            'shadow': mode == 'gss' and draw(st.integers(0, 3)) == 0,
            'student_idx': draw(st.lists(st.sampled_from(NUM_IDX), min_size=1, max_size=3, unique=True))}
    return spec


TINY = 1e-20


def formula_of(nd):
    """Formula text of a dependent node; 'tiny' nodes are multiplied by 1e-20*i: a value whose imaginary part is far below
    any 'close to real' threshold and still is what the formula says (a seeded change passed dependent values through
    numpy.real_if_close, turning them into 0.0)."""
    text = X.render(nd['tree'])
    return '(%s)*1e-20*i' % text if nd.get('tiny') else text


def ranges(i):
    return (i + 1.0, i + 1.5)


def build(spec):
    """-> names(list in declaration order), sample_from dict (in sf_order insertion order), node table"""
    nodes = spec['nodes']
    table = {nd['name']: nd for nd in nodes}
    idx = {nd['name']: i for i, nd in enumerate(nodes)}
    samplers = {}
    for nd in nodes:
        i = idx[nd['name']]
        lo, hi = ranges(i)
        if nd['kind'] == 'ind':
            samplers[nd['name']] = RealInterval([lo, hi])
        elif nd['kind'] == 'disc':
            samplers[nd['name']] = DiscreteSet((lo, lo + 0.25, hi))
        elif nd['kind'] == 'vec':
            samplers[nd['name']] = RealVectors(shape=2, norm=[lo, hi])
        else:
            samplers[nd['name']] = DependentSampler(formula=formula_of(nd))
    # cyclic / dangling variants
    deps_nodes = [nd for nd in nodes if nd['kind'] == 'dep' and X.names_of(nd['tree'])['vars'] & set(table)]
    v = spec['variant']
    involved = None
    if v and not deps_nodes and v != 'selfloop':
        raise Discard('variant-needs-a-dependent')
    if v == 'selfloop':
        t = nodes[-1]['name']
        samplers[t] = DependentSampler(formula='%s+1' % t)
        involved = {t}
    elif v == 'cycle2':
        a = deps_nodes[0]
        b = sorted(X.names_of(a['tree'])['vars'] & set(table))[0]
        samplers[b] = DependentSampler(formula='%s*2' % a['name'])
        involved = {a['name'], b}
    elif v == 'longcycle':
        a = deps_nodes[-1]
        # walk down to a root of a's dependency chain and make that root depend on a
        cur = a
        chain = {a['name']}
        while True:
            ds = sorted(X.names_of(cur['tree'])['vars'] & set(table)) if cur['kind'] == 'dep' else []
            nxt = [table[d] for d in ds]
            if not nxt:
                break
            cur = nxt[0]
            chain.add(cur['name'])
        if cur['name'] == a['name']:
            raise Discard('variant-not-applicable')
        samplers[cur['name']] = DependentSampler(formula='%s-1' % a['name'])
        involved = chain
    elif v == 'dangling':
        a = deps_nodes[0]
        samplers[a['name']] = DependentSampler(formula='nosuch_1+%s' % X.render(a['tree']))
        involved = {'nosuch_1'}
    names = [nodes[i]['name'] for i in spec['order']]
    sf = {}
    for i in spec['sf_order']:
        sf[nodes[i]['name']] = samplers[nodes[i]['name']]
    return names, sf, table, involved


def depth_info(spec):
    table = {nd['name']: nd for nd in spec['nodes']}
    depth, diamond = {}, False
    for nd in spec['nodes']:
        if nd['kind'] != 'dep':
            depth[nd['name']] = 0
        else:
            ds = X.names_of(nd['tree'])['vars'] & set(table)
            depth[nd['name']] = 1 + max([depth[d] for d in ds] or [0])
    # diamond: some dependent reaches the same ancestor through two different direct dependencies
    anc = {}
    for nd in spec['nodes']:
        if nd['kind'] != 'dep':
            anc[nd['name']] = set()
        else:
            ds = sorted(X.names_of(nd['tree'])['vars'] & set(table))
            sets = [anc[d] | {d} for d in ds]
            for i in range(len(sets)):
                for j in range(i + 1, len(sets)):
                    if sets[i] & sets[j]:
                        diamond = True
            anc[nd['name']] = set().union(*sets) if sets else set()
    pos = {spec['nodes'][i]['name']: k for k, i in enumerate(spec['order'])}
    nontopo = any(pos[d] > pos[nd['name']] for nd in spec['nodes'] if nd['kind'] == 'dep'
                  for d in X.names_of(nd['tree'])['vars'] & set(table))
    return max(depth.values()), diamond, nontopo


def check_sample(spec, table, sample, extra_expected, rec, where):
    """sample: dict name -> value (all declared names present)."""
    nodes = spec['nodes']
    idx = {nd['name']: i for i, nd in enumerate(nodes)}
    for nd in nodes:
        nm = nd['name']
        if nm not in sample:
            raise Violation('missing-variable', '%s: no value for declared variable %r in %r' % (where, nm, sorted(sample)))
    for nd in nodes:
        nm = nd['name']
        val = sample[nm]
        lo, hi = ranges(idx[nm])
        if nd['kind'] == 'ind':
            if not (isinstance(val, float) and lo <= val <= hi):
                raise Violation('independent-out-of-set', '%s: %s = %r not in [%r, %r]' % (where, nm, val, lo, hi))
        elif nd['kind'] == 'disc':
            if val not in (lo, lo + 0.25, hi):
                raise Violation('independent-out-of-set', '%s: %s = %r not in its discrete set' % (where, nm, val))
        elif nd['kind'] == 'vec':
            nv = float(np.linalg.norm(np.asarray(val)))
            if np.shape(val) != (2,) or not (lo * (1 - 1e-9) <= nv <= hi * (1 + 1e-9)):
                raise Violation('independent-out-of-set', '%s: vector %s = %r (norm %r) outside [%r, %r]' % (
                    where, nm, val, nv, lo, hi))
            rec.cls('vector')
    env = {k: (complex(v) if isinstance(v, complex) else float(v)) for k, v in sample.items()
           if isinstance(v, (int, float, complex)) and not isinstance(v, bool)}
    env.update({'pi': math.pi, 'e': math.e, 'i': 1j, 'j': 1j, 'c0': 42.0})
    for nd in nodes:
        if nd['kind'] != 'dep':
            continue
        try:
            ref, tol = X.ref_with_conditioning(nd['tree'], env)
        except Discard:
            rec.note('dependent-not-judged')
            continue
        val = sample[nd['name']]
        if nd.get('tiny') and isinstance(val, (int, float, complex)):
            if abs(ref) < 1e-3:
                rec.note('dependent-not-judged')
                continue
            val = complex(val) / (TINY * 1j)
            rec.cls('dependent-with-tiny-imaginary-value')
        if not isinstance(val, (int, float, complex)) or abs(val - ref) > tol:
            raise Violation('dependent-inconsistent', '%s: %s = %r but its formula %r gives %r on the same sample' % (
                where, nd['name'], val, X.render(nd['tree']), ref))
        rec.note('dependent-judged')


def judge(spec, rec):
    names, sf, table, involved = build(spec)
    consts = {'pi': math.pi, 'e': math.e, 'i': 1j, 'j': 1j, 'c0': 42.0}
    depth, diamond, nontopo = depth_info(spec)
    variant = spec['variant']
    rec.cls('mode/' + spec['mode'])
    student = None
    if spec['mode'] == 'gss':
        symbols = list(names)
        constants = dict(consts)
        if spec['shadow']:
            # a constant with the same name as a declared variable is shadowed by the variable
            constants[names[0]] = 99.0
            rec.cls('shadowed-constant')
        if spec['seed'] % 2 == 0:
            # sample_from may hold entries for names that are not sampled symbols (graders keep the base names of
            # numbered variables there); a constant of that name is NOT shadowed and must stay in every sample
            sf = dict(sf)
            sf['c0'] = RealInterval([50, 51])
            rec.cls('unsampled-key-in-sample_from')
        if not variant and spec['seed'] % 3 != 1:
            # the same sampler OBJECTS were used before, with the symbols declared in two other orders (reversed, rotated):
            # what a sampler learnt then (e.g. which dependencies were still outstanding) must not carry over
            for other in (list(reversed(symbols)), symbols[1:] + symbols[:1]):
                with watchdog(10):
                    call(gen_symbols_samples, other, 1, dict(reversed(list(sf.items()))), LIBF, {'%': 0.01}, constants)
            rec.cls('sampler-objects-used-before-in-other-declaration-orders')
        set_seed(spec['seed'])
        with watchdog(10):
            kind, out = call(gen_symbols_samples, symbols, spec['samples'], sf, LIBF, {'%': 0.01}, constants)
        rec.calls()
    else:
        sink = []
        params = list(names)
        num_used = set()
        for nd in spec['nodes']:
            if nd['kind'] == 'dep':
                num_used |= {v for v in X.names_of(nd['tree'])['vars'] if v.startswith('a_{')}
        student_terms = ['a_{%d}' % i for i in spec['student_idx']] if spec['numbered'] else []
        allnum = sorted(num_used | set(student_terms))
        params += allnum + ['pi', 'c0']
        variables = list(names)
        sample_from = dict(sf)
        if spec['numbered']:
            sample_from['a'] = RealInterval([20, 21])
            if spec['named_instance']:
                # a plain variable literally named a_{1} beside the numbered variable a
                variables.append('a_{1}')
                sample_from['a_{1}'] = RealInterval([30, 31])
                if 'a_{1}' not in params:
                    params.insert(len(names), 'a_{1}')
                    allnum = sorted(set(allnum) | {'a_{1}'})
        scal = [nd['name'] for nd in spec['nodes'] if nd['kind'] != 'vec']
        student = '+'.join(student_terms + scal[:1]) if (student_terms or scal) else '1'
        uconst = {'c0': 42.0}
        if spec['numbered']:
            # a constant named like the numbered-variable base name: no variable shadows it, it must be available
            uconst['a'] = 2.5
            params.append('a')
            # ... and a constant named like an INSTANCE of the numbered variable: the instance used in the
            # expressions is a variable drawn from the base name's set and shadows the constant
            uconst['a_{12}'] = 100.0
            if 'a_{12}' not in params:
                params.insert(len(names), 'a_{12}')
                allnum = sorted(set(allnum) | {'a_{12}'})
        if not variant and spec['seed'] % 2 == 0:
            # object sharing: each DependentSampler OBJECT of this problem first serves another grader, in which the names
            # it depends on are CONSTANTS rather than variables (an author may reuse a sampler; what the other grader
            # makes of it must not change it)
            for nd in spec['nodes']:
                if nd['kind'] != 'dep':
                    continue
                used = X.names_of(nd['tree'])['vars']
                if any(u.startswith('a_{') or table.get(u, {}).get('kind') == 'vec' for u in used):
                    continue
                call(lambda nd=nd, used=used: MatrixGrader(
                    variables=[nd['name']], sample_from={nd['name']: sf[nd['name']]}, answers=nd['name'],
                    user_constants={u: 1.5 for u in used}, user_functions=X.USER_FUNCS)(None, nd['name']))
                rec.cls('dependent-sampler-object-shared-with-another-grader')
        if not variant and spec['seed'] % 3 != 1 and not spec['numbered']:
            # ... and a grader that declares the same variables in the reverse order, sharing every sampler object
            call(lambda: MatrixGrader(variables=list(reversed(variables)), sample_from=dict(reversed(list(sample_from.items()))),
                                      answers='1', user_constants={'c0': 42.0}, user_functions=X.USER_FUNCS,
                                      max_array_dim=2)(None, '1'))
            rec.cls('sampler-objects-used-before-in-other-declaration-orders')
        cfg = dict(answers={'comparer_params': params, 'comparer': make_recorder(sink)}, variables=variables,
                   sample_from=sample_from, samples=spec['samples'], user_constants=uconst,
                   user_functions=X.USER_FUNCS, numbered_vars=['a'] if spec['numbered'] else [])
        if not variant and spec['seed'] % 5 == 0:
            # the constant a MatrixGrader supplies by itself: with identity_dim=2 the identity matrix I is part of every
            # sample, so a dependent variable may use it.  Every dependent formula is multiplied by det(I) (= 1.0, exact):
            # values stay what the reference computes.  (A seeded change validated dependencies at construction, before
            # the grader had added I to its constants, and refused such configurations.)
            for nd in spec['nodes']:
                if nd['kind'] == 'dep':
                    sample_from[nd['name']] = DependentSampler(formula='(%s)*det(I)' % formula_of(nd))
                    rec.cls('dependent-uses-grader-supplied-identity-constant')
            cfg['identity_dim'] = 2
        kind, g = call(MatrixGrader, **cfg)
        if kind == 'err':
            if variant and isinstance(g, ConfigError):
                pass
            elif isinstance(g, MITxError):
                raise Violation('valid-configuration-refused', 'construction raised %s: %s' % (type(g).__name__, g))
            else:
                raise g
            out = g
        else:
            set_seed(spec['seed'])
            with watchdog(10):
                kind, out = call(g, None, student)
            rec.calls()
    if variant:
        rec.cls('cycle' if variant != 'dangling' else 'dangling')
        rec.nontrivial()
        if kind == 'ok':
            raise Violation('cycle-or-dangling-yields-value', '%s dependency accepted; result %r' % (variant, str(out)[:200]))
        if not isinstance(out, ConfigError):
            if isinstance(out, MITxError):
                raise Violation('cycle-or-dangling-wrong-error', '%s dependency raised %s (%s), not ConfigError' % (
                    variant, type(out).__name__, str(out)[:200]))
            raise out
        msg = str(out)
        if not any(s in msg for s in involved):
            raise Violation('cycle-message', '%s: ConfigError %r names none of the participating symbols %s' % (
                variant, msg, sorted(involved)))
        return {'variant': variant, 'error': msg[:150]}
    if kind == 'err':
        if isinstance(out, MITxError):
            raise Violation('valid-configuration-raised', '%s mode raised %s: %s' % (
                spec['mode'], type(out).__name__, str(out)[:300]))
        raise out
    if spec['mode'] == 'gss':
        samples = out
        if len(samples) != spec['samples']:
            raise Violation('sample-count', 'asked for %d samples, got %d' % (spec['samples'], len(samples)))
        for k, sd in enumerate(samples):
            check_sample(spec, table, sd, None, rec, 'gen_symbols_samples sample %d' % k)
            for c, cv in consts.items():
                if c not in sd or sd[c] != cv:
                    raise Violation('constant-missing', 'sample %d lacks constant %r (has %r)' % (k, c, sd.get(c)))
            if spec['shadow']:
                nm = names[0]
                if isinstance(sd[nm], float) and sd[nm] == 99.0:
                    raise Violation('constant-shadows-variable', 'variable %r took the constant\'s value' % nm)
    else:
        if len(sink) != spec['samples']:
            raise Violation('sample-count', 'comparer saw %d samples, configured %d' % (len(sink), spec['samples']))
        for k, (vals, stu) in enumerate(sink):
            sd = dict(zip(params, vals))
            check_sample(spec, table, sd, None, rec, 'grader sample %d' % k)
            if sd['pi'] != math.pi or sd['c0'] != 42.0:
                raise Violation('constant-missing', 'constants seen by the comparer: pi=%r c0=%r' % (sd['pi'], sd['c0']))
            if spec['numbered'] and sd['a'] != 2.5:
                raise Violation('constant-missing', 'constant a=2.5 (same name as the numbered base) seen as %r' % (sd['a'],))
            for nm in allnum:
                v = sd[nm]
                if nm == 'a_{1}' and spec['named_instance']:
                    if not (30 <= v <= 31):
                        raise Violation('named-variable-does-not-win',
                                        'a_{1} is declared on its own (range [30,31]) but got %r' % v)
                    rec.cls('numbered-vs-named')
                elif not (isinstance(v, float) and 20 <= v <= 21):
                    raise Violation('numbered-instance-out-of-base-set', '%s = %r not in its base name\'s set [20,21]' % (nm, v))
            # the student's value must be computed from the same sample
            if spec['numbered'] or True:
                terms = [t for t in student.split('+') if t != '1']
                try:
                    ref = sum(sd[t] for t in terms) if terms else 1.0
                except TypeError:
                    ref = None
                if ref is not None and not isinstance(ref, np.ndarray) and abs(stu - ref) > 1e-9 * max(1, abs(ref)):
                    raise Violation('student-evaluated-on-other-sample', 'student %r evaluated to %r, the recorded sample gives %r' % (student, stu, ref))
        if num_used:
            rec.cls('numbered-feeds-dependent')
    # samples of one call must not all be identical when there is a continuous independent variable
    if spec['samples'] > 1 and any(nd['kind'] == 'ind' for nd in spec['nodes']):
        seq = samples if spec['mode'] == 'gss' else [dict(zip(params, v)) for v, _ in sink]
        nm = [nd['name'] for nd in spec['nodes'] if nd['kind'] == 'ind'][0]
        if len({repr(s[nm]) for s in seq}) == 1:
            raise Violation('stale-sample-reuse', 'all %d samples have the same value of %s' % (len(seq), nm))
    if depth >= 2 and nontopo:
        rec.cls('depth>=2-nontopological')
    if diamond:
        rec.cls('diamond')
    rec.nontrivial((depth >= 2 and nontopo) or diamond or (spec['mode'] == 'grader' and bool(num_used)))
    return {'declared': names, 'depth': depth, 'diamond': diamond,
            'formulas': {nd['name']: X.render(nd['tree']) for nd in spec['nodes'] if nd['kind'] == 'dep'}}



# ----------------------------------------------------------------------------------------------------
# part 'siblings': in an ordered ListGrader the other boxes' submissions are dependent variables (sibling_k) of a box's
# sample; they may feed comparer parameters, DependentSamplers of declared variables and of numbered-variable base names

SIB_FORMS = ['x^2', 'x+y', '2*x', 'x*y+1', 'y^2-x', '3', 'x']


def _sib_eval(form, x, y):
    return {'x^2': x * x, 'x+y': x + y, '2*x': 2 * x, 'x*y+1': x * y + 1, 'y^2-x': y * y - x, '3': 3.0, 'x': x}[form]


def items_siblings(tier):
    # where the sibling reference sits (any non-empty subset of the three places) x which sibling x box count x forms
    for places in itertools.product((0, 1), repeat=3):
        if not any(places):
            continue
        for nbox in (2, 3, 4):
            for target in range(nbox):                 # the box whose samples are recorded
                others = [k for k in range(nbox) if k != target]
                for ref in others:
                    for fi in range(len(SIB_FORMS)):
                        yield {'places': list(places), 'nbox': nbox, 'target': target, 'ref': ref,
                               'forms': [SIB_FORMS[(fi + 2 * k) % len(SIB_FORMS)] for k in range(nbox)],
                               'samples': 1 + (fi + nbox) % 3, 'seed': 100 * nbox + 10 * target + fi}


def judge_siblings(spec, rec):
    in_params, in_plain_dep, in_numbered_dep = spec['places']
    nbox, target, ref = spec['nbox'], spec['target'], spec['ref']
    sib = 'sibling_%d' % (ref + 1)
    sink = []
    sample_from = {'x': RealInterval([1, 2]), 'y': RealInterval([3, 4])}
    variables = ['x', 'y']
    params = ['x', 'y']
    if in_plain_dep:
        variables.append('d')
        sample_from['d'] = DependentSampler(formula='%s+x' % sib)
        params.append('d')
    if in_numbered_dep:
        sample_from['a'] = DependentSampler(formula='%s*2+y' % sib)
        params.append('a_{7}')
    else:
        sample_from['a'] = RealInterval([20, 21])
        params.append('a_{7}')
    if in_params:
        params.append(sib)
    sub = FormulaGrader(variables=variables, numbered_vars=['a'], sample_from=sample_from, samples=spec['samples'])
    answers = [f for f in spec['forms']]
    answers[target] = {'comparer_params': params, 'comparer': make_recorder(sink)}
    kind, g = call(ListGrader, answers=answers, subgraders=sub, ordered=True)
    if kind == 'err':
        if isinstance(g, MITxError):
            raise Violation('valid-configuration-refused', 'ListGrader with sibling references: %s: %s' % (type(g).__name__, g))
        raise g
    inputs = list(spec['forms'])
    inputs[target] = 'x+y'
    set_seed(spec['seed'])
    with watchdog(10):
        kind, out = call(g, None, inputs)
    rec.calls()
    if kind == 'err':
        if isinstance(out, MITxError):
            raise Violation('valid-configuration-raised', 'sibling mode (reference in %s) raised %s: %s' % (
                [n for n, f in zip(('comparer_params', 'dependent variable', 'numbered base sampler'), spec['places']) if f],
                type(out).__name__, str(out)[:300]))
        raise out
    if len(sink) != spec['samples']:
        raise Violation('sample-count', 'comparer saw %d samples, configured %d' % (len(sink), spec['samples']))
    for k, (vals, stu) in enumerate(sink):
        sd = dict(zip(params, vals))
        x, y = sd['x'], sd['y']
        if not (1 <= x <= 2 and 3 <= y <= 4):
            raise Violation('independent-out-of-set', 'sibling sample %d: x=%r y=%r' % (k, x, y))
        sv = _sib_eval(inputs[ref], x, y)
        want = {'d': sv + x, sib: sv}
        if in_numbered_dep:
            want['a_{7}'] = sv * 2 + y
        for nm, w in want.items():
            if nm in sd and (not isinstance(sd[nm], (int, float)) or abs(sd[nm] - w) > 1e-9 * max(1, abs(w))):
                raise Violation('dependent-inconsistent', 'sibling sample %d: %s = %r but %s = %r evaluates to %r on the same '
                                'sample, so it should be %r' % (k, nm, sd[nm], sib, inputs[ref], sv, w))
        if not in_numbered_dep and not (20 <= sd['a_{7}'] <= 21):
            raise Violation('numbered-instance-out-of-base-set', 'a_{7} = %r not in [20,21]' % (sd['a_{7}'],))
        if abs(stu - (x + y)) > 1e-9:
            raise Violation('student-evaluated-on-other-sample', 'student x+y evaluated to %r, sample gives %r' % (stu, x + y))
    for nm, f in zip(('params', 'plain-dependent', 'numbered-base'), spec['places']):
        if f:
            rec.cls('sibling-in/' + nm)
    if spec['places'] == [0, 0, 1]:
        rec.cls('sibling-only-in-numbered-base-sampler')
    rec.nontrivial()
    return {'samples': len(sink)}


PARTS = [
    Part('siblings', 'enum', judge_siblings, items=items_siblings, exhaustive=True),
    Part('dags', 'hyp', judge, strategy=lambda tier: specs(), budget={'quick': 3000, 'thorough': 60000}),
]
