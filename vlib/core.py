"""Shared core: violations, discards, the per-worker recorder, parts of a check, canonical hashing."""
import hashlib
import json
import os
import signal
import traceback
from collections import Counter

REPO = os.path.realpath(os.environ.get('VERIF_REPO', '/repo'))
VERIF = os.path.dirname(os.path.dirname(os.path.abspath(__file__)))


class Violation(Exception):
    """The library broke the property on this case.  key = root-cause bucket (stable string)."""

    def __init__(self, key, msg, **extra):
        super().__init__(msg)
        self.key = key
        self.msg = msg
        self.extra = extra
        self.spec = None


class Discard(Exception):
    """The case is outside what the oracle can judge soundly (guard band, ill-conditioned, precondition)."""

    def __init__(self, reason):
        super().__init__(reason)
        self.reason = reason


class HarnessError(Exception):
    pass


class Watchdog(Exception):
    pass


class watchdog:
    """SIGALRM watchdog around a library call; expiry raises Watchdog inside the call."""

    def __init__(self, seconds):
        self.seconds = seconds

    def _handler(self, signum, frame):
        raise Watchdog('call exceeded %s s' % self.seconds)

    def __enter__(self):
        self.old = signal.signal(signal.SIGALRM, self._handler)
        signal.alarm(self.seconds)

    def __exit__(self, *a):
        signal.alarm(0)
        signal.signal(signal.SIGALRM, self.old)
        return False


def jsonable(o):
    """Best-effort conversion of observations to JSON-serialisable data (evidence samples, replay files)."""
    import numpy as np
    if isinstance(o, (str, int, bool)) or o is None:
        return o
    if isinstance(o, float):
        return o if o == o and abs(o) != float('inf') else repr(o)
    if isinstance(o, complex):
        return {'re': jsonable(o.real), 'im': jsonable(o.imag)}
    if isinstance(o, dict):
        return {str(k): jsonable(v) for k, v in o.items()}
    if isinstance(o, (list, tuple)):
        return [jsonable(v) for v in o]
    if isinstance(o, (set, frozenset)):
        return sorted(jsonable(v) for v in o)
    if isinstance(o, np.ndarray):
        return jsonable(o.tolist())
    if isinstance(o, np.generic):
        return jsonable(o.item())
    if isinstance(o, BaseException):
        return {'exc': type(o).__name__, 'msg': str(o)[:300]}
    return repr(o)[:300]


def canonical(spec):
    return json.dumps(jsonable(spec), sort_keys=True, separators=(',', ':'), ensure_ascii=True)


def spec_hash(spec):
    return hashlib.blake2b(canonical(spec).encode(), digest_size=8).digest()


class Rec:
    """Per-worker recorder.  Judges call cls()/nontrivial()/calls(); the driver does the rest."""
    MAX_SAMPLES = 6

    def __init__(self):
        self.cases = 0          # cases handed to a judge
        self.judged = 0         # cases judged (not discarded)
        self.lib_calls = 0      # library calls made by judges (self-reported)
        self.classes = Counter()
        self.discards = Counter()
        self.excluded_known = Counter()
        self.nontrivial_hashes = set()
        self.samples = []       # list of (hashhex, part, spec, obs): k smallest hashes -> spread over the run
        self._nt = False
        self.notes = Counter()
        self.maxima = {}

    # --- API for judges
    def cls(self, label, n=1):
        self.classes[label] += n

    def nontrivial(self, flag=True):
        if flag:
            self._nt = True

    def calls(self, n=1):
        self.lib_calls += n

    def note(self, label, n=1):
        self.notes[label] += n

    def maximum(self, label, value):
        if value > self.maxima.get(label, float('-inf')):
            self.maxima[label] = value

    # --- driver side
    def begin(self):
        self.cases += 1
        self._nt = False

    def end(self, part, spec, obs):
        self.judged += 1
        if self._nt:
            h = spec_hash(spec)
            if h not in self.nontrivial_hashes:
                self.nontrivial_hashes.add(h)
                hx = h.hex()
                if len(self.samples) < self.MAX_SAMPLES or hx < self.samples[-1][0]:
                    c = canonical(spec)
                    if len(c) > 3000:
                        c = c[:3000] + '...(truncated)'
                    self.samples.append((hx, part, c, jsonable(obs)))
                    self.samples.sort(key=lambda s: s[0])
                    del self.samples[self.MAX_SAMPLES:]

    def export(self):
        return {
            'cases': self.cases, 'judged': self.judged, 'lib_calls': self.lib_calls,
            'classes': dict(self.classes), 'discards': dict(self.discards),
            'excluded_known': dict(self.excluded_known), 'hashes': self.nontrivial_hashes,
            'samples': self.samples, 'notes': dict(self.notes), 'maxima': dict(self.maxima),
        }


class Part:
    """One sub-search of a check.

    kind 'hyp'   : strategy (callable tier -> SearchStrategy of JSON-able specs) + judge(spec, rec)
    kind 'enum'  : items (callable tier -> iterable of specs) + judge; exhaustive, sharded by stride
    judge returns an observation (stored with evidence samples) or raises Violation / Discard.
    budget: dict tier -> number of examples (hyp) ; ignored for enum.
    """

    def __init__(self, name, kind, judge, strategy=None, items=None, budget=None, exhaustive=False,
                 shards=None, shrink_s=None, prelude=True):
        self.name, self.kind, self.judge = name, kind, judge
        self.strategy, self.items = strategy, items
        self.budget = budget or {}
        self.exhaustive = exhaustive
        self.shards = shards
        self.shrink_s = shrink_s
        self.prelude = prelude     # False: never run the process-history medley before this part (vlib/prelude.py)


def lib_frames(tb):
    """(innermost frame inside the repo under test, innermost frame overall) of a traceback."""
    inner_repo = None
    last = None
    for fs in traceback.extract_tb(tb):
        last = fs
        fn = os.path.realpath(fs.filename)
        if fn.startswith(REPO + os.sep):
            inner_repo = fs
    return inner_repo, last


def call(fn, *a, **k):
    """Run a library call; return ('ok', value) or ('err', exception)."""
    try:
        return 'ok', fn(*a, **k)
    except (Watchdog, Violation, Discard):
        raise
    except Exception as e:  # noqa: BLE001 - classification is the caller's job
        return 'err', e


def call_twice(fn, reseed, *a, **k):
    """The same call made twice on the same object (reseed() pins the sampling before each): ('ok', value) or
    ('err', exception) of the FIRST call; raises Violation('resubmission/outcome-differs') when the second differs
    (value equality, or class and message of the exception).  "Each call grades as the first would" is part of every
    grading property; a student pressing submit again, or a rescore, produces exactly this history."""
    reseed()
    k1, v1 = call(fn, *a, **k)
    reseed()
    k2, v2 = call(fn, *a, **k)
    try:
        same = k1 == k2 and (bool(v1 == v2) if k1 == 'ok' else (type(v1) is type(v2) and str(v1) == str(v2)))
    except Exception:  # noqa: BLE001 - values that cannot be compared (arrays): not judged
        same = True
    if not same:
        raise Violation('resubmission/outcome-differs', 'the same call %r made twice on one object gave %s and then %s' % (
            tuple(str(x)[:80] for x in a), (k1, str(v1)[:160]), (k2, str(v2)[:160])))
    return k1, v1
