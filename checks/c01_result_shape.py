"""C01 - every grader call that returns yields a well-formed, self-consistent edX result; no debug leakage."""
import itertools
import numbers
import re

from hypothesis import strategies as st

from vlib.core import Part, Violation, Discard, watchdog, call, canonical
from vlib import gspec

from mitxgraders import ListGrader, StringGrader
from mitxgraders.baseclasses import ItemGrader
from mitxgraders.exceptions import MITxError
from mitxgraders.sampling import set_seed
from voluptuous import Error as SchemaError

RULE = ("'graders' (random): a grader spec (vlib/gspec.py) of one of the 8 kinds String, Formula, Numerical, Matrix, "
        "SingleList (String/Formula/Numerical/Table subgraders, one nesting level), Interval, Sum, List (ordered / "
        "unordered, alternative answer lists, subgrader lists, SingleList subgraders, nested List with groupings up to 8 "
        "inputs) with 1-4 answer alternatives (grade_decimal from {0,0.1,1/3,0.5,0.7,1}, messages, pinned ok, expect "
        "tuples), comparers (equality, LinearComparer, MatrixEntryComparer flat/proportional, congruence, between, "
        "author functions returning True/False/'partial'/dictionaries), attempt_based_credit (LinearCredit, "
        "GeometricCredit, ReciprocalCredit, author tables) with attempts -1..9, 50, 1000 or omitted, partial_credit, "
        "ordered, wrong_msg, debug on/off; the input is drawn per input box from the answers themselves, equivalent "
        "rewrites, near misses, other alternatives, empty strings, delimiter lists of varying length and unicode text. "
        "'groupings' (exhaustive): every grouping vector of 2..6 inputs into >=2 groups (and every contiguous "
        "composition, its reverse and its riffle for 7 and 8 inputs) as an ordered ListGrader over a list of subgraders "
        "(StringGrader for one-element groups, ordered/unordered inner ListGrader otherwise; equal-sized groups also as "
        "an unordered ListGrader over one inner ListGrader), graded on all-correct, rotated-within-group and "
        "one-wrong-input-per-position submissions. 'products' (random): MatrixGrader entry_partial_credit / "
        "LinearComparer / author comparers x answer credit over the whole palette (incl. 0) x attempt credit, on "
        "one-entry-off / offset / proportional inputs. Oracle on every RETURNED value: key set exactly {ok, grade_decimal, "
        "msg} for a single result, exactly {overall_message, input_list} with one single-form entry per submitted "
        "input for ListGrader (SumGrader returns the single form by documented design); grade_decimal a real number "
        "(not bool, not NaN) in [0,1]; msg/overall_message str; ok is exactly True/False/'partial' according to "
        "grade 1/0/other (a pinned ok value of the spec is also accepted on an entry with grade 1); with debug off no "
        "message contains a debug-log marker or a sentinel token (stored answer / sampled variable that occurs in no "
        "input and no configured message), with debug on the version line is present; for lists whose leaves are "
        "default StringGraders an entry with positive grade sits at an input that equals a configured answer "
        "(groupings: exactly the entries whose input is the expected one are correct). Calls that raise are out of "
        "scope (counted). Non-trivial = a list result, or a partial grade, or attempt credit < 1 applied, or >= 2 "
        "answer alternatives; distinct by spec."
        " 'debug-history' (exhaustive): eight parent/subgrader worlds; a debug=True parent handles every sequence of 1-2 (thorough: 3) inputs incl. raising ones, then every descendant configured without debug is called alone: no log markers, debug option still off. Every case of the random parts makes the same call twice on the same grader object: same outcome.")
ASSUMPTIONS = ["inputs are text or lists of text; attempt is an int or omitted; author schedules return numbers in [0,1]",
               "a generated configuration that the library refuses at construction is discarded (counted), a call that "
               "raises is counted as 'raised' and not judged: the property speaks about calls that return",
               "TableGrader (vlib/models.py, an ItemGrader written against the public extension API) is a valid subgrader",
               "a debug-log marker that also occurs in the submitted text itself is not counted as a leak",
               "a call is given 60 s before it counts as non-terminating"]

KINDS = gspec.KINDS
REQUIRED = {}
for _k in KINDS:
    for _o in ('full', 'partial', 'zero'):
        for _c in ('credit', 'nocredit'):
            REQUIRED['%s/%s/%s' % (_k, _o, _c)] = 3
del REQUIRED['Sum/partial/nocredit']     # a SumGrader result is all or nothing; only attempt credit makes it partial
REQUIRED.update({'list-result': 300, 'debug-on': 300, 'attempt-credit<1': 500, 'pinned-ok-survives': 5,
                 'nested-list': 100, 'order-clause-judged': 50, 'sentinel-present': 300,
                 'partial-comparer-message-with-zero-grade': 20})

MARKERS = ['MITx Grading Library Version', 'Running on edX using python', 'Student Response']
PARTIAL_MSG = re.compile(r'array entries are incorrect|zqm entries|zqm cmp|zqm some wrong|by a constant factor|'
                         r'zqm (proportional|offset|linear)')
PARTIAL_CMP = re.compile(r'entry_partial_credit|"\$cmp":"(linear|author|entry)"')


def ok_rule(g):
    return True if g == 1 else False if g == 0 else 'partial'


def same(a, b):
    return type(a) is type(b) and a == b


def has_zero_credit_answer(g):
    found = []

    def visit(o):
        if isinstance(o, dict) and 'expect' in o and o.get('grade_decimal', 1) == 0:
            found.append(1)
    gspec._walk(g, visit)
    return bool(found)


def check_entry(e, info, g, rec, where):
    if not isinstance(e, dict) or set(e.keys()) != {'ok', 'grade_decimal', 'msg'}:
        raise Violation('shape/entry-keys', '%s: expected keys ok/grade_decimal/msg, got %r' % (
            where, sorted(e.keys()) if isinstance(e, dict) else type(e).__name__), entry=e)
    gd = e['grade_decimal']
    if isinstance(gd, bool) or not isinstance(gd, numbers.Real) or gd != gd:
        raise Violation('grade/not-a-real-number', '%s: grade_decimal is %r' % (where, gd), entry=e)
    if not 0 <= gd <= 1:
        raise Violation('grade/out-of-range', '%s: grade_decimal %r outside [0, 1]' % (where, gd), entry=e)
    if not isinstance(e['msg'], str):
        raise Violation('msg/not-str', '%s: msg is %r' % (where, e['msg']), entry=e)
    exp = ok_rule(gd)
    ok = e['ok']
    if not same(ok, exp):
        if gd == 1 and any(same(ok, p) for p in info['pins']):
            rec.cls('pinned-ok-survives')
        else:
            if same(ok, 'partial') and gd == 0 and has_zero_credit_answer(g) and PARTIAL_CMP.search(canonical(g)):
                key = 'ok-grade/partial-comparer-times-zero-credit-answer'
            else:
                key = 'ok-grade/ok=%r-with-grade-%s' % (ok, 'one' if gd == 1 else 'zero' if gd == 0 else 'between')
            raise Violation(key, '%s: ok=%r but grade_decimal=%r (expected ok=%r)' % (where, ok, gd, exp), entry=e)
    return gd


def check_result(res, inp, info, g, debug, rec):
    """Shape / ok / grade / message invariants and debug-leak markers; returns the list of entry grades."""
    expect_list = info['cls'] == 'ListGrader'
    if not isinstance(res, dict):
        raise Violation('shape/not-a-dict', 'returned %r' % (type(res).__name__,))
    if expect_list:
        if set(res.keys()) != {'overall_message', 'input_list'}:
            raise Violation('shape/list-keys', 'expected keys overall_message/input_list, got %r' % sorted(res.keys()))
        if not isinstance(res['overall_message'], str):
            raise Violation('msg/overall-not-str', 'overall_message is %r' % (res['overall_message'],))
        il = res['input_list']
        if not isinstance(il, list) or len(il) != len(inp):
            raise Violation('shape/entry-count', '%d inputs but %s entries' % (
                len(inp), len(il) if isinstance(il, list) else type(il).__name__))
        grades = [check_entry(e, info, g, rec, 'entry %d' % k) for k, e in enumerate(il)]
        texts = [res['overall_message']] + [e['msg'] for e in il]
    else:
        grades = [check_entry(res, info, g, rec, 'result')]
        texts = [res['msg']]
    submitted = '\n'.join(inp) if isinstance(inp, list) else inp
    if not debug:
        for t in texts:
            for m in MARKERS:
                if m in t and m not in submitted:
                    raise Violation('debug-leak/log-marker', 'debug is off but a message contains %r' % m, text=t[:400])
            for s in info['sentinels']:
                if s in t and s not in submitted:
                    raise Violation('debug-leak/sentinel', 'debug is off but a message shows the stored token %r' % s,
                                    text=t[:400])
    else:
        where = res['overall_message'] if expect_list else res['msg']
        if MARKERS[0] not in where:
            raise Violation('debug-log-missing', 'debug is on but the version line is absent', text=where[:400])
    return grades


def clean_plain(s):
    for a in ('\t',):
        s = s.replace(a, ' ')
    return re.sub(r' +', ' ', s.strip())


def applied_credit(g, attempt):
    c = g['kw'].get('attempt_based_credit')
    if c is None or attempt is None:
        return None
    return round(float(gspec.decode(c)(max(attempt, 1))), 4)


def direct_subgraders(grader):
    """[(subgrader object, its configured debug flag)] of a ListGrader (empty for other graders)."""
    if type(grader).__name__ != 'ListGrader':
        return []
    subs = grader.config['subgraders']
    subs = subs if isinstance(subs, list) else [subs]
    return [(s_, bool(s_.config.get('debug'))) for s_ in subs]


def judge(spec, rec):
    g, inp, attempt, debug = spec['g'], spec['input'], spec['attempt'], spec['debug']
    info = gspec.spec_info(g)
    kind = spec['kind']
    try:
        grader = gspec.build(g, debug=debug)
    except (MITxError, SchemaError) as e:
        raise Discard('invalid-config/%s' % kind)
    set_seed(spec['seed'])
    kwargs = {} if attempt is None else {'attempt': attempt}
    subs_pre = direct_subgraders(grader)
    with watchdog(60):
        status, res = call(grader, spec.get('expect'), inp, **kwargs)
    rec.calls()
    if debug and subs_pre:
        # history + object identity: a subgrader the author configured WITHOUT debug, called on its own after its
        # debug=True parent has graded, must still not show any debugging output (a seeded change let the parent
        # switch its subgraders' debug flag on, for good)
        for sub, was_debug in subs_pre:
            if was_debug or not isinstance(inp, list) or not inp:
                continue
            probe = inp[0] if isinstance(sub, ItemGrader) else None
            if probe is None:
                continue
            set_seed(spec['seed'])
            st_, r2 = call(sub, None, probe)
            rec.calls()
            rec.cls('subgrader-called-alone-after-debug-parent')
            if st_ == 'ok' and isinstance(r2, dict):
                text = r2.get('msg', '') or ''
                for m in MARKERS:
                    if m in text and m not in probe:
                        raise Violation('debug-leak/subgrader-after-debug-parent',
                                        'a %s configured without debug shows %r when called alone after its debug=True '
                                        'ListGrader graded' % (type(sub).__name__, m), text=text[:300])
    # the same call once more on the same grader object (same sampling seed): the same outcome
    set_seed(spec['seed'])
    with watchdog(60):
        status2, res2 = call(grader, spec.get('expect'), inp, **kwargs)
    rec.calls()
    same = status2 == status and (res2 == res if status == 'ok' else
                                  (type(res2) is type(res) and str(res2) == str(res)))
    if not same and (status == 'ok' or status2 == 'ok' or isinstance(res, MITxError)):
        raise Violation('resubmission/outcome-differs', '%s: the same call made twice on one grader object gave %s and then %s'
                        % (kind, (status, str(res)[:200]), (status2, str(res2)[:200])))
    if status == 'err':
        rec.cls('%s/raised' % kind)
        rec.note('raised/' + ('library-error' if isinstance(res, MITxError) else 'other:' + type(res).__name__))
        return {'raised': type(res).__name__}
    grades = check_result(res, inp, info, g, debug, rec)
    # list entries belong to the input at the same position (plain StringGrader leaves only)
    if info['cls'] == 'ListGrader' and info['plain_string_leaves'] and \
            all(x.isascii() and '\r' not in x and '\n' not in x for x in inp):
        expects = {clean_plain(e) for e in gspec.string_expects(g['kw']['answers'])}
        rec.cls('order-clause-judged')
        for k, gd in enumerate(grades):
            if gd > 0 and clean_plain(inp[k]) not in expects:
                raise Violation('list/entry-not-at-its-input', 'entry %d earns %r but input %r equals no configured '
                                'answer' % (k, gd, inp[k]), result=res)
    outcome = 'full' if all(x == 1 for x in grades) else 'zero' if all(x == 0 for x in grades) else 'partial'
    rec.cls('%s/%s/%s' % (kind, outcome, 'credit' if info['credit'] else 'nocredit'))
    c = applied_credit(g, attempt)
    nt = False
    if info['cls'] == 'ListGrader':
        rec.cls('list-result')
        nt = True
        if info['classes'].count('ListGrader') > 1:
            rec.cls('nested-list')
    if any(0 < x < 1 for x in grades):
        rec.cls('partial-grade')
        nt = True
    if c is not None and c < 1:
        rec.cls('attempt-credit<1')
        nt = True
    if '"$t"' in canonical(g['kw'].get('answers')):
        rec.cls('alternatives>=2')
        nt = True
    if debug:
        rec.cls('debug-on')
    if grades == [0] and not debug and PARTIAL_MSG.search(res['msg']) and has_zero_credit_answer(g):
        rec.cls('partial-comparer-message-with-zero-grade')     # where defect #11 (ok='partial', grade 0) lived
    if info['sentinels']:
        rec.cls('sentinel-present')
    for cl in set(info['classes']):
        rec.cls('uses/' + cl)
    rec.nontrivial(nt)
    return {'grades': grades, 'credit': c}


@st.composite
def strat_cases(draw, tier):
    case = draw(gspec.grader_cases())
    inp = draw(gspec.student_inputs(case))
    attempt = draw(gspec.attempts)
    if 'attempt_based_credit' in case['g']['kw']:
        if gspec.chance(draw, 3):
            attempt = None
    elif gspec.chance(draw, 50):
        attempt = None
    spec = {'kind': case['kind'], 'g': case['g'], 'input': inp, 'attempt': attempt,
            'debug': gspec.chance(draw, 25), 'seed': draw(st.integers(0, 10 ** 6))}
    return spec


@st.composite
def strat_products(draw, tier):
    """Grades that are products: partial-credit comparer x answer credit (whole palette incl. 0) x attempt credit."""
    which = draw(st.sampled_from(['entry', 'linear', 'author']))
    credit = draw(st.sampled_from(gspec.PAL))
    ans = {'grade_decimal': credit, 'msg': draw(gspec.msgs)}
    if which == 'entry':
        f = draw(st.sampled_from(gspec.M_FORMS[:4]))
        kw = {'variables': ['zqx'], 'max_array_dim': 2,
              'entry_partial_credit': draw(st.sampled_from([0.5, 'proportional', 0.1, 1 / 3, 1]))}
        if gspec.chance(draw, 30):
            kw['entry_partial_msg'] = draw(st.sampled_from(['zqm entries {error_locations}', '']))
        ans['expect'] = f[0]
        cls = 'MatrixGrader'
    elif which == 'linear':
        f = draw(st.sampled_from(gspec.F_FORMS[:4]))
        ckw = {m: draw(st.sampled_from(gspec.PAL)) for m in ('proportional', 'offset', 'linear') if gspec.chance(draw, 60)}
        kw = {'variables': ['zqx', 'zqy'], 'samples': draw(st.sampled_from([3, 5]))}
        ans['expect'] = {'comparer_params': [f[0]], 'comparer': {'$cmp': 'linear', 'kw': ckw}}
        cls = 'FormulaGrader'
    else:
        f = draw(st.sampled_from(gspec.F_FORMS[:4]))
        rets = st.one_of(st.sampled_from(['partial', True, False]),
                         st.builds(lambda g, m: {'grade_decimal': g, 'msg': m}, st.sampled_from(gspec.PAL), gspec.msgs))
        kw = {'variables': ['zqx', 'zqy']}
        ans['expect'] = {'comparer_params': [f[0]], 'comparer': {'$cmp': 'author', 'hit': draw(rets), 'miss': draw(rets)}}
        cls = 'FormulaGrader'
    others = [x for x in (gspec.M_FORMS[:4] if which == 'entry' else gspec.F_FORMS[:4]) if x[0] != f[0]]
    alts = [ans]
    if gspec.chance(draw, 40):
        alts.append(draw(st.sampled_from(others))[0])
    kw['answers'] = alts[0] if len(alts) == 1 else {'$t': alts}
    attempt = None
    if gspec.chance(draw, 50):
        kw['attempt_based_credit'] = gspec.credit_specs(draw)
        attempt = draw(gspec.attempts)
    inp = draw(st.sampled_from([f[2][0], f[0], f[1][0], f[2][1], f[2][0], f[2][2]]))
    return {'kind': 'Matrix' if which == 'entry' else 'Formula', 'g': {'$g': cls, 'kw': kw}, 'input': inp,
            'attempt': attempt, 'debug': False, 'seed': draw(st.integers(0, 10 ** 6))}


# ----------------------------------------------------------------------------------------------------
# exhaustive grouping shapes


def _compositions(n):
    for cuts in range(1, 2 ** (n - 1)):
        sizes, run = [], 1
        for b in range(n - 1):
            if cuts >> b & 1:
                sizes.append(run)
                run = 1
            else:
                run += 1
        sizes.append(run)
        yield sizes


def items_groupings(tier):
    for n in range(2, 7):
        for k in range(2, n + 1):
            for vec in itertools.product(range(1, k + 1), repeat=n):
                if len(set(vec)) == k:
                    yield {'vec': list(vec)}
    for n in (7, 8):
        for sizes in _compositions(n):
            vec = [gi + 1 for gi, s in enumerate(sizes) for _ in range(s)]
            yield {'vec': vec}
            yield {'vec': vec[::-1]}
            yield {'vec': vec[0::2] + vec[1::2]}


def judge_grouping(spec, rec):
    vec = spec['vec']
    n, k = len(vec), max(vec)
    members = [[p for p, gnum in enumerate(vec) if gnum == gi + 1] for gi in range(k)]
    answers = [['zqg%dp%d' % (gi, j) for j in range(len(m))] for gi, m in enumerate(members)]
    sizes = [len(m) for m in members]
    configs = [('multi', None)]
    if len(set(sizes)) == 1 and sizes[0] >= 2:
        configs.append(('single', 1 % k))
    out = {}
    for mode, shift in configs:
        if mode == 'multi':
            inner_ordered = [gi % 2 == 0 for gi in range(k)]
            subs = [StringGrader() if sizes[gi] == 1 else ListGrader(subgraders=StringGrader(), ordered=inner_ordered[gi])
                    for gi in range(k)]
            grader = ListGrader(answers=[a[0] if len(a) == 1 else list(a) for a in answers], subgraders=subs,
                                ordered=True, grouping=list(vec))
            source = list(range(k))
        else:
            inner_ordered = [False] * k
            grader = ListGrader(answers=[list(a) for a in answers], subgraders=ListGrader(subgraders=StringGrader()),
                                grouping=list(vec))
            source = [(gi + shift) % k for gi in range(k)]     # the student enters answer group source[gi] in group gi
        info = {'cls': 'ListGrader', 'pins': [], 'sentinels': []}
        variants = ['all', 'rot'] + ['w%d' % p for p in range(n)]
        for v in variants:
            inp = [None] * n
            exp = [None] * n
            for gi, m in enumerate(members):
                ans = answers[source[gi]]
                for j, p in enumerate(m):
                    jj = (j + 1) % len(m) if v == 'rot' else j
                    inp[p] = ans[jj]
                    exp[p] = 1 if (jj == j or not inner_ordered[gi]) else 0
            if v.startswith('w'):
                p = int(v[1:])
                inp[p] = 'zzz%d' % p
                exp[p] = 0
            with watchdog(60):
                res = grader(None, list(inp))
            rec.calls()
            grades = check_result(res, inp, info, {}, False, rec)
            if grades != exp:
                raise Violation('list/entries-not-in-input-order', 'grouping %r (%s) input %r: entry grades %r, '
                                'expected %r' % (vec, mode, inp, grades, exp), result=res)
        rec.cls('grouping/%s' % mode)
        out[mode] = len(variants)
    rec.cls('grouping/inputs=%d' % n)
    if any(vec[i] > vec[i + 1] for i in range(n - 1)):
        rec.cls('grouping/interleaved')
    rec.nontrivial()
    return out



# ----------------------------------------------------------------------------------------------------
# debug leakage over call histories on shared grader objects (exhaustive over a small world)

def _dh_worlds():
    """name -> builder of (parent with debug=True, [(descendant configured WITHOUT debug, probe input)], parent inputs)."""
    import mitxgraders as mg

    def sl_formula():
        sub = mg.FormulaGrader(variables=['x'])
        return (mg.SingleListGrader(answers=['x', '2*x'], subgrader=sub, debug=True), [(sub, 'x')],
                ['x, 2*x', '2*x, x', 'x, 3*x', 'x, 2*x+', 'x,,', 'x, y', '(x, 2*x', 'x', ''])

    def sl_string():
        sub = mg.StringGrader(validation_pattern='[a-z]+', explain_validation='err')
        return (mg.SingleListGrader(answers=['a', 'b'], subgrader=sub, debug=True, length_error=True), [(sub, 'a')],
                ['a, b', 'b, c', 'a, B4', 'a', 'a,,b'])

    def sl_nested():
        leaf = mg.NumericalGrader()
        inner = mg.SingleListGrader(subgrader=leaf)
        return (mg.SingleListGrader(answers=[['1', '2'], ['3', '4']], subgrader=inner, delimiter=';', debug=True),
                [(leaf, '1'), (inner, None)], ['1,2;3,4', '3,4;1,2', '1,2;3,5', '1,2;3,', '1,2;3,4+', '1,2'])

    def interval():
        sub = mg.NumericalGrader()
        return (mg.IntervalGrader(answers='[1,2)', subgrader=sub, debug=True), [(sub, '1')],
                ['[1,2)', '(1,2]', '[1,3)', '[1, )', '[1,2', '{1,2)', '[1,2,3)', '[1,x)'])

    def lg_single():
        sub = mg.FormulaGrader(variables=['x'])
        return (mg.ListGrader(answers=['x', '2*x'], subgraders=sub, debug=True), [(sub, 'x')],
                [['x', '2*x'], ['2*x', 'x'], ['x', '3*x'], ['x', '2*x+'], ['x'], ['x', 'y'], ['x', '(2*x']])

    def lg_ordered():
        s1, s2 = mg.StringGrader(), mg.NumericalGrader()
        return (mg.ListGrader(answers=['cat', '3'], subgraders=[s1, s2], ordered=True, debug=True), [(s1, 'cat'), (s2, '3')],
                [['cat', '3'], ['dog', '3'], ['cat', '3+'], ['cat'], ['cat', 'three']])

    def lg_grouped():
        leaf = mg.FormulaGrader(variables=['x'])
        inner = mg.ListGrader(subgraders=leaf)
        return (mg.ListGrader(answers=[['x', '2*x'], ['3*x', '4*x']], subgraders=inner, grouping=[1, 1, 2, 2], debug=True),
                [(leaf, 'x'), (inner, None)],
                [['x', '2*x', '3*x', '4*x'], ['3*x', '4*x', 'x', '2*x'], ['x', '2*x', '3*x', '5*x'], ['x', '2*x', '3*x', '4*x+'],
                 ['x', '2*x', '3*x'], ['x', 'y', '3*x', '4*x']])

    def lg_singlelist():
        leaf = mg.StringGrader()
        sl = mg.SingleListGrader(subgrader=leaf)
        return (mg.ListGrader(answers=[['a', 'b'], ['c', 'd']], subgraders=sl, debug=True), [(leaf, 'a'), (sl, 'a, b')],
                [['a, b', 'c, d'], ['c,d', 'a,b'], ['a,b', 'c,e'], ['a,,b', 'c,d'], ['a,b']])
    return {'sl_formula': sl_formula, 'sl_string': sl_string, 'sl_nested': sl_nested, 'interval': interval,
            'lg_single': lg_single, 'lg_ordered': lg_ordered, 'lg_grouped': lg_grouped, 'lg_singlelist': lg_singlelist}


def items_debug_history(tier):
    worlds = _dh_worlds()
    for name, build in sorted(worlds.items()):
        n = len(build()[2])
        for a in range(n):
            yield {'world': name, 'seq': [a]}
            for b in range(n):
                yield {'world': name, 'seq': [a, b]}
                if tier != 'quick':
                    for c in range(n):
                        yield {'world': name, 'seq': [a, b, c]}


def _texts(res):
    if not isinstance(res, dict):
        return []
    out = [res.get('msg') or '', res.get('overall_message') or '']
    for e in res.get('input_list') or []:
        out.append(e.get('msg') or '')
    return out


def judge_debug_history(spec, rec):
    parent, subs, inputs = _dh_worlds()[spec['world']]()
    raised = returned = 0
    for k in spec['seq']:
        set_seed(11)
        st_, res = call(parent, None, inputs[k])
        rec.calls()
        if st_ == 'ok':
            returned += 1
            if not any(MARKERS[0] in t for t in _texts(res)):
                raise Violation('debug-missing', '%s with debug=True returned no debug log for %r' % (spec['world'], inputs[k]))
        else:
            raised += 1
            if not isinstance(res, MITxError):
                return {'raised': type(res).__name__}      # C02's business
    for sub, probe in subs:
        if sub.config.get('debug'):
            raise Violation('debug-leak/subgrader-after-debug-parent', '%s: the debug option of a %s configured without '
                            'debug is switched on after its debug=True parent handled %r' % (
                                spec['world'], type(sub).__name__, [inputs[k] for k in spec['seq']]))
        if probe is None:
            continue
        set_seed(11)
        st_, r2 = call(sub, probe, probe)      # the subgraders have no answers of their own: expect = the probe
        rec.calls()
        if st_ != 'ok':
            raise Violation('debug-history/subgrader-alone-fails', '%s: %s(expect=%r, %r) raised %s: %s' % (
                spec['world'], type(sub).__name__, probe, probe, type(r2).__name__, str(r2)[:200]))
        rec.cls('debug-history/subgrader-alone-returned')
        for t in _texts(r2):
            for m in MARKERS:
                if m in t:
                    raise Violation('debug-leak/subgrader-after-debug-parent',
                                    '%s: a %s configured without debug shows %r when called alone after its debug=True '
                                    'parent handled %r' % (spec['world'], type(sub).__name__, m,
                                                           [inputs[k] for k in spec['seq']]), text=t[:300])
    rec.cls('debug-history/' + spec['world'])
    if raised:
        rec.cls('debug-history/parent-raised-then-subgrader-alone')
    if raised and returned:
        rec.cls('debug-history/mixed')
    rec.nontrivial(raised > 0)
    return {'parent_raised': raised, 'parent_returned': returned}



# ----------------------------------------------------------------------------------------------------
# long lists (exhaustive over the length): a SingleListGrader / ListGrader of n = 1..40 items answered completely, almost
# completely, or with extra items - the averaged grade must stay inside [0, 1] and a completely right list is ok=True
# (a seeded change averaged by adding rounded shares 1/n, which gives 1.0000000000000002 for n = 9, 11, 18, ...)

def items_long_lists(tier):
    for n in range(1, 41):
        for ordered in (False, True):
            for variant in ('all', 'one-wrong', 'one-extra', 'half'):
                for container in ('single', 'list'):
                    if container == 'list' and (n < 2 or n > 12 or variant == 'one-extra'):
                        continue
                    yield {'n': n, 'ordered': ordered, 'variant': variant, 'container': container}


def judge_long_list(spec, rec):
    import mitxgraders as mg
    n, variant = spec['n'], spec['variant']
    toks = ['tok%d' % k for k in range(n)]
    sub = list(toks)
    if variant == 'one-wrong':
        sub[-1] = 'nope'
    elif variant == 'one-extra':
        sub = sub + ['surplus']
    elif variant == 'half':
        sub = [t if k % 2 == 0 else 'nope%d' % k for k, t in enumerate(sub)]
    if spec['container'] == 'single':
        if n == 1:
            g = mg.SingleListGrader(answers=['tok0'], subgrader=mg.StringGrader(), ordered=spec['ordered'])
        else:
            g = mg.SingleListGrader(answers=toks, subgrader=mg.StringGrader(), ordered=spec['ordered'])
        inp = ', '.join(sub)
    else:
        g = mg.ListGrader(answers=toks, subgraders=mg.StringGrader(), ordered=spec['ordered'])
        inp = sub
    st_, res = call(g, None, inp)
    rec.calls()
    if st_ != 'ok':
        if isinstance(res, MITxError):
            raise Violation('long-list/raised', 'a list of %d items raised %s: %s' % (n, type(res).__name__, str(res)[:150]))
        raise res
    info = {'cls': 'ListGrader' if spec['container'] == 'list' else 'SingleListGrader', 'pins': [], 'sentinels': set(),
            'credit': False, 'classes': [], 'plain_string_leaves': False}
    grades = check_result(res, inp, info, {'kw': {}}, False, rec)
    if variant == 'all' and (any(x != 1 for x in grades) or any(e['ok'] is not True for e in entries(res))):
        raise Violation('long-list/complete-list-not-fully-correct', 'all %d items right, yet the result is %r' % (n, res))
    rec.cls('long-list/' + variant)
    rec.nontrivial(n >= 6)
    return {'n': n, 'grades': grades[:3]}


def entries(res):
    return res['input_list'] if 'input_list' in res else [res]


PARTS = [
    Part('long-lists', 'enum', judge_long_list, items=items_long_lists, exhaustive=True),
    Part('debug-history', 'enum', judge_debug_history, items=items_debug_history, exhaustive=True),
    Part('graders', 'hyp', judge, strategy=lambda tier: strat_cases(tier),
         budget={'quick': 15000, 'thorough': 450000}),
    Part('products', 'hyp', judge, strategy=lambda tier: strat_products(tier),
         budget={'quick': 2500, 'thorough': 60000}),
    Part('groupings', 'enum', judge_grouping, items=items_groupings, exhaustive=True),
]
