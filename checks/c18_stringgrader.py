"""C18 - StringGrader matches exactly the inputs that are equal after the configured cleaning."""
import itertools
import re

from hypothesis import strategies as st

from vlib import rivals
from vlib import forms
from vlib.core import Part, Violation, Discard, call

from mitxgraders import StringGrader
from mitxgraders.exceptions import MITxError

RULE = ("Cases are (StringGrader configuration, expected string or None, submission). Exhaustive parts: all 16 "
        "cleaning-flag combinations x every pair of short strings over {a, A, space, LF[, tab, CR]}; every "
        "whitespace symbol (space, tab, CR, LF, CRLF, LFCR, NBSP, VT, EM SPACE, ZWSP) at six placements "
        "in 'ab cd' on either/both sides x 16 flags; the min_length 0..6 x min_words 0..4 x explain_minimums x "
        "accept mode grid; a validation pattern x submission x explain_validation x mode grid. Random parts: "
        "expected strings over letters in both cases, digits, punctuation, non-ASCII letters and all whitespace "
        "symbols, submissions derived by 0-3 edits (whitespace inserted/deleted/doubled/replaced, case changes, one "
        "non-space character changed/inserted/deleted, CRLF<->LFCR) or unrelated; random accept-any and validation "
        "configurations. Oracle: a character-level model of the statement written without str.replace/strip/re "
        "(line breaks -> one space each, fold case iff not case_sensitive, strip whitespace iff strip, collapse "
        "runs of U+0020 iff clean_spaces, delete U+0020 iff strip_all); compare mode: accepted iff cleanings "
        "equal; accept modes: length/word minimums, refusal as explain_minimums prescribes; validation: "
        "re.fullmatch on the cleaned submission, refusal as explain_validation prescribes, ConfigError for an "
        "expected answer that does not fully match. Non-trivial = compare case whose raw strings differ but "
        "whose cleanings are equal, or whose cleanings differ by exactly one non-space character (substituted, "
        "inserted or deleted); accept-any case exactly at or one below a minimum; validation case where the "
        "pattern matches a proper prefix of the cleaned submission but not all of it. Distinct by spec.")
ASSUMPTIONS = [
    "student input and expected answers are text; option values come from the documented pools",
    "where the statement is open the model is evaluated under every reading and the case is judged only when all "
    "readings agree (otherwise discarded, or for refusal messages the union of acceptable counts is taken): a run "
    "of CR/LF characters is tokenised into line breaks left-to-right, CRLF-first or LFCR-first; case folding is "
    "str.lower of the whole string, per character, or str.casefold; a word is a maximal run of non-space (U+0020) "
    "or of non-whitespace characters",
    "strip removes characters with str.isspace() true; clean_spaces / strip_all concern U+0020 only",
    "a minimum-length refusal with a message must mention '<have>/<need>' for a criterion that failed (docs: "
    "'describing how many words/characters they have, compared to how many are required'); a validation refusal "
    "carries invalid_msg; explain None leaves the message empty or wrong_msg",
    "debug=False, attempt-based credit off, one answer per grader",
]
REQUIRED = {
    'match/raw-differs-clean-equal': 1500, 'match/one-char-sub': 300, 'match/one-char-indel': 300,
    'ws/crlf-or-lfcr': 1500, 'ws/nbsp-vt-emsp': 800, 'ws/adjacent-breaks': 150,
    'minimums/length-at-min': 300, 'minimums/length-one-below': 300, 'minimums/words-at-min': 300,
    'minimums/words-one-below': 300, 'minimums/cleaning-reduces-words': 100,
    'validation/prefix-only': 300, 'validation/expect-invalid': 100,
    'exp/validation/refuse-err': 200, 'exp/validation/refuse-msg': 200, 'exp/validation/refuse-None': 200,
    'exp/minimums/refuse-err': 500, 'exp/minimums/refuse-msg': 500, 'exp/minimums/refuse-None': 500,
}
for _bits in itertools.product('01', repeat=4):
    REQUIRED['flags/' + ''.join(_bits)] = 400

KNOWN_KEY = 'validation-not-fullmatch'

# ----------------------------------------------------------------------------------------------------
# reference model (written from the statement; no str.replace / str.strip / re.sub on the cleaning path)

LB_READINGS = ('l2r', 'crlf-first', 'lfcr-first')
FOLD_READINGS = ('lower', 'perchar', 'casefold')
RUN4 = re.compile(r'[\r\n]{4}')


def conv_breaks(s, reading):
    """tab -> space; each line break (CR, LF, CRLF, LFCR) -> one space, tokenised according to `reading`."""
    n = len(s)
    role = [0] * n      # 0 ordinary, 1 start of a break, 2 second character of a two-character break
    if reading == 'l2r':
        i = 0
        while i < n:
            c = s[i]
            if c == '\r' or c == '\n':
                role[i] = 1
                if i + 1 < n and s[i + 1] in '\r\n' and s[i + 1] != c:
                    role[i + 1] = 2
                    i += 1
            i += 1
    else:
        pairs = ('\r\n', '\n\r') if reading == 'crlf-first' else ('\n\r', '\r\n')
        for pr in pairs:
            i = 0
            while i + 1 < n:
                if role[i] == 0 and role[i + 1] == 0 and s[i] == pr[0] and s[i + 1] == pr[1]:
                    role[i], role[i + 1] = 1, 2
                    i += 2
                else:
                    i += 1
        for i in range(n):
            if role[i] == 0 and (s[i] == '\r' or s[i] == '\n'):
                role[i] = 1
    out = []
    for i in range(n):
        if role[i] == 1:
            out.append(' ')
        elif role[i] == 0:
            out.append(' ' if s[i] == '\t' else s[i])
    return ''.join(out)


def fold(s, how):
    if how == 'lower':
        return s.lower()
    if how == 'perchar':
        return ''.join(ch.lower() for ch in s)
    return s.casefold()


def ref_clean(s, fl, lb, fo):
    t = conv_breaks(s, lb)
    if not fl['cs']:
        t = fold(t, fo)
    if fl['strip']:
        a, b = 0, len(t)
        while a < b and t[a].isspace():
            a += 1
        while b > a and t[b - 1].isspace():
            b -= 1
        t = t[a:b]
    if fl['clean']:
        r = []
        for ch in t:
            if ch == ' ' and r and r[-1] == ' ':
                continue
            r.append(ch)
        t = ''.join(r)
    if fl['strip_all']:
        t = ''.join(ch for ch in t if ch != ' ')
    return t


def word_counts(c):
    """(words as maximal runs of non-U+0020, words as maximal runs of non-whitespace)"""
    a = b = 0
    ina = inb = False
    for ch in c:
        if ch == ' ':
            ina = False
        elif not ina:
            ina = True
            a += 1
        if ch.isspace():
            inb = False
        elif not inb:
            inb = True
            b += 1
    return a, b


def model(spec, lb, fo, wordidx, valid):
    """(clause, expectation) under one reading.  valid(pattern, cleaned) -> bool."""
    fl, o = spec['flags'], spec['opts']
    c = ref_clean(spec['student'], fl, lb, fo)
    accept_mode = bool(o.get('accept_any')) or bool(o.get('accept_nonempty'))
    pat = o.get('validation_pattern')
    ce = None if accept_mode else ref_clean(spec['expect'], fl, lb, fo)
    if pat is not None:
        refusal = ('refuse', o.get('explain_validation', 'err'), 'exact',
                   (o.get('invalid_msg', 'Your input is not in the expected format'),))
        if not accept_mode and not valid(pat, ce):
            return 'validation', ('configerror', None if valid(pat, c) else refusal)
        if not valid(pat, c):
            return 'validation', refusal
    if not accept_mode:
        return 'match', (('accept',) if c == ce else ('wrong',))
    need = max(o.get('min_length', 0), 1 if o.get('accept_nonempty') else 0)
    fails = []
    if len(c) < need:
        fails.append('%d/%d' % (len(c), need))
    w = word_counts(c)[wordidx]
    if w < o.get('min_words', 0):
        fails.append('%d/%d' % (w, o.get('min_words', 0)))
    if fails:
        return 'minimums', ('refuse', o.get('explain_minimums', 'err'), 'counts', tuple(sorted(fails)))
    return 'minimums', ('accept',)


def expectation(spec, valid):
    """Model under every reading; (clause, expectation) when they agree, else None (-> discard)."""
    fl = spec['flags']
    both = spec['student'] + '\x00' + (spec.get('expect') or '')
    # the readings can differ only on: a run of four or more CR/LF characters; non-ASCII letters when folding
    # case; whitespace other than space/tab/CR/LF when counting words
    lbs = LB_READINGS if RUN4.search(both) else ('l2r',)
    folds = FOLD_READINGS if not fl['cs'] and not both.isascii() else ('lower',)
    wis = (0, 1) if any(ch.isspace() and ch not in ' \t\r\n' for ch in both) else (0,)
    seen = []
    for lb in lbs:
        for fo in folds:
            for wi in wis:
                e = model(spec, lb, fo, wi, valid)
                if e not in seen:
                    seen.append(e)
    if len(seen) == 1:
        return seen[0]
    # refusals of the same kind that differ only in the counts to be reported: any of them is acceptable
    if (len({e[0] for e in seen}) == 1 and all(e[1][0] == 'refuse' and e[1][2] == 'counts' for e in seen)
            and len({e[1][1] for e in seen}) == 1):
        allc = sorted({x for e in seen for x in e[1][3]})
        return seen[0][0], ('refuse', seen[0][1][1], 'counts', tuple(allc))
    return None


def v_fullmatch(p, s):
    return re.fullmatch(p, s) is not None


def v_match_dollar(p, s):
    return re.match(p + '$', s) is not None


# ----------------------------------------------------------------------------------------------------
# observation and comparison

def build(spec):
    fl, o = spec['flags'], spec['opts']
    cfg = dict(case_sensitive=fl['cs'], strip=fl['strip'], strip_all=fl['strip_all'], clean_spaces=fl['clean'])
    cfg.update(o)
    via = spec.get('via', 'answers')
    arg = None
    ans_msg = ''
    if via == 'answers':
        cfg['answers'] = spec['expect']
    elif via == 'answers-dict':
        ans_msg = 'Recorded.'
        cfg['answers'] = {'expect': spec['expect'] if spec['expect'] is not None else '', 'msg': ans_msg}
    elif via == 'expect-arg':
        arg = spec['expect']
    # via == 'none': accept modes without any answer (StringGrader.__call__ supplies the empty expect)
    g = forms.make(StringGrader, cfg)
    rivals.after_build(g)          # vlib/rivals.py: another StringGrader with opposite flags and a pattern, used first
    return g, arg, ans_msg


def observe(g, arg, student):
    kind, val = call(g, arg, student)
    if kind == 'err':
        if isinstance(val, MITxError):
            return ('exc', type(val).__name__, str(val))
        raise val       # not the library's family: reported by the runner as uncaught/<Type>/...
    return ('res', val.get('ok'), val.get('grade_decimal'), val.get('msg'))


def outkind(out):
    if out[0] == 'exc':
        return out[1]
    if out[1] is True and out[2] == 1:
        return 'accept'
    if out[1] is False and out[2] == 0:
        return 'wrong'
    return 'odd-result'


def expkind(exp):
    if exp[0] == 'refuse':
        return 'refuse-%s' % exp[1]
    return exp[0]


def msg_ok(exp, text):
    if exp[2] == 'exact':
        return text == exp[3][0]
    return any(re.search(r'(?<!\d)' + re.escape(cnt) + r'(?!\d)', text or '') for cnt in exp[3])


def conforms(exp, out, wrong_msg, ans_msg):
    """None if the outcome is what the expectation allows, else a short reason."""
    k = outkind(out)
    if exp[0] == 'accept':
        if k != 'accept':
            return 'got-' + k
        return None if out[3] == ans_msg else 'message'
    if exp[0] == 'wrong':
        if k != 'wrong':
            return 'got-' + k
        return None if out[3] in ('', wrong_msg) else 'message'
    if exp[0] == 'configerror':
        if k == 'ConfigError':
            return None
        if exp[1] is not None and conforms(exp[1], out, wrong_msg, ans_msg) is None:
            return None
        return 'got-' + k
    # refusal
    how = exp[1]
    if how == 'err':
        if k != 'InvalidInput':
            return 'got-' + k
        return None if msg_ok(exp, out[2]) else 'message'
    if k != 'wrong':
        return 'got-' + k
    if how == 'msg':
        return None if msg_ok(exp, out[3]) else 'message'
    return None if out[3] in ('', wrong_msg) else 'message'


def one_char_relation(a, b):
    """'sub' / 'indel' when a and b differ by exactly one non-space character, else None."""
    if len(a) == len(b):
        d = [i for i in range(len(a)) if a[i] != b[i]]
        if len(d) == 1 and a[d[0]] != ' ' and b[d[0]] != ' ':
            return 'sub'
        return None
    if abs(len(a) - len(b)) != 1:
        return None
    lo, sh = (a, b) if len(a) > len(b) else (b, a)
    i = 0
    while i < len(sh) and lo[i] == sh[i]:
        i += 1
    if lo[i + 1:] == sh[i:] and lo[i] != ' ' and not lo[i].isspace():
        return 'indel'
    return None


def classify(spec, rec, clause, exp):
    fl, o = spec['flags'], spec['opts']
    rec.cls('flags/%d%d%d%d' % (fl['cs'], fl['strip'], fl['strip_all'], fl['clean']))
    rec.cls('exp/%s/%s' % (clause, expkind(exp)))
    s, e = spec['student'], spec.get('expect')
    both = s + (e or '')
    if '\r\n' in both or '\n\r' in both:
        rec.cls('ws/crlf-or-lfcr')
    if '\xa0' in both or '\x0b' in both or '\u2003' in both:
        rec.cls('ws/nbsp-vt-emsp')
    if re.search(r'[\r\n]{3}|\r\r|\n\n', both):
        rec.cls('ws/adjacent-breaks')
    nt = False
    accept_mode = bool(o.get('accept_any')) or bool(o.get('accept_nonempty'))
    c = ref_clean(s, fl, 'l2r', 'lower')
    if not accept_mode:
        rec.cls('mode/compare')
        ce = ref_clean(e, fl, 'l2r', 'lower')
        if clause == 'match':
            if c == ce:
                if s == e:
                    rec.cls('match/identical-raw')
                else:
                    rec.cls('match/raw-differs-clean-equal')
                    nt = True
            else:
                rel = one_char_relation(c, ce)
                if rel:
                    rec.cls('match/one-char-' + rel)
                    nt = True
                else:
                    rec.cls('match/unequal-other')
            if o.get('min_length') or o.get('min_words'):
                rec.cls('match/minimum-options-present')
    else:
        rec.cls('mode/accept_nonempty' if o.get('accept_nonempty') else 'mode/accept_any')
        if clause == 'minimums':
            need = max(o.get('min_length', 0), 1 if o.get('accept_nonempty') else 0)
            mw = o.get('min_words', 0)
            w = word_counts(c)[0]
            if need and len(c) == need:
                rec.cls('minimums/length-at-min')
                nt = True
            if need and len(c) == need - 1:
                rec.cls('minimums/length-one-below')
                nt = True
            if mw and w == mw:
                rec.cls('minimums/words-at-min')
                nt = True
            if mw and w == mw - 1:
                rec.cls('minimums/words-one-below')
                nt = True
            if exp[0] == 'refuse' and len(exp[3]) > 1 and len(c) < need and w < mw:
                rec.cls('minimums/both-fail')
            if mw and word_counts(conv_breaks(s, 'l2r'))[0] >= mw > w:
                rec.cls('minimums/cleaning-reduces-words')
            if len(s) >= need > len(c):
                rec.cls('minimums/cleaning-reduces-length')
    pat = o.get('validation_pattern')
    if pat is not None:
        full = re.fullmatch(pat, c) is not None
        rec.cls('validation/valid' if full else 'validation/invalid')
        if not full and re.match(pat, c) is not None:
            rec.cls('validation/prefix-only')
            nt = True
        if v_match_dollar(pat, c) != full:
            rec.cls('validation/match$-vs-fullmatch-disagree')
        if exp[0] == 'configerror':
            rec.cls('validation/expect-invalid')
    rec.nontrivial(nt)


def judge(spec, rec):
    got = expectation(spec, v_fullmatch)
    if got is None:
        raise Discard('readings-of-the-statement-disagree')
    clause, exp = got
    classify(spec, rec, clause, exp)
    g, arg, ans_msg = build(spec)
    hist = len(spec['student']) % 3
    if hist and spec.get('via', 'answers') in ('expect-arg', 'answers', 'answers-dict'):
        # the same grader object has graded before: another expected string (one that cleaning alters) handed in through
        # the expect argument - which a grader with configured answers ignores - and, for hist == 2, this very pair
        call(g, ' Prior  ONE\t', 'prior one')
        if hist == 2:
            call(g, arg, spec['student'])
        rec.calls(hist)
        rec.cls('history/same-grader-graded-before')
        if spec.get('via') == 'expect-arg':
            rec.cls('history/expect-argument-twice')
    out = observe(g, arg, spec['student'])
    rec.calls()
    wrong_msg = spec['opts'].get('wrong_msg', '')
    why = conforms(exp, out, wrong_msg, ans_msg)
    if why is None:
        return {'clause': clause, 'expected': expkind(exp), 'observed': list(out)}
    fl = spec['flags']
    detail = 'cleaned submission %r' % ref_clean(spec['student'], fl, 'l2r', 'lower')
    if spec.get('expect') is not None:
        detail += ', cleaned expected %r' % ref_clean(spec['expect'], fl, 'l2r', 'lower')
    if spec['opts'].get('validation_pattern') is not None:
        # root cause "pattern tested with re.match(pattern + '$')": the outcome is what a model using that test
        # predicts, and that model differs from the full-match model on this case
        try:
            alt = expectation(spec, v_match_dollar)
        except re.error:
            alt = None
        if alt is not None and alt != got and conforms(alt[1], out, wrong_msg, ans_msg) is None:
            raise Violation(KNOWN_KEY, 'validation_pattern %r does not match the entire cleaned input, yet the outcome '
                            'is that of re.match(pattern + "$"): expected %s, observed %r (%s)' % (
                                spec['opts']['validation_pattern'], expkind(exp), out, detail))
    raise Violation('%s/expected-%s/%s' % (clause, expkind(exp), why),
                    'expected %r, observed %r (%s)' % (exp, out, detail))


# ----------------------------------------------------------------------------------------------------
# generators

LETTERS = list('abcABC') + ['x', 'Y']
NONASCII = ['é', 'É', 'ß', 'Σ', 'σ',
            # letters that Unicode normalisation (NFC/NFKC) would alter or merge: KELVIN SIGN vs K, ANGSTROM SIGN vs Å,
            # OHM SIGN vs Ω, e + combining acute vs é, DEVANAGARI QA (decomposes), a ligature - "no other character is ever
            # ignored or altered"
            '\u212a', 'K', '\u212b', '\u00c5', '\u2126', '\u03a9', 'e\u0301', '\u0958', '\ufb01']
OTHER = list('019.-,!?(_')
NONSPACE = LETTERS + NONASCII + OTHER
BREAKS = ['\r', '\n', '\r\n', '\n\r']
ODDWS = ['\xa0', '\x0b', '\u2003']
WS = [' ', ' ', ' ', '  ', '\t'] + BREAKS + ODDWS
TOKENS = LETTERS * 3 + NONASCII + OTHER + [' '] * 8 + ['  ', '\t', '\t'] + BREAKS * 2 + ODDWS


def is_ws_tok(t):
    return t.isspace()


def separate(tokens, fl, sep):
    """Keep line-break symbols apart wherever the number of resulting spaces matters (DESIGN soundness note).

    It is immaterial when clean_spaces or strip_all is on, and inside the leading / trailing whitespace when strip
    is on.  Elsewhere a non-space separator is inserted between two adjacent break symbols."""
    if fl['clean'] or fl['strip_all']:
        return list(tokens)
    n = len(tokens)
    lead = 0
    while lead < n and is_ws_tok(tokens[lead]):
        lead += 1
    trail = n
    while trail > lead and is_ws_tok(tokens[trail - 1]):
        trail -= 1
    out = []
    for i, t in enumerate(tokens):
        if out and t in BREAKS and out[-1] in BREAKS and not (fl['strip'] and (i < lead or i >= trail)):
            out.append(sep)
        out.append(t)
    return out


def flip_case(ch):
    return ch.lower() if ch.upper() == ch else ch.upper()


def apply_edit(tokens, ed):
    op, i, ws, ch, where = ed
    toks = list(tokens)
    n = len(toks)

    def pick(pred):
        idx = [k for k in range(n) if pred(toks[k])]
        return idx[i % len(idx)] if idx else None

    applicable = {
        'del-ws': is_ws_tok, 'repl-ws': is_ws_tok, 'dbl-space': lambda t: t == ' ',
        'case-one': lambda t: len(t) == 1 and len(flip_case(t)) == 1 and flip_case(t) != t,
        'chg-char': lambda t: not is_ws_tok(t), 'del-char': lambda t: not is_ws_tok(t),
        'swap-crlf': lambda t: t in ('\r\n', '\n\r'),
    }
    if op in applicable and pick(applicable[op]) is None:
        op = 'ins-ws' if i % 2 else 'ins-char'      # the edit has nothing to act on: insert instead
    if op == 'ins-ws':
        pos = 0 if where == 'start' else n if where == 'end' else i % (n + 1)
        toks.insert(pos, ws)
    elif op == 'del-ws':
        k = pick(is_ws_tok)
        if k is not None:
            del toks[k]
    elif op == 'dbl-space':
        k = pick(lambda t: t == ' ')
        if k is not None:
            toks.insert(k, ' ')
    elif op == 'repl-ws':
        k = pick(is_ws_tok)
        if k is not None:
            toks[k] = ws
    elif op == 'swapcase-all':
        toks = [t.swapcase() if len(t) == 1 and t.swapcase() != t and len(t.swapcase()) == 1 else t for t in toks]
    elif op == 'lower-all':
        toks = [t.lower() if len(t.lower()) == 1 else t for t in toks]
    elif op == 'case-one':
        k = pick(lambda t: len(t) == 1 and len(flip_case(t)) == 1 and flip_case(t) != t)
        if k is not None:
            toks[k] = flip_case(toks[k])
    elif op == 'chg-char':
        k = pick(lambda t: not is_ws_tok(t))
        if k is not None:
            toks[k] = ch if ch != toks[k] else ('q' if ch != 'q' else 'w')
    elif op == 'ins-char':
        toks.insert(i % (n + 1), ch)
    elif op == 'del-char':
        k = pick(lambda t: not is_ws_tok(t))
        if k is not None:
            del toks[k]
    elif op == 'swap-crlf':
        toks = [{'\r\n': '\n\r', '\n\r': '\r\n'}.get(t, t) for t in toks]
    return toks


OPS = ['ins-ws', 'ins-ws', 'ins-ws', 'del-ws', 'del-ws', 'dbl-space', 'repl-ws', 'repl-ws', 'swapcase-all',
       'lower-all', 'case-one', 'case-one', 'chg-char', 'chg-char', 'ins-char', 'del-char', 'swap-crlf']


def flags_st():
    return st.fixed_dictionaries({'cs': st.booleans(), 'strip': st.booleans(), 'strip_all': st.booleans(),
                                  'clean': st.booleans()})


def edit_st():
    return st.tuples(st.sampled_from(OPS), st.integers(0, 59), st.sampled_from(WS), st.sampled_from(NONSPACE),
                     st.sampled_from(['start', 'end', 'inside', 'inside']))


def tokens_st(max_size=9):
    return st.lists(st.sampled_from(TOKENS), min_size=0, max_size=max_size)


EXPLAIN = ['err', 'msg', None]


def strat_match(tier):
    noise = st.one_of(
        st.just({}), st.just({}), st.just({}), st.just({}),
        st.fixed_dictionaries({'min_length': st.integers(0, 6), 'min_words': st.integers(0, 4),
                               'explain_minimums': st.sampled_from(EXPLAIN)}),
        st.fixed_dictionaries({'wrong_msg': st.just('Try again!')}))

    def make(fl, toks, eds, keep, other, unrelated, sep, via, opts):
        etoks = separate(toks, fl, sep)
        if unrelated:
            stoks = other
        else:
            stoks = toks
            for ed in (eds if eds or keep == 0 else [('ins-ws', keep, ' ', 'q', 'end')]):
                stoks = apply_edit(stoks, ed)
        stoks = separate(stoks, fl, sep)
        return {'flags': fl, 'opts': opts, 'expect': ''.join(etoks), 'student': ''.join(stoks), 'via': via}

    return st.builds(make, flags_st(), tokens_st(), st.lists(edit_st(), min_size=0, max_size=3), st.integers(0, 9), tokens_st(6),
                     st.sampled_from([False] * 9 + [True]), st.sampled_from(['q', '.', '7']),
                     st.sampled_from(['answers', 'answers', 'expect-arg', 'answers-dict']), noise)


ANY_TOKENS = LETTERS * 2 + ['é', 'ß', '.', '-', '1'] + [' '] * 9 + ['  ', '\t', '\n', '\r\n', '\n\r', '\r', '\xa0', '\x0b']


def strat_any(tier):
    def make(fl, toks, sep, mode, ml, mw, ex, extra, via):
        opts = {'min_length': ml, 'min_words': mw, 'explain_minimums': ex}
        if mode in ('any', 'both'):
            opts['accept_any'] = True
        if mode in ('nonempty', 'both'):
            opts['accept_nonempty'] = True
        opts.update(extra)
        return {'flags': fl, 'opts': opts, 'expect': None if via == 'none' else '',
                'student': ''.join(separate(toks, fl, sep)), 'via': via}

    extra = st.sampled_from([{}, {}, {}, {'wrong_msg': 'Try again!'}])
    return st.builds(make, flags_st(), st.lists(st.sampled_from(ANY_TOKENS), min_size=0, max_size=12),
                     st.sampled_from(['q', '.', '7']), st.sampled_from(['any', 'any', 'nonempty', 'nonempty', 'both']),
                     st.integers(0, 6), st.integers(0, 4), st.sampled_from(EXPLAIN), extra,
                     st.sampled_from(['none', 'none', 'answers-dict', 'expect-arg']))


# (pattern, strings that fully match it)
PATTERNS = [
    ('cat|dog', ['cat', 'dog']),
    ('(cat|dog)', ['cat', 'dog']),
    ('cat|dog|bird', ['cat', 'dog', 'bird']),
    ('^cat|dog$', ['cat', 'dog']),
    ('a|ab', ['a', 'ab']),
    ('cat|', ['cat', '']),
    ('cat', ['cat']),
    ('ca', ['ca']),
    ('^cat', ['cat']),
    ('cat$', ['cat']),
    ('^cat$', ['cat']),
    ('c.t', ['cat', 'c t', 'c.t']),
    ('[a-z]+', ['cat', 'dogs']),
    ('[a-z ]+', ['a cat', 'cat']),
    ('[A-Z][a-z]*', ['Cat', 'D']),
    ('\\d+', ['12', '007']),
    ('(ab)?c', ['c', 'abc']),
    ('a(bc)?', ['a', 'abc']),
    ('\\w+ \\w+', ['big cat']),
    ('\\w+( \\w+)*', ['a big cat', 'cat']),
    ('\\([0-9]\\)\\([0-9]\\)', ['(1)(2)']),
    ('([CNOH](_[0-9])?)+', ['NH_3', 'CO_2']),
    ('(?i)cat', ['cat', 'CAT']),
    ('cat\\s?', ['cat', 'cat ']),
    ('\\s*cat\\s*', [' cat ', 'cat']),
    ('.{3}', ['cat', 'a b']),
    ('\\S+', ['cat', 'a-b']),
    ('.*', ['', 'anything at all']),
]
SUFFIXES = ['fish', 's', ' ', '  ', '\n', '\t', '.', ' x', '1', '\xa0']
PREFIXES = ['x', ' ', '\t', 'a ', '\r\n', '-']


def vary(base, how, a, b, ws):
    if how == 'same':
        return base
    if how == 'suffix':
        return base + a
    if how == 'prefix':
        return b + base
    if how == 'both':
        return b + base + a
    if how == 'swapcase':
        return base.swapcase()
    if how == 'inner':
        k = len(base) // 2
        return base[:k] + ws + base[k:]
    if how == 'twice':
        return base + ws + base
    return base[:-1]        # 'chop'


VARY = ['same', 'same', 'suffix', 'suffix', 'suffix', 'prefix', 'both', 'swapcase', 'inner', 'twice', 'chop']


def strat_validation(tier):
    def make(fl, pi, ei, si, how_s, how_e, a, b, ws, other, mode, exv, imsg, minopts, extra, via):
        pat, examples = PATTERNS[pi]
        opts = {'validation_pattern': pat, 'explain_validation': exv}
        if imsg:
            opts['invalid_msg'] = imsg
        opts.update(extra)
        if how_s == 'other':
            student = ''.join(other)
        else:
            student = vary(examples[si % len(examples)], how_s, a, b, ws)
        if mode == 'compare':
            expect = vary(examples[ei % len(examples)], how_e, a, b, ws)
            v = via
        else:
            opts.update(minopts)
            opts['accept_any' if mode == 'any' else 'accept_nonempty'] = True
            expect, v = None, 'none'
        return {'flags': fl, 'opts': opts, 'expect': expect, 'student': student, 'via': v}

    minopts = st.one_of(st.just({}), st.fixed_dictionaries({
        'min_length': st.integers(0, 5), 'min_words': st.integers(0, 2), 'explain_minimums': st.sampled_from(EXPLAIN)}))
    return st.builds(
        make, flags_st(), st.integers(0, len(PATTERNS) - 1), st.integers(0, 2), st.integers(0, 2),
        st.sampled_from(VARY + ['other']), st.sampled_from(['same'] * 7 + ['suffix', 'swapcase', 'prefix']),
        st.sampled_from(SUFFIXES), st.sampled_from(PREFIXES), st.sampled_from([' ', '  ', '\t', '\n', '\r\n']),
        st.lists(st.sampled_from(list('catdogb12 ') + ['\t']), min_size=0, max_size=6),
        st.sampled_from(['compare', 'compare', 'any', 'nonempty']), st.sampled_from(EXPLAIN),
        st.sampled_from([None, None, 'Bad format!']), minopts,
        st.sampled_from([{}, {}, {'wrong_msg': 'Try again!'}]), st.sampled_from(['answers', 'answers', 'expect-arg']))


# ---- exhaustive parts

def all_flags():
    for cs, strip, strip_all, clean in itertools.product([True, False], repeat=4):
        yield {'cs': cs, 'strip': strip, 'strip_all': strip_all, 'clean': clean}


def strings_over(alphabet, maxlen):
    for n in range(maxlen + 1):
        for t in itertools.product(alphabet, repeat=n):
            yield ''.join(t)


def items_pairs(tier):
    """Every (expected, submission) pair of short strings x 16 flag combinations.  No run of CR/LF characters is
    longer than three, so the number of line breaks in it is the same under every reading."""
    if tier == 'quick':
        ealpha, salpha = ['a', 'A', ' '], ['a', 'A', ' ', '\n']
    else:
        ealpha, salpha = ['a', 'A', ' ', '\t'], ['a', 'A', ' ', '\n', '\r']
    exps = list(strings_over(ealpha, 3))
    subs = list(strings_over(salpha, 3))
    for fl in all_flags():
        for e in exps:
            for s in subs:
                yield {'flags': fl, 'opts': {}, 'expect': e, 'student': s, 'via': 'answers'}


WSYMS = [' ', '  ', '\t', '\r', '\n', '\r\n', '\n\r', '\r\r', '\n\n', '\r\n\r\n', '\n\r\n', '\t ', ' \n', '\xa0',
         '\x0b', '\u2003', '\u200b', '\xa0 ', ' \xa0']


def placements(w):
    return ['ab cd', w + 'ab cd', 'ab cd' + w, 'a' + w + 'b cd', 'ab' + w + 'cd', 'ab ' + w + 'cd', 'ab' + w + ' cd',
            w + 'ab' + w + 'cd' + w]


def items_wsyms(tier):
    """Each whitespace symbol at each placement, on the submission, on the expected string, or on both."""
    for fl in all_flags():
        for w in WSYMS:
            pl = placements(w)
            for a in pl:
                for b in pl:
                    if a is pl[0] and b is pl[0] and w != WSYMS[0]:
                        continue
                    yield {'flags': fl, 'opts': {}, 'expect': a, 'student': b, 'via': 'answers'}


GRID_SUBS = ['', ' ', 'a', ' a ', 'ab', 'a b', 'a  b', ' a  b  c ', 'a\tb\nc d', 'abcdef', 'abc de', 'a b c d',
             '  a  b  c  d  ', 'a.b-c', 'a\r\nb', 'one two three four', '\n\n', 'a \xa0 b']


def items_minimums(tier):
    for strip, strip_all, clean in itertools.product([True, False], repeat=3):
        fl = {'cs': True, 'strip': strip, 'strip_all': strip_all, 'clean': clean}
        for mode in ('any', 'nonempty', 'both'):
            for ml in range(7):
                for mw in range(5):
                    for ex in EXPLAIN:
                        for s in GRID_SUBS:
                            opts = {'min_length': ml, 'min_words': mw, 'explain_minimums': ex}
                            if mode != 'nonempty':
                                opts['accept_any'] = True
                            if mode != 'any':
                                opts['accept_nonempty'] = True
                            yield {'flags': fl, 'opts': opts, 'expect': None, 'student': s, 'via': 'none'}


VGRID_SUBS = ['cat', 'dog', 'catfish', 'hotdog', 'cat ', ' cat', 'c at', 'CAT', 'Cat', 'ca', 'a', 'ab', 'abc', '',
              '12', '12a', 'big cat', 'big  cat', 'a big cat', '(1)(2)', '( 1 )( 2 )', 'NH_3', 'N H _ 3', 'KCl',
              'cat\n', 'cat\ndog', 'c\tt']
VGRID_FLAGS = [
    {'cs': True, 'strip': True, 'strip_all': False, 'clean': True},
    {'cs': True, 'strip': True, 'strip_all': True, 'clean': True},
    {'cs': False, 'strip': True, 'strip_all': False, 'clean': True},
    {'cs': True, 'strip': False, 'strip_all': False, 'clean': False},
]


def items_validation(tier):
    for fl in VGRID_FLAGS:
        for pat, examples in PATTERNS:
            for exv in EXPLAIN:
                for s in VGRID_SUBS:
                    base = {'validation_pattern': pat, 'explain_validation': exv}
                    yield {'flags': fl, 'opts': dict(base, accept_any=True), 'expect': None, 'student': s,
                           'via': 'none'}
                    yield {'flags': fl, 'opts': dict(base, accept_nonempty=True, min_words=1, explain_minimums='msg'),
                           'expect': None, 'student': s, 'via': 'none'}
                    for e in examples + [examples[0] + 'fish']:
                        yield {'flags': fl, 'opts': dict(base), 'expect': e, 'student': s, 'via': 'answers'}


PARTS = [
    Part('pairs', 'enum', judge, items=items_pairs, exhaustive=True),
    Part('wsyms', 'enum', judge, items=items_wsyms, exhaustive=True),
    Part('minimums-grid', 'enum', judge, items=items_minimums, exhaustive=True),
    Part('validation-grid', 'enum', judge, items=items_validation, exhaustive=True),
    Part('match', 'hyp', judge, strategy=strat_match, budget={'quick': 8000, 'thorough': 1000000}),
    Part('acceptany', 'hyp', judge, strategy=strat_any, budget={'quick': 3000, 'thorough': 250000}),
    Part('validation', 'hyp', judge, strategy=strat_validation, budget={'quick': 3000, 'thorough': 250000}),
]
