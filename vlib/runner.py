"""CLI: python -m vlib.runner CNN [quick|thorough] | CNN --replay <path>.

Exit codes: 0 property held on everything explored (KNOWN-FINDING lines may be printed), 1 + a line
"VIOLATION property=CNN replay=<path>" for a violation not listed in known_findings.json, 2 harness error.
"""
import glob
import importlib
import json
import os
import subprocess
import sys
import time
import traceback

HERE = os.path.dirname(os.path.dirname(os.path.abspath(__file__)))
OUT = os.environ.get('VERIF_OUT') or HERE   # evidence/ and replays/ go here (scratch dir in the mutant self-test)


def _bootstrap():
    deps = os.path.join(HERE, '.deps')
    ok = os.path.isdir(os.path.join(deps, 'mpmath'))
    if not ok:
        subprocess.call(['/bin/bash', os.path.join(HERE, 'setup.sh')], stdout=subprocess.DEVNULL)
    repo = os.path.realpath(os.environ.get('VERIF_REPO', '/repo'))
    # repo first (so that the vendored voluptuous of the tree under test is used), then our deps
    sys.path[:0] = [repo, HERE]
    sys.path.append(deps)
    import warnings
    warnings.filterwarnings('ignore')


_bootstrap()

from vlib import core  # noqa: E402
from vlib.core import Violation, Discard, Rec, HarnessError, canonical  # noqa: E402
from vlib import known as knownmod  # noqa: E402


def find_module(pid):
    hits = glob.glob(os.path.join(HERE, 'checks', pid.lower() + '_*.py'))
    if len(hits) != 1:
        raise HarnessError('no unique check module for %s: %s' % (pid, hits))
    name = 'checks.' + os.path.basename(hits[0])[:-3]
    return importlib.import_module(name)


# ----------------------------------------------------------------------------------------------------
# running one case


def run_case(part, spec, rec, pid):
    """Returns None, or a Violation that is not a known finding."""
    rec.begin()
    try:
        obs = part.judge(spec, rec)
    except Discard as d:
        rec.discards[d.reason] += 1
        return None
    except Violation as v:
        v.spec = spec
        if knownmod.is_known(pid, v.key):
            rec.excluded_known[v.key] += 1
            return None
        return v
    except core.Watchdog as w:
        v = Violation('watchdog', str(w))
        v.spec = spec
        return v
    except (KeyboardInterrupt, SystemExit, MemoryError):
        raise
    except BaseException as e:  # noqa: BLE001
        if type(e).__module__.startswith('hypothesis'):
            raise
        inner_repo, last = core.lib_frames(e.__traceback__)
        # (frames of compiled extension code carry relative file names such as numpy/random/mtrand.pyx, which
        # realpath would resolve under the current directory: only absolute paths can be harness code)
        if inner_repo is not None and not (os.path.isabs(last.filename) and
                                           os.path.realpath(last.filename).startswith(HERE + os.sep)):
            # an exception the oracle did not anticipate, raised from inside the library under test
            v = Violation('uncaught/%s/%s:%s' % (type(e).__name__, os.path.basename(inner_repo.filename),
                                                  inner_repo.name),
                          'library raised %s: %s' % (type(e).__name__, str(e)[:300]),
                          traceback=''.join(traceback.format_exception(type(e), e, e.__traceback__))[-3000:])
            v.spec = spec
            if knownmod.is_known(pid, v.key):
                rec.excluded_known[v.key] += 1
                return None
            return v
        raise HarnessError('judge %s failed on spec %s:\n%s' % (
            part.name, canonical(spec)[:1500],
            ''.join(traceback.format_exception(type(e), e, e.__traceback__)))) from e
    rec.end(part.name, spec, obs)
    return None


def viol_dict(part, v, seed, tier):
    return {'part': part.name, 'key': v.key, 'message': v.msg, 'extra': core.jsonable(v.extra),
            'spec': core.jsonable(v.spec), 'seed': seed, 'tier': tier, 'prelude': _PRELUDE['ran']}


_PRELUDE = {'ran': False}


def _maybe_prelude(mod, shard, rec, force=False):
    """Odd-numbered shards first run the process-history medley of vlib/prelude.py (see there); a check module opts
    out with PRELUDE = False (C10/C11 compare with pristine forked children).  VERIF_PRELUDE=0/1 forces it off/on."""
    env = os.environ.get('VERIF_PRELUDE', '')
    want = force or (env in ('1', 'standing')) or (env != '0' and shard % 2 == 1)
    if not want or not getattr(mod, 'PRELUDE', True):
        return False
    from vlib import prelude
    devnull = os.open(os.devnull, os.O_WRONLY)
    sys.stdout.flush()
    sys.stderr.flush()
    saved = [os.dup(1), os.dup(2)]
    try:
        os.dup2(devnull, 1)     # LAPACK prints "illegal value" notes for non-finite input straight to fd 1
        os.dup2(devnull, 2)
        n = prelude.run()
    finally:
        os.dup2(saved[0], 1)
        os.dup2(saved[1], 2)
        os.close(saved[0])
        os.close(saved[1])
        os.close(devnull)
    _PRELUDE['ran'] = True
    rec.note('prelude_shards')
    rec.note('prelude_operations', n)
    if (force == 'standing' or env == 'standing' or (shard % 4 == 3 and force is False)) and getattr(mod, 'STANDING_DEFAULTS', True):
        prelude.standing_defaults()
        _PRELUDE['ran'] = 'standing'
        rec.note('standing_registered_defaults_shards')
    return True


# ----------------------------------------------------------------------------------------------------
# workers (run inside forked pool processes)


def _worker(args):
    modname, partname, shard, nshards, n_examples, seed, tier, pid = args
    t0 = time.time()
    out = {'part': partname, 'shard': shard, 'violations': [], 'error': None}
    rec = Rec()
    try:
        mod = importlib.import_module(modname)
        part = {p.name: p for p in mod.PARTS}[partname]
        out['prelude'] = part.prelude and _maybe_prelude(mod, shard, rec)
        if part.kind == 'enum':
            nviol = 0
            for idx, spec in enumerate(part.items(tier)):
                if idx % nshards != shard:
                    continue
                v = run_case(part, spec, rec, pid)
                if v is not None:
                    nviol += 1
                    keys = {x['key'] for x in out['violations']}
                    if v.key not in keys:
                        out['violations'].append(viol_dict(part, v, seed, tier))
                    # enough evidence: five root causes, or many instances of the same ones, or a non-terminating
                    # call (every further instance would cost a full watchdog period)
                    if len(out['violations']) >= 5 or nviol >= 50 or v.key == 'watchdog':
                        break
        elif part.kind == 'hyp':
            vs = _hyp_drive(part, rec, pid, n_examples, seed * 1000 + shard, tier)
            out['violations'] = [viol_dict(part, v, seed, tier) for v in vs]
        elif part.kind == 'fuzz':
            return _fuzz_shard(args, out, rec, t0)
        else:
            raise HarnessError('unknown part kind ' + part.kind)
    except HarnessError as e:
        out['error'] = str(e)
    except BaseException as e:  # noqa: BLE001
        out['error'] = ''.join(traceback.format_exception(type(e), e, e.__traceback__))
    out['rec'] = rec.export()
    out['wall'] = time.time() - t0
    return out


def _fuzz_shard(args, out, rec, t0):
    """kind 'fuzz': a coverage-guided campaign in a fresh interpreter (vlib/fuzzworker.py); see there."""
    import pickle
    import re
    import tempfile
    modname, partname, shard, nshards, n_examples, seed, tier, pid = args
    fd, path = tempfile.mkstemp(prefix='mitxfuzz.', suffix='.pickle', dir='/var/tmp')
    os.close(fd)
    try:
        env = dict(os.environ, PYTHONPATH=HERE)
        r = subprocess.run([sys.executable, '-m', 'vlib.fuzzworker', modname, partname, str(shard), str(n_examples),
                            str(seed), tier, pid, path], cwd=HERE, env=env, stdout=subprocess.DEVNULL,
                           stderr=subprocess.PIPE, text=True, errors='replace')
        try:
            with open(path, 'rb') as f:
                res = pickle.load(f)
        except Exception:  # noqa: BLE001
            out['error'] = 'fuzz worker for part %s shard %d left no result (rc=%s):\n%s' % (
                partname, shard, r.returncode, r.stderr[-3000:])
            out['rec'] = rec.export()
            out['wall'] = time.time() - t0
            return out
        m = re.findall(r'cov: (\d+) ft: (\d+)', r.stderr)
        if m:
            res['rec']['maxima']['fuzz_coverage_edges'] = int(m[-1][0])
            res['rec']['maxima']['fuzz_features'] = int(m[-1][1])
        return res
    finally:
        try:
            os.unlink(path)
        except OSError:
            pass


def _hyp_drive(part, rec, pid, n_examples, hseed, tier):
    import hypothesis
    from hypothesis import given, settings, HealthCheck, Phase
    state = {'v': None, 'spec_c': None, 't_first': None}
    budget = part.shrink_s if part.shrink_s is not None else (45 if tier == 'quick' else 180)

    strat = part.strategy(tier)

    @hypothesis.seed(hseed)
    @settings(max_examples=max(1, n_examples), database=None, deadline=None, derandomize=False,
              report_multiple_bugs=False, print_blob=False,
              suppress_health_check=[HealthCheck.too_slow, HealthCheck.data_too_large,
                                     HealthCheck.large_base_example],
              phases=[Phase.generate, Phase.shrink])
    @given(strat)
    def test(spec):
        c = None
        if state['t_first'] is not None and time.time() - state['t_first'] > budget:
            # shrink budget used up: everything but the smallest failing example found so far is reported as
            # passing WITHOUT being run (a hanging library call would cost a watchdog period per attempt)
            c = canonical(spec)
            if c != state['spec_c']:
                return
        v = run_case(part, spec, rec, pid)
        if v is None:
            return
        now = time.time()
        c = c or canonical(spec)
        if state['t_first'] is None:
            state['t_first'] = now
        if state['v'] is not None and v.key != state['v'].key:
            return  # shrink within one root-cause bucket only
        state['v'], state['spec_c'] = v, c
        raise AssertionError(v.key)

    try:
        test()
    except HarnessError:
        raise
    except hypothesis.errors.FailedHealthCheck as e:
        raise HarnessError('hypothesis health check: %s' % e)
    except BaseException as e:  # noqa: BLE001
        if state['v'] is None:
            raise HarnessError('hypothesis driver failed without a violation:\n' + ''.join(
                traceback.format_exception(type(e), e, e.__traceback__)))
    return [state['v']] if state['v'] is not None else []


# ----------------------------------------------------------------------------------------------------


def main(argv):
    if not argv:
        print('usage: check CNN [quick|thorough] | CNN --replay <path>', file=sys.stderr)
        return 2
    pid = argv[0].upper()
    seed = int(os.environ.get('VERIF_SEED', '1') or 1)
    jobs = int(os.environ.get('VERIF_JOBS', '0') or 0) or (os.cpu_count() or 4)
    mod = find_module(pid)
    if len(argv) >= 3 and argv[1] == '--replay':
        return replay(mod, pid, argv[2])
    tier = argv[1] if len(argv) > 1 else os.environ.get('VERIF_TIER', 'quick')
    if tier not in ('quick', 'thorough'):
        print('unknown tier ' + tier, file=sys.stderr)
        return 2
    t0 = time.time()
    only = os.environ.get('VERIF_PARTS')
    parts = [p for p in mod.PARTS if not only or p.name in only.split(',')]
    tasks = []
    for p in parts:
        if p.kind == 'enum':
            ns = p.shards or jobs
            for s in range(ns):
                tasks.append((mod.__name__, p.name, s, ns, 0, seed, tier, pid))
        else:
            total = p.budget.get(tier, 0)
            if p.kind == 'fuzz' and os.environ.get('VERIF_FUZZ_RUNS'):
                total = int(os.environ['VERIF_FUZZ_RUNS'])      # development aid: cap / enable a campaign
            if p.kind == 'fuzz' and (total <= 0 or os.environ.get('VERIF_FUZZ', '') == '0'):
                continue   # coverage-guided campaigns belong to the thorough tier
            ns = min(p.shards or jobs, max(1, total // 20))
            for s in range(ns):
                tasks.append((mod.__name__, p.name, s, ns, total // ns + (1 if s < total % ns else 0), seed, tier,
                              pid))
    results = run_tasks(tasks, jobs)
    return finish(mod, pid, tier, seed, parts, results, time.time() - t0)


def _child(conn, task):
    try:
        out = _worker(task)
    except BaseException as e:  # noqa: BLE001
        out = {'part': task[1], 'shard': task[2], 'violations': [], 'rec': Rec().export(), 'wall': 0.0,
               'error': ''.join(traceback.format_exception(type(e), e, e.__traceback__))}
    try:
        conn.send(out)
    finally:
        conn.close()


def run_tasks(tasks, jobs):
    """One fresh process per task, always forked from the MAIN thread of this process.

    (multiprocessing.Pool forks replacement workers from a helper thread; numpy's floating-point error state is
    context-local, so such workers would lose the error handling the library installs at import time.)  Every task
    therefore starts from the parent's post-import state: library imported, nothing parsed, nothing graded."""
    import multiprocessing as mp
    from multiprocessing.connection import wait
    if jobs == 1 and len(tasks) == 1:
        return [_worker(tasks[0])]
    ctx = mp.get_context('fork')
    pending = list(tasks)
    running = {}
    results = []
    # a worker that makes no progress at all (a library call stuck inside C code cannot be interrupted by the in-process
    # SIGALRM watchdog) is killed after this many seconds and reported as a harness error (exit 2: inconclusive), so
    # that a check never hangs; the termination clauses of C02/C06/C13 are judged by their own forked, kernel-killed parts
    limit = float(os.environ.get('VERIF_TASK_TIMEOUT', '0') or 0) or (1500.0 if tasks and tasks[0][6] == 'quick' else 14400.0)
    started = {}
    while pending or running:
        while pending and len(running) < jobs:
            t = pending.pop(0)
            rd, wr = ctx.Pipe(duplex=False)
            p = ctx.Process(target=_child, args=(wr, t))
            p.start()
            wr.close()
            running[rd] = (p, t)
            started[rd] = time.time()
        ready = wait(list(running), timeout=5.0)
        if not ready:
            now = time.time()
            for c in [c for c in running if now - started[c] > limit]:
                p, t = running.pop(c)
                p.kill()
                p.join()
                c.close()
                results.append({'part': t[1], 'shard': t[2], 'violations': [], 'rec': Rec().export(), 'wall': limit,
                                'error': 'worker for part %s shard %d made no progress for %.0f s and was killed '
                                         '(a library call that does not return?)' % (t[1], t[2], limit)})
            continue
        for c in ready:
            p, t = running.pop(c)
            try:
                r = c.recv()
            except (EOFError, OSError):
                r = {'part': t[1], 'shard': t[2], 'violations': [], 'rec': Rec().export(), 'wall': 0.0,
                     'error': 'worker for part %s shard %d died without a result' % (t[1], t[2])}
            c.close()
            p.join()
            results.append(r)
    return results


def finish(mod, pid, tier, seed, parts, results, wall):
    from collections import Counter
    errors = [r['error'] for r in results if r['error']]
    classes, discards, excluded, notes = Counter(), Counter(), Counter(), Counter()
    maxima = {}
    hashes = set()
    samples = []
    cases = judged = lib_calls = 0
    per_part = {}
    viols = []
    for r in results:
        rc = r['rec']
        cases += rc['cases']
        judged += rc['judged']
        lib_calls += rc['lib_calls']
        classes.update(rc['classes'])
        discards.update(rc['discards'])
        excluded.update(rc['excluded_known'])
        notes.update(rc['notes'])
        for k, v in rc['maxima'].items():
            if v > maxima.get(k, float('-inf')):
                maxima[k] = v
        hashes |= rc['hashes']
        samples.extend(rc['samples'])
        pp = per_part.setdefault(r['part'], {'cases': 0, 'judged': 0, 'wall_max_s': 0.0, 'shards': 0})
        pp['cases'] += rc['cases']
        pp['judged'] += rc['judged']
        pp['shards'] += 1
        pp['wall_max_s'] = round(max(pp['wall_max_s'], r['wall']), 2)
        viols.extend(r['violations'])
    for p in parts:
        if p.name in per_part:
            per_part[p.name]['kind'] = p.kind
            per_part[p.name]['exhaustive'] = bool(p.exhaustive)
    samples.sort(key=lambda s: s[0])
    # spread samples over parts: take up to 3 per part, then fill
    chosen, seen_parts = [], Counter()
    for s in samples:
        if seen_parts[s[1]] < 3:
            chosen.append(s)
            seen_parts[s[1]] += 1
    chosen = chosen[:12]
    sample_out = []
    for hx, part, c, obs in chosen:
        try:
            spec = json.loads(c)
        except ValueError:
            spec = c
        sample_out.append({'part': part, 'spec': spec, 'observed': obs})

    # one replay file per root-cause bucket
    buckets = {}
    for v in viols:
        b = buckets.get(v['key'])
        if b is None or len(canonical(v['spec'])) < len(canonical(b['spec'])):
            buckets[v['key']] = v
    replay_paths = []
    rdir = os.path.join(OUT, 'replays', pid)
    for key, v in sorted(buckets.items()):
        os.makedirs(rdir, exist_ok=True)
        safe = ''.join(ch if ch.isalnum() or ch in '-_.' else '_' for ch in key)[:80]
        path = os.path.join('replays', pid, 'fail_%s.json' % safe)
        v = dict(v, property=pid)
        with open(os.path.join(OUT, path), 'w') as f:
            json.dump(v, f, indent=1, sort_keys=True)
        replay_paths.append((key, path, v['message']))

    required = getattr(mod, 'REQUIRED', {})
    missing = {k: (classes.get(k, 0), n) for k, n in required.items() if classes.get(k, 0) < n}
    if os.environ.get('VERIF_PARTS'):
        missing = {}    # a partial run (development aid) cannot reach every class
    level = getattr(mod, 'LEVEL', 'exploration')
    ev = {
        'property_id': pid, 'tier': tier, 'seed': seed, 'level': level,
        'coverage': {
            'evaluations': cases,
            'judged': judged,
            'library_calls': lib_calls,
            'distinct_nontrivial': len(hashes),
            'rule': mod.RULE,
            'samples': sample_out if sample_out else [{'note': 'no non-trivial case in this run'}],
            'classes': dict(sorted(classes.items())),
            'discarded': dict(sorted(discards.items())),
            'excluded_known': dict(sorted(excluded.items())),
            'parts': per_part,
            'exhaustive': bool(parts) and all(p.exhaustive for p in parts),
            'notes': dict(sorted(notes.items())),
            'maxima': {k: core.jsonable(v) for k, v in sorted(maxima.items())},
            'required_classes': required,
        },
        'assumptions': list(getattr(mod, 'ASSUMPTIONS', [])),
        'wall_s': round(wall, 2),
        'violations': len(buckets),
        'violation_keys': sorted(buckets),
        'repo': core.REPO,
    }
    os.makedirs(os.path.join(OUT, 'evidence'), exist_ok=True)
    with open(os.path.join(OUT, 'evidence', pid + '.json'), 'w') as f:
        json.dump(ev, f, indent=1, sort_keys=False)
        f.write('\n')

    for line in knownmod.known_lines(pid):
        print(line)
    print('%s %s seed=%d: cases=%d judged=%d nontrivial=%d discarded=%d excluded_known=%d wall=%.1fs' % (
        pid, tier, seed, cases, judged, len(hashes), sum(discards.values()), sum(excluded.values()), wall))
    if replay_paths:
        for key, path, msg in replay_paths:
            print('  bucket %s: %s' % (key, msg[:300]))
        for key, path, msg in replay_paths:
            print('VIOLATION property=%s replay=%s' % (pid, path))
        return 1
    if errors:
        print('HARNESS ERROR in %d worker(s):\n%s' % (len(errors), errors[0][:4000]), file=sys.stderr)
        return 2
    if missing:
        print('HARNESS ERROR: generator did not reach required classes (have, need): %s' % missing,
              file=sys.stderr)
        return 2
    return 0


def replay(mod, pid, path):
    if not os.path.isabs(path):
        path = os.path.join(HERE, path)
    with open(path) as f:
        data = json.load(f)
    part = {p.name: p for p in mod.PARTS}[data['part']]
    rec = Rec()
    if data.get('prelude'):
        _maybe_prelude(mod, 1, rec, force=data['prelude'])
    rec.begin()
    try:
        obs = part.judge(data['spec'], rec)
    except Discard as d:
        print('replay: case discarded (%s)' % d.reason)
        return 0
    except Violation as v:
        if knownmod.is_known(pid, v.key):
            for line in knownmod.known_lines(pid):
                print(line)
            return 0
        print('  bucket %s: %s' % (v.key, v.msg[:600]))
        print('VIOLATION property=%s replay=%s' % (pid, os.path.relpath(path, HERE)))
        return 1
    except core.Watchdog as w:
        print('  bucket watchdog: %s' % w)
        print('VIOLATION property=%s replay=%s' % (pid, os.path.relpath(path, HERE)))
        return 1
    except Exception as e:  # noqa: BLE001
        inner_repo, last = core.lib_frames(e.__traceback__)
        if inner_repo is not None:
            print('  bucket uncaught/%s: %s' % (type(e).__name__, str(e)[:300]))
            print('VIOLATION property=%s replay=%s' % (pid, os.path.relpath(path, HERE)))
            return 1
        raise
    print('replay: property held; observed %s' % json.dumps(core.jsonable(obs))[:500])
    return 0


if __name__ == '__main__':
    try:
        rc = main(sys.argv[1:])
    except HarnessError as e:
        print('HARNESS ERROR: %s' % e, file=sys.stderr)
        rc = 2
    except BaseException as e:  # noqa: BLE001
        traceback.print_exc()
        rc = 2
    sys.stdout.flush()
    sys.exit(rc)
