"""C04 - a formula is marked correct exactly when enough samples agree within tolerance."""
import math

from hypothesis import strategies as st

from vlib import rivals
from vlib import forms
from vlib.core import Part, Violation, Discard, call
from vlib import exprgen as X
from vlib.models import ScriptedSampler

from mitxgraders import FormulaGrader, NumericalGrader, MatrixGrader
from mitxgraders.exceptions import MITxError
from mitxgraders.sampling import set_seed

RULE = ("Formula/Matrix/Numerical graders with the default equality comparison whose variables x, y are sampled by an "
        "author-defined scripted sampling set, so the oracle knows every sample. Student formulas: answer + "
        "d*prod(x - x_k) (exact on chosen samples, off by a controlled amount elsewhere -> exact failure count), "
        "answer*(1+eps), sqrt(x^2)-style branch variants, equivalence-preserving rewrites; exact-boundary classes "
        "(identical strings under tolerance 0 / '0%'; dyadic constants with |diff| == tol exactly and tol + 2^-20); "
        "infinities with allow_inf. Oracle: reference evaluation of both trees at each sample, |diff| vs t or p%*|expected| "
        "(Frobenius norm for arrays), F = number of failing samples, correct iff (samples==1 and F==0) or "
        "(samples>1 and F<=failable_evals); guard band 1e-7 around the boundary discarded. Non-trivial iff 0<F<samples, "
        "or some diff/tol in [0.5,2], or percentage tolerance where |expected| and |student| differ by more than the "
        "tolerance ratio, or an array answer, or an exact-boundary case. Distinct by spec hash.")
ASSUMPTIONS = ["the k-th draw of every scripted variable belongs to the k-th sample (one answer alternative, so one "
               "sampling pass per call) - verified by the agreement of 100% of judged cases on the unchanged tree",
               "reference evaluation keeps reals real; cases with intermediates > 1e8 or ill-conditioned are discarded"]
REQUIRED = {'magnitude/square-leaves-float-range': 60, 'mid-failures': 150, 'near-boundary': 100, 'pct-asymmetric': 60, 'array': 150, 'exact/identical': 100, 'tight-percentage': 100, 'random-function': 100, 'array/frobenius-vs-max': 40,
            'exact/dyadic-on': 60, 'exact/dyadic-off': 60, 'rewrite': 100, 'infinity': 60, 'numerical': 60,
            'complex-samples': 80}

FUNCS = ['sin', 'cos', 'exp', 'abs', 'cosh', 'f', 'g']
LIBF = dict(X.USER_FUNCS)

TOLS = [0, 1e-9, 0.01, 1, 7.5, '0%', '0.01%', '1%', '10%', '250%']


def lit(v):
    """tree for the real number v"""
    if v < 0:
        return ['neg', ['num', repr(-float(v)), -float(v)]]
    return ['num', repr(float(v)), float(v)]


def lit_c(z):
    if isinstance(z, (list, tuple)):
        re, im = z
    else:
        re, im = z, 0.0
    if im == 0:
        return lit(re)
    return ['add', lit(re), ['mul', lit(im), ['var', 'i']]]


def sample_values():
    nice = st.sampled_from([0.6, 1.7, -0.6, 2.5, 0.3, 1.25, -1.5, 3.0, 0.8, -2.25, 1.1, 0.45, -0.9, 2.0])
    real = st.tuples(nice, st.just(0.0)).map(list)
    cplx = st.tuples(nice, st.sampled_from([0.5, -0.75, 1.5, 0.25])).map(list)
    return real, cplx


@st.composite
def specs(draw):
    kind = draw(st.sampled_from(['poly', 'poly', 'poly', 'scale', 'pct', 'tightpct', 'randfunc', 'rewrite', 'branch', 'identical', 'dyadic',
                                 'infinity', 'numerical', 'array', 'array', 'magnitude']))
    real, cplx = sample_values()
    ns = draw(st.integers(1, 8))
    spec = {'kind': kind, 'seed': draw(st.integers(0, 10 ** 6)), 'credit': draw(st.sampled_from([1, 1, 0.5, 0.3])),
            'ws': draw(X.whitespace_styles())}
    if kind == 'randfunc':
        # the answer applies a RANDOMLY SAMPLED function (redrawn at every sample) to literal numbers only: author and
        # student must be evaluated with the same draw at every sample (a seeded change cached the author's value of
        # "variable-free" answers at the first sample)
        spec['samples'] = draw(st.integers(2, 6))
        spec['failable'] = draw(st.integers(0, 1))
        spec['tol'] = draw(st.sampled_from([1e-9, 0.01, '0.01%', '1%']))
        spec['answer'] = draw(st.sampled_from(['f(0)+2*f(1)', 'f(2)', 'f(0.5)*f(1.5)', 'f(1)-f(0)', 'h(1,2)+f(0)']))
        spec['rewrite'] = draw(st.sampled_from(['same', 'commute', 'times1', 'plus0', 'wrong']))
        return spec
    if kind == 'tightpct':
        # very tight percentage tolerances (a seeded change rounded the stored percentage to 6 decimals)
        spec['samples'] = draw(st.integers(1, 4))
        spec['failable'] = 0
        spec['tol'], spec['eps'] = draw(st.sampled_from([
            ['1e-7%', 1e-10], ['1e-7%', -2e-10], ['1e-7%', 5e-9], ['0.0000004%', 1e-9], ['0.0000004%', 9e-9],
            ['0.0000026%', 2.9e-8], ['0.0000026%', 1e-8], ['0.0000026%', -2.2e-8], ['0.00001%', 1.4e-7],
            ['0.00001%', 4e-8]]))
        spec['answer'] = draw(st.sampled_from(['x', '2*x+1', 'x^2+y', 'x*y', '3', 'x+y+0.5']))
        spec['xs'] = draw(st.lists(st.sampled_from([0.6, 1.7, 2.5, 1.25, 3.0, 0.8]), min_size=4, max_size=4))
        spec['ys'] = draw(st.lists(st.sampled_from([0.5, 1.5, 2.0, 0.75]), min_size=4, max_size=4))
        return spec
    if kind == 'magnitude':
        # the tolerance rule at every magnitude a float can hold: answers c*10^k for |k| up to 300 (squares of such numbers
        # overflow beyond 1.3e154 and vanish below 1.5e-162; the rule itself involves no squares for scalars)
        spec['samples'] = draw(st.integers(1, 3))
        spec['failable'] = 0
        spec['c'] = draw(st.sampled_from([1.0, 2.5, -3.0, 7.25, -1.5]))
        spec['k'] = draw(st.sampled_from([0, 50, 100, 150, 153, 154, 155, 160, 170, 200, 300, 307,
                                          -50, -100, -150, -160, -161, -162, -163, -170, -200, -300, -306]))
        spec['tol'] = draw(st.sampled_from(['1%', '10%', '0.01%', '250%', 'abs-small', 'abs-large', 0, '0%']))
        spec['eps'] = draw(st.sampled_from([0.0, 0.0, 1e-9, 0.004, 0.02, -0.05, 0.3, 1.0, 4.0, -0.5]))
        spec['grader'] = draw(st.sampled_from(['formula', 'numerical', 'matrix', 'formula-complex']))
        return spec
    if kind in ('dyadic', 'infinity', 'numerical'):
        spec['samples'] = 1 if kind == 'numerical' else draw(st.integers(1, 4))
        spec['failable'] = 0 if kind == 'numerical' else draw(st.integers(0, 2))
        if kind == 'dyadic':
            spec['a'] = draw(st.sampled_from([10.0, 2.5, 0.75, 100.0, 3.0, -4.5, 1024.0]))
            spec['t'] = draw(st.sampled_from([1.0, 0.25, 0.5, 0.125, 2.0, 0.0625]))
            spec['sign'] = draw(st.sampled_from([1, -1]))
            spec['off'] = draw(st.booleans())
            spec['grader'] = draw(st.sampled_from(['formula', 'numerical', 'matrix']))
        elif kind == 'infinity':
            spec['expect'] = draw(st.sampled_from(['infty', '-infty', '5', 'infty+1', '2*infty', '-infty/2']))
            spec['student'] = draw(st.sampled_from(['infty', '-infty', '5', '1e8', '-1e8', 'infty*2', '3-infty',
                                                    '0', 'infty^2', '-(infty)']))
            spec['tol'] = draw(st.sampled_from(TOLS))
            spec['grader'] = draw(st.sampled_from(['formula', 'numerical']))
        else:
            spec['tree'] = draw(X.trees(var_names=[], func_names=['sin', 'cos', 'exp', 'abs', 'sqrt'],
                                        max_leaves=6))
            spec['tol'] = draw(st.sampled_from(TOLS))
            spec['d'] = draw(st.sampled_from([0.0, 1e-12, 0.004, 0.05, 0.7, 3.0, -0.02]))
        return spec
    spec['samples'] = ns
    spec['failable'] = draw(st.integers(0, ns + 1))
    spec['tol'] = draw(st.sampled_from(TOLS))
    cx = draw(st.integers(0, 9)) < 3
    pool = cplx if cx else real
    # distinct x samples so that the product vanishes at the chosen ones only
    spec['xs'] = draw(st.lists(pool, min_size=ns, max_size=ns, unique_by=lambda p: (p[0], p[1])))
    spec['ys'] = draw(st.lists(real, min_size=ns, max_size=ns))
    vars_ = ['x', 'y']
    if kind == 'array':
        n = draw(st.sampled_from([2, 3, 4]))
        shape = draw(st.sampled_from(['vec', 'vec', 'mat']))
        cnt = n if shape == 'vec' else 4
        spec['shape'] = shape
        spec['trees'] = [draw(X.trees(var_names=vars_, func_names=FUNCS, max_leaves=4, consts=False))
                         for _ in range(cnt)]
        spec['ds'] = [draw(st.sampled_from([0.0, 0.0, 0.004, 0.05, 0.7, 3.0])) for _ in range(cnt)]
        spec['kzero'] = draw(st.integers(0, ns))
        if draw(st.integers(0, 3)) == 0:
            # every entry off by 0.8*tol: inside the tolerance entry-wise (max norm), outside it in Frobenius norm
            spec['tol'] = draw(st.sampled_from([0.01, 1, 7.5]))
            spec['ds'] = [0.8 * spec['tol']] * cnt
            spec['kzero'] = 0
            spec['frob'] = True
        return spec
    spec['tree'] = draw(X.trees(var_names=vars_, func_names=FUNCS, max_leaves=7, consts=False))
    if kind == 'poly':
        spec['d'] = draw(st.sampled_from([1e-12, 0.004, 0.05, 0.7, 3.0, -0.3, 0.011, 20.0]))
        spec['kzero'] = draw(st.integers(0, ns))
    elif kind == 'pct':
        # relative error chosen between p and p/(1+eps): the verdict depends on WHICH value the percentage refers to
        spec['tol'] = draw(st.sampled_from(['1%', '10%', '250%']))
        spec['eps'] = draw(st.sampled_from({'1%': [0.01005, -0.00995], '10%': [0.105, -0.095, 0.108],
                                            '250%': [3.0, -0.75, 3.4]}[spec['tol']]))
    elif kind == 'scale':
        spec['eps'] = draw(st.sampled_from([1e-12, 1e-5, 5e-5, 2e-4, 0.004, 0.02, 0.3, -0.05, 2.0]))
    elif kind == 'rewrite':
        spec['how'] = draw(st.lists(st.sampled_from(['commute', 'plus0', 'times1', 'parens', 'distribute', 'dneg',
                                                     'div1', 'pow1']), min_size=1, max_size=3))
        spec['style'] = draw(X.styles())
    elif kind == 'branch':
        spec['variant'] = draw(st.sampled_from(['sqrtsq', 'abs']))
    elif kind == 'identical':
        spec['tol'] = draw(st.sampled_from([0, '0%', 0, '0%', 1e-9, '1%']))
    return spec


def rewrite(t, how):
    for h in how:
        if h == 'commute' and t[0] in ('add', 'mul'):
            t = [t[0], t[2], t[1]]
        elif h == 'commute':
            t = ['add', ['num', '0', 0.0], t]
        elif h == 'plus0':
            t = ['add', t, ['num', '0', 0.0]]
        elif h == 'times1':
            t = ['mul', ['num', '1', 1.0], t]
        elif h == 'parens':
            t = ['neg', ['neg', t]]
        elif h == 'dneg':
            t = ['sub', ['num', '0', 0.0], ['neg', t]]
        elif h == 'div1':
            t = ['div', t, ['num', '1.0', 1.0]]
        elif h == 'pow1':
            t = ['pow', t, ['num', '1', 1.0]]
        elif h == 'distribute':
            if t[0] == 'mul' and t[2][0] in ('add', 'sub'):
                a, (op, b, c) = t[1], t[2]
                t = [op, ['mul', a, b], ['mul', a, c]]
            else:
                t = ['sub', ['mul', ['num', '2', 2.0], t], t]
    return t


def envs(spec):
    out = []
    for x, y in zip(spec['xs'], spec['ys']):
        out.append({'x': complex(*x) if x[1] else float(x[0]), 'y': float(y[0]), 'i': 1j})
    return out


def poly_student(tree, d, xs_zero):
    term = lit(d)
    for x in xs_zero:
        term = ['mul', term, ['sub', ['var', 'x'], lit_c(x)]]
    return ['add', tree, term]


def norm(v):
    if isinstance(v, list):
        return math.sqrt(sum(norm(e) ** 2 for e in v))
    return abs(v)


def diffv(a, b):
    if isinstance(a, list):
        return [diffv(p, q) for p, q in zip(a, b)]
    return a - b


def tol_of(tol, expected_norm):
    if isinstance(tol, str):
        return float(tol[:-1]) / 100 * expected_norm
    return tol


def count_failures(pairs, tol, rec):
    """pairs: list of (expected, student) reference values.  Returns F, flags ; raises Discard near the boundary."""
    F = 0
    near = asym = False
    for e, s in pairs:
        ne = norm(e)
        if ne > 1e8 or norm(s) > 1e8:
            raise Discard('magnitude')
        d = norm(diffv(e, s))
        t = tol_of(tol, ne)
        if abs(d - t) <= 1e-7 * max(1.0, t, d):
            raise Discard('guard-band')
        if d > t:
            F += 1
        if t > 0 and 0.5 <= d / t <= 2:
            near = True
        if isinstance(tol, str) and t > 0:
            ns_ = norm(s)
            p = float(tol[:-1]) / 100
            # would the verdict differ if the tolerance were relative to the student's value?
            if (d > t) != (d > p * ns_):
                asym = True
    return F, near, asym


def build_grader(cls, answer, spec, samplers=None, **extra):
    cfg = dict(answers={'expect': answer, 'grade_decimal': spec['credit']}, tolerance=spec['tol'])
    if spec['seed'] % 2 == 0 and isinstance(answer, str) and spec['credit'] > 0:
        # the same answer with company: listed BEFORE it, a reduced-credit alternative that is numerically the same
        # expression (off by 2e-13, far inside every guard band).  Whatever matches the answer matches that one too - and
        # still earns the answer's full credit (a seeded change stopped at the first alternative whose own credit was
        # reached).  Scripted samplers hand every alternative the same samples.  (No far-away alternative: under a
        # generous tolerance some student would match it and the single-answer rule would no longer be the oracle.)
        cfg['answers'] = ({'expect': '(%s)*(1+2e-13)' % answer, 'grade_decimal': 0.25 * spec['credit'], 'msg': 'near'},
                          {'expect': answer, 'grade_decimal': spec['credit']})
    if extra.pop('other_shapes', False):
        # alternatives of OTHER shapes listed before and after the answer, in a grader that grades shape mismatches as wrong
        # instead of raising: comparing with them fails part-way, which concerns that alternative only (a seeded change moved
        # the error handling around the whole loop over the alternatives, so that one mismatch voided the submission)
        alts = cfg['answers'] if isinstance(cfg['answers'], tuple) else (cfg['answers'],)
        odd = {'expect': '[7, 8, 9, 10, 11]', 'grade_decimal': 0.1 * spec['credit'], 'msg': 'other shape'}
        cfg['answers'] = (odd,) + alts + (dict(odd, expect='[[1, 2, 3], [4, 5, 6], [7, 8, 9]]'),)
        cfg['answer_shape_mismatch'] = {'is_raised': False, 'msg_detail': 'type'}
    if cls is not NumericalGrader:
        cfg.update(samples=spec['samples'], failable_evals=spec['failable'], user_functions=LIBF)
        if samplers:
            cfg.update(variables=['x', 'y'], sample_from=samplers)
    else:
        cfg.update(user_functions=LIBF)
    cfg.update(extra)
    g = forms.make(cls, cfg)
    rivals.after_build(g)          # vlib/rivals.py: another grader of the same class (50% tolerance, ...) used first
    return g


def grade(g, student, spec):
    set_seed(spec['seed'])
    kind, r = call(g, None, student)
    return kind, r


def expect_verdict(spec, F):
    ok = (F == 0) if spec['samples'] == 1 else (F <= spec['failable'])
    return spec['credit'] if ok else 0


def check_grade(spec, r_kind, r, want, what, rec, key):
    if r_kind == 'err':
        if isinstance(r, MITxError) and want == 0:
            # refused with a library error instead of graded wrong: no credit is earned, which is all C04 asks of
            # a formula that misses (e.g. 1e300 overflows inside the norm); error hygiene is C02's business
            rec.note('rejected-by-error')
            return
        if isinstance(r, MITxError):
            raise Violation(key + '/raised', '%s: grader raised %s: %s' % (what, type(r).__name__, str(r)[:200]))
        raise r
    got = r['grade_decimal']
    if abs(got - want) > 1e-12:
        raise Violation(key, '%s: grade %r (ok=%r) but the tolerance rule gives %r' % (what, got, r['ok'], want))


def judge_tightpct(spec, rec):
    ns = spec['samples']
    xs, ys = spec['xs'][:ns], spec['ys'][:ns]
    samplers = {'x': ScriptedSampler(values=[float(v) for v in xs]), 'y': ScriptedSampler(values=[float(v) for v in ys])}
    p = float(spec['tol'][:-1]) / 100
    eps = spec['eps']
    if abs(abs(eps) - p) < 0.05 * p:
        raise Discard('guard-band')
    a_str = spec['answer']
    s_str = '(%s)*(1+%r)' % (a_str, eps) if eps > 0 else '(%s)*(1-%r)' % (a_str, -eps)
    # every sample misses by the relative amount |eps| (answers are positive sums/products of values in [0.5, 3]:
    # rounding is ~1e-16 relative, five orders below the smallest tolerance used here)
    F = ns if abs(eps) > p else 0
    want = expect_verdict(spec, F)
    g = build_grader(FormulaGrader, a_str, spec, samplers)
    k, r = grade(g, s_str, spec)
    rec.calls()
    check_grade(spec, k, r, want, 'answer %r student %r percentage tolerance %r (relative miss %g)' % (
        a_str, s_str, spec['tol'], abs(eps)), rec,
        'tight-percentage/%s' % ('accepted-beyond-tolerance' if want == 0 else 'rejected-within-tolerance'))
    rec.cls('tight-percentage')
    rec.nontrivial()
    return {'answer': a_str, 'student': s_str, 'tol': spec['tol'], 'grade': gd(k, r)}


RF_REWRITES = {
    'f(0)+2*f(1)': {'commute': '2*f(1)+f(0)', 'wrong': 'f(0)+2*f(1)+5'},
    'f(2)': {'commute': '0+f(2)', 'wrong': 'f(2)+9'},
    'f(0.5)*f(1.5)': {'commute': 'f(1.5)*f(0.5)', 'wrong': 'f(0.5)*f(1.5)+4'},
    'f(1)-f(0)': {'commute': '-f(0)+f(1)', 'wrong': 'f(1)-f(0)+7'},
    'h(1,2)+f(0)': {'commute': 'f(0)+h(1,2)', 'wrong': 'h(1,2)+f(0)-6'},
}


def judge_randfunc(spec, rec):
    from mitxgraders import RandomFunction
    a_str = spec['answer']
    how = spec['rewrite']
    s_str = {'same': a_str, 'times1': '1*(%s)' % a_str, 'plus0': '(%s)+0' % a_str}.get(how) or RF_REWRITES[a_str][how]
    cfg = dict(answers={'expect': a_str, 'grade_decimal': spec['credit']}, tolerance=spec['tol'],
               samples=spec['samples'], failable_evals=spec['failable'],
               user_functions={'f': RandomFunction(), 'h': RandomFunction(input_dim=2)})
    g = forms.make(FormulaGrader, cfg)
    rivals.after_build(g)          # vlib/rivals.py: another FormulaGrader (50% tolerance, 2 samples, ...) used first
    k, r = grade(g, s_str, spec)
    rec.calls()
    # identical rewrites agree at every sample up to rounding (values are O(10), tolerances >= 1e-9); the wrong
    # variants miss by >= 4 at every sample while |f| <= 10 keeps every percentage tolerance below 1
    want = 0 if how == 'wrong' else spec['credit']
    check_grade(spec, k, r, want, 'random-function answer %r student %r tol %r samples %d failable %d' % (
        a_str, s_str, spec['tol'], spec['samples'], spec['failable']), rec,
        'random-function/%s' % ('accepted-beyond-tolerance' if want == 0 else 'rewrite-rejected'))
    rec.cls('random-function')
    rec.nontrivial()
    return {'answer': a_str, 'student': s_str, 'grade': gd(k, r)}


def judge(spec, rec):
    kind = spec['kind']
    if kind == 'randfunc':
        return judge_randfunc(spec, rec)
    if kind == 'tightpct':
        return judge_tightpct(spec, rec)
    if kind == 'dyadic':
        return judge_dyadic(spec, rec)
    if kind == 'infinity':
        return judge_infinity(spec, rec)
    if kind == 'numerical':
        return judge_numerical(spec, rec)
    if kind == 'magnitude':
        return judge_magnitude(spec, rec)
    E = envs(spec)
    samplers = {'x': ScriptedSampler(values=[complex(*x) if x[1] else float(x[0]) for x in spec['xs']]),
                'y': ScriptedSampler(values=[float(y[0]) for y in spec['ys']])}
    if any(x[1] for x in spec['xs']):
        rec.cls('complex-samples')
    if kind == 'array':
        return judge_array(spec, rec, E, samplers)
    A = spec['tree']
    if kind == 'poly':
        S = poly_student(A, spec['d'], spec['xs'][:spec['kzero']])
    elif kind in ('scale', 'pct'):
        S = ['mul', A, lit(1 + spec['eps'])]
    elif kind == 'rewrite':
        S = rewrite(A, spec['how'])
    elif kind == 'branch':
        S = ['call', 'sqrt', [['pow', A, ['num', '2', 2.0]]]] if spec['variant'] == 'sqrtsq' else ['call', 'abs', [A]]
    else:
        S = A
    funcs = dict(X.REF_FUNCS)
    pairs = []
    for env in E:
        e, _ = X.ref_with_conditioning(A, env, funcs)
        s, _ = X.ref_with_conditioning(S, env, funcs)
        pairs.append((e, s))
    a_str = X.render(A)
    if kind == 'identical':
        s_str = X.render(A, None, spec['ws'] or {'spaces': 3, 'between': 0, 'tape': [1, 5, 2, 7, 0, 3]})
        if s_str.replace(' ', '') != a_str and not spec['ws']:
            raise AssertionError('identical rendering differs')
        # same token string up to whitespace: both sides evaluate bit-identically, diff == 0 exactly
        g = build_grader(FormulaGrader, a_str, spec, samplers)
        k, r = grade(g, s_str, spec)
        rec.calls()
        check_grade(spec, k, r, spec['credit'], 'student %r identical to answer %r, tol %r' % (s_str, a_str, spec['tol']),
                    rec, 'exact/identical-rejected')
        rec.cls('exact/identical')
        rec.nontrivial()
        return {'answer': a_str, 'student': s_str, 'tol': spec['tol'], 'grade': gd(k, r)}
    if kind == 'rewrite':
        s_str = X.render(S, spec['style'], spec['ws'])
        # algebraically identical: differences are rounding only; judge with a tolerance that dwarfs rounding
        tolr = spec['tol']
        F, near, asym = 0, False, False
        for e, s in pairs:
            if abs(e - s) > 1e-9 * max(1.0, abs(e)):
                raise AssertionError('rewrite changed the value: %r vs %r' % (e, s))
        if tolr in (0, '0%', 1e-9) or (isinstance(tolr, str) and any(
                tol_of(tolr, abs(e)) < 1e-7 * max(1.0, abs(e)) for e, s in pairs)):
            raise Discard('rewrite-under-rounding-level-tolerance')
        g = build_grader(FormulaGrader, a_str, spec, samplers)
        k, r = grade(g, s_str, spec)
        rec.calls()
        check_grade(spec, k, r, spec['credit'], 'rewrite %r of answer %r, tol %r' % (s_str, a_str, tolr), rec,
                    'rewrite-rejected')
        rec.cls('rewrite')
        rec.nontrivial()
        return {'answer': a_str, 'student': s_str, 'grade': gd(k, r)}
    s_str = X.render(S, None, spec['ws'])
    F, near, asym = count_failures(pairs, spec['tol'], rec)
    want = expect_verdict(spec, F)
    g = build_grader(FormulaGrader, a_str, spec, samplers)
    k, r = grade(g, s_str, spec)
    rec.calls()
    # the oracle's assumption about which values were sampled is checked, not trusted
    drawn = samplers['x'].drawn[:spec['samples']]
    if k == 'ok' and [complex(v) for v in drawn] != [complex(e['x']) for e in E]:
        raise Discard('sampling-order-assumption-failed')
    what = 'answer %r student %r tol %r samples %d failable %d: %d failing samples' % (
        a_str, s_str, spec['tol'], spec['samples'], spec['failable'], F)
    check_grade(spec, k, r, want, what, rec, 'verdict/%s' % ('accepted-beyond-tolerance' if want == 0 else 'rejected-within-tolerance'))
    if 0 < F < spec['samples']:
        rec.cls('mid-failures')
    if near:
        rec.cls('near-boundary')
    if asym:
        rec.cls('pct-asymmetric')
    if spec['credit'] < 1:
        rec.cls('partial-answer-credit')
    rec.cls('kind/' + kind)
    rec.nontrivial(0 < F < spec['samples'] or near or asym)
    return {'answer': a_str, 'student': s_str, 'tol': spec['tol'], 'F': F, 'samples': spec['samples'],
            'failable': spec['failable'], 'grade': gd(k, r)}


def judge_array(spec, rec, E, samplers):
    trees = spec['trees']
    studs = [poly_student(t, d, spec['xs'][:spec['kzero']]) if d else t for t, d in zip(trees, spec['ds'])]

    def shape(items):
        if spec['shape'] == 'vec':
            return items
        return [items[0:2], items[2:4]]

    def render_arr(ts):
        parts = [X.render(t) for t in ts]
        if spec['shape'] == 'vec':
            return '[' + ','.join(parts) + ']'
        return '[[%s,%s],[%s,%s]]' % tuple(parts)
    pairs = []
    for env in E:
        ev = [X.ref_with_conditioning(t, env)[0] for t in trees]
        sv = [X.ref_with_conditioning(t, env)[0] for t in studs]
        pairs.append((ev, sv))
    F, near, asym = count_failures(pairs, spec['tol'], rec)
    want = expect_verdict(spec, F)
    a_str, s_str = render_arr(trees), render_arr(studs)
    others = spec['seed'] % 3 == 0
    g = build_grader(MatrixGrader, a_str, spec, samplers, max_array_dim=2, other_shapes=others)
    if others:
        rec.cls('array/alternatives-of-other-shapes-around-the-answer')
    k, r = grade(g, s_str, spec)
    rec.calls()
    what = 'array answer %r student %r tol %r samples %d failable %d: %d failing samples' % (
        a_str, s_str, spec['tol'], spec['samples'], spec['failable'], F)
    check_grade(spec, k, r, want, what, rec, 'array/%s' % ('accepted-beyond-tolerance' if want == 0 else 'rejected-within-tolerance'))
    rec.cls('array')
    if spec.get('frob'):
        rec.cls('array/frobenius-vs-max')
    if near:
        rec.cls('near-boundary')
    if asym:
        rec.cls('pct-asymmetric')
    if 0 < F < spec['samples']:
        rec.cls('mid-failures')
    rec.nontrivial()
    return {'answer': a_str, 'student': s_str, 'tol': spec['tol'], 'F': F, 'grade': gd(k, r)}


def judge_dyadic(spec, rec):
    a, t = spec['a'], spec['t']
    delta = t + (2.0 ** -20 if spec['off'] else 0.0)
    s = a + spec['sign'] * delta
    if abs(abs(a - s) - delta) != 0:
        raise AssertionError('dyadic arithmetic is not exact')
    cls = {'formula': FormulaGrader, 'numerical': NumericalGrader, 'matrix': MatrixGrader}[spec['grader']]
    sp = dict(spec, tol=t, samples=spec['samples'], failable=spec['failable'])

    def num(v):
        return ('-' if v < 0 else '') + repr(abs(v))
    if spec['grader'] == 'matrix':
        a_str, s_str = '[%s, 1]' % num(a), '[%s, 1]' % num(s)
    else:
        a_str, s_str = num(a), num(s)
    g = build_grader(cls, a_str, sp)
    k, r = grade(g, s_str, sp)
    rec.calls()
    ns = 1 if cls is NumericalGrader else spec['samples']
    want = expect_verdict(dict(sp, samples=ns, failable=0 if cls is NumericalGrader else spec['failable']),
                          ns if spec['off'] else 0)      # a constant student fails at every sample or at none
    check_grade(sp, k, r, want, 'answer %s student %s absolute tolerance %r (|diff| %s tol)' % (
        a_str, s_str, t, '> ' if spec['off'] else '=='), rec,
        'exact/' + ('beyond-boundary-accepted' if spec['off'] else 'on-boundary-rejected'))
    rec.cls('exact/dyadic-off' if spec['off'] else 'exact/dyadic-on')
    rec.nontrivial()
    return {'answer': a_str, 'student': s_str, 'tol': t, 'grade': gd(k, r)}


def judge_magnitude(spec, rec):
    e = float('%re%d' % (spec['c'], spec['k']))
    s_ = e * (1 + spec['eps'])
    if not (0 < abs(e) < 1e308 and abs(s_) < 1e308):
        raise Discard('magnitude/not-finite')
    tol = spec['tol']
    if tol == 'abs-small':
        tol = abs(e) * 1e-3          # an absolute tolerance of the answer's own order of magnitude (a plain number)
    elif tol == 'abs-large':
        tol = abs(e) * 0.5
    if spec['grader'] == 'matrix':
        ev, sv = [e, 2 * e], [s_, 2 * e]
        a_str, s_str = '[%r, %r]' % (e, 2 * e), '[%r, %r]' % (s_, 2 * e)
    elif spec['grader'] == 'formula-complex':
        ev, sv = complex(e, e), complex(s_, e)
        a_str, s_str = '%r+%r*i' % (e, e), '%r+%r*i' % (s_, e)
        a_str, s_str = a_str.replace('+-', '-'), s_str.replace('+-', '-')
    else:
        ev, sv = e, s_
        a_str, s_str = repr(e), repr(s_)
    # reference: the rule itself, with norms computed without squaring (scaled by the largest entry)
    def snorm(v):
        vs = v if isinstance(v, list) else [v]
        m = max(abs(x) for x in vs)
        return m * math.sqrt(sum(abs(x / m) ** 2 for x in vs)) if m else 0.0
    d = snorm([a - b for a, b in zip(ev, sv)] if isinstance(ev, list) else ev - sv)
    t = tol_of(tol, snorm(ev))
    if d != 0 and abs(d - t) <= 1e-6 * max(t, d):
        raise Discard('guard-band')
    miss = d > t
    cls = {'formula': FormulaGrader, 'formula-complex': FormulaGrader, 'numerical': NumericalGrader,
           'matrix': MatrixGrader}[spec['grader']]
    sp = dict(spec, tol=tol)
    g = build_grader(cls, a_str, sp)
    k, r = grade(g, s_str, sp)
    rec.calls()
    want = 0 if miss else spec['credit']
    check_grade(sp, k, r, want, '%s answer %s student %s tolerance %r (|difference| %r, allowed %r)' % (
        cls.__name__, a_str, s_str, tol, d, t), rec,
        'magnitude/%s' % ('accepted-beyond-tolerance' if miss else 'rejected-within-tolerance'))
    rec.cls('magnitude/judged')
    if abs(e) > 1.4e154 or abs(e) < 1.4e-162:
        rec.cls('magnitude/square-leaves-float-range')
    if abs(spec['k']) >= 150:
        rec.nontrivial()
    return {'answer': a_str, 'student': s_str, 'tol': tol, 'grade': gd(k, r)}


INF = float('inf')
INFVAL = {'infty': INF, '-infty': -INF, '5': 5.0, 'infty+1': INF, '2*infty': INF, '-infty/2': -INF, '1e8': 1e8,
          '-1e8': -1e8, 'infty*2': INF, '3-infty': -INF, '0': 0.0, 'infty^2': INF, '-(infty)': -INF}


def judge_infinity(spec, rec):
    ev, sv = INFVAL[spec['expect']], INFVAL[spec['student']]
    cls = FormulaGrader if spec['grader'] == 'formula' else NumericalGrader
    sp = dict(spec)
    extra = {'allow_inf': True}
    g = build_grader(cls, spec['expect'], sp, **extra)
    k, r = grade(g, spec['student'], sp)
    rec.calls()
    if abs(ev) == INF or abs(sv) == INF:
        match = ev == sv
    else:
        d = abs(ev - sv)
        t = tol_of(spec['tol'], abs(ev))
        if abs(d - t) <= 1e-7 * max(1.0, t, d):
            raise Discard('guard-band')
        match = d <= t
    ns = 1 if cls is NumericalGrader else spec['samples']
    want = expect_verdict(dict(sp, samples=ns, failable=0 if cls is NumericalGrader else spec['failable']),
                          0 if match else ns)      # constants: every sample fails or none does
    check_grade(sp, k, r, want, 'allow_inf: answer %r student %r tol %r' % (spec['expect'], spec['student'], spec['tol']),
                rec, 'infinity/' + ('mismatch-accepted' if want == 0 else 'match-rejected'))
    rec.cls('infinity')
    rec.nontrivial(abs(ev) == INF or abs(sv) == INF)
    return {'answer': spec['expect'], 'student': spec['student'], 'grade': gd(k, r)}


def judge_numerical(spec, rec):
    A = spec['tree']
    env = {'pi': math.pi, 'e': math.e, 'i': 1j, 'j': 1j}
    e, _ = X.ref_with_conditioning(A, env)
    S = ['add', A, lit(spec['d'])] if spec['d'] else A
    s, _ = X.ref_with_conditioning(S, env)
    F, near, asym = count_failures([(e, s)], spec['tol'], rec)
    sp = dict(spec)
    a_str = X.render(A)
    s_str = X.render(S, None, spec['ws'])
    if spec['d'] == 0 and spec['tol'] in (0, '0%') and s_str.replace(' ', '').replace('\t', '').replace(
            '\n', '').replace('\r', '') != a_str:
        raise Discard('not-identical')
    # two more graders for the same answer, one that tolerates anything and one that tolerates nothing, grade the very
    # same submission first: a verdict belongs to the grader's own tolerance (a seeded change remembered verdicts per
    # class, keyed by answer and submission only)
    for other in (1e9, 0):
        grade(build_grader(NumericalGrader, a_str, dict(sp, tol=other)), s_str, sp)
        rec.calls()
    g = build_grader(NumericalGrader, a_str, sp)
    k, r = grade(g, s_str, sp)
    rec.calls()
    want = spec['credit'] if F == 0 else 0
    check_grade(sp, k, r, want, 'NumericalGrader answer %r student %r tol %r' % (a_str, s_str, spec['tol']), rec,
                'numerical/%s' % ('accepted-beyond-tolerance' if want == 0 else 'rejected-within-tolerance'))
    rec.cls('numerical')
    if near:
        rec.cls('near-boundary')
    rec.nontrivial(near or asym or F > 0)
    return {'answer': a_str, 'student': s_str, 'tol': spec['tol'], 'grade': gd(k, r)}


PARTS = [
    Part('tolerance', 'hyp', judge, strategy=lambda tier: specs(), budget={'quick': 6000, 'thorough': 120000}),
]


def gd(k, r):
    return r['grade_decimal'] if k == 'ok' else 'raised ' + type(r).__name__
