"""Author-side extension objects used as observation points (all through public extension APIs).

ScriptedSampler : a VariableSamplingSet handing out values chosen by the case (and recording each draw).
TableGrader     : an ItemGrader whose check_response looks the credit up in a generated table.
make_recorder   : a comparer that records every sample a grader call sees.
"""
import numpy as np
from voluptuous import Schema, Required, Any

from mitxgraders.baseclasses import ItemGrader
from mitxgraders.sampling import VariableSamplingSet
from mitxgraders.helpers.calc import MathArray


class ScriptedSampler(VariableSamplingSet):
    """sample_from={'x': ScriptedSampler(values=[...])}: the k-th draw returns values[k % len]."""
    schema_config = Schema({Required('values'): list})

    def __init__(self, config=None, **kwargs):
        super(ScriptedSampler, self).__init__(config, **kwargs)
        self.i = 0
        self.drawn = []

    def gen_sample(self):
        vals = self.config['values']
        v = vals[self.i % len(vals)]
        self.i += 1
        self.drawn.append(v)
        return v

    def reset(self):
        self.i = 0
        self.drawn = []


def to_value(j):
    """JSON -> sample value: number | [re, im] pair tagged {'c': [re, im]} | {'v': [...]} vector | {'m': [[..]]}"""
    if isinstance(j, dict):
        if 'c' in j:
            return complex(j['c'][0], j['c'][1])
        if 'v' in j:
            return MathArray([to_value(x) for x in j['v']])
        if 'm' in j:
            return MathArray([[to_value(x) for x in row] for row in j['m']])
    return j


def to_plain(j):
    """JSON -> plain python/numpy value for the oracle side (never MathArray)."""
    if isinstance(j, dict):
        if 'c' in j:
            return complex(j['c'][0], j['c'][1])
        if 'v' in j:
            return np.array([to_plain(x) for x in j['v']])
        if 'm' in j:
            return np.array([[to_plain(x) for x in row] for row in j['m']])
    return j


class TableGrader(ItemGrader):
    """check_response(answer, student_input) = table[(expect, input.strip())] * answer['grade_decimal'].

    config: table = {expect: {input: [credit, msg]}} ; unknown pairs earn 0 with empty message.
    """

    @property
    def schema_config(self):
        schema = super(TableGrader, self).schema_config
        return schema.extend({Required('table', default={}): dict, Required('tag', default=''): str})

    def check_response(self, answer, student_input, **kwargs):
        row = self.config['table'].get(answer['expect'], {})
        credit, msg = row.get(student_input.strip(), [0, ''])
        grade = credit * answer['grade_decimal']
        ok = ItemGrader.grade_decimal_to_ok(grade)
        m = msg
        if answer['msg'] and grade > 0:
            m = (msg + ' ' + answer['msg']).strip()
        return {'ok': ok, 'grade_decimal': grade, 'msg': m}

    def __call__(self, expect, student_input, **kwargs):
        return super(TableGrader, self).__call__(expect, student_input, **kwargs)


def make_recorder(sink):
    """comparer(comparer_params_eval, student_eval, utils) that appends what it sees to sink and accepts."""
    def recorder(comparer_params_eval, student_eval, utils):
        sink.append((list(comparer_params_eval), student_eval))
        return True
    return recorder
