"""C08 - among alternative answers the student always receives the best-scoring one, in every listing order."""
import itertools

from hypothesis import strategies as st

from vlib.core import call_twice, Part, Violation, Discard, call
from vlib import forms
from vlib.models import TableGrader

from mitxgraders import (StringGrader, FormulaGrader, NumericalGrader, MatrixGrader, SingleListGrader, ListGrader)
from mitxgraders.comparers import LinearComparer, MatrixEntryComparer
from mitxgraders.exceptions import MITxError, InvalidInput
from mitxgraders.sampling import set_seed

RULE = ("A case is an item grader (String, Formula, Numerical, Matrix, SingleList or the table-driven TableGrader) "
        "with 1-6 alternatives - each a single expect value or a tuple of expect values, credit from {0, 0.1, 1/3, 0.5, "
        "0.7, 1}, message from a pool with varied and equal lengths, bare or dictionary form - a wrong_msg (unique "
        "sentinel, or empty) and 1-3 student inputs that are textual variants of the alternatives' own answer families, "
        "of other families, sign-flipped / scaled variants, far-off values or inputs that raise. Oracle (differential): "
        "every expect entry of every alternative is graded alone by a single-alternative grader of the same class and "
        "options without wrong_msg (g_k); then the full grader is built in every listing order (all n! orders for n<=4, "
        "24 generated orders for n=5,6; entries of expect tuples rotated with the order) and must, in each order, "
        "return grade == max g_k (1e-12), an ok value and a message of one of the max-grade entries (entries whose "
        "computed credit equals the maximum; a case where another entry lies within 1e-9 of the maximum without being "
        "equal is discarded if counting it as tied would change the verdict) whose message is "
        "longest (any of them if equally long; length measured with or without the '<br/>' line-break markup), except "
        "that the message is exactly wrong_msg iff max g_k == 0 and every max-grade message is empty; if some g_k "
        "raises, every order must raise an MITxError; if none raises, no order may raise. Exhaustive parts: every "
        "TableGrader with n<=3 (thorough: 4) alternatives over result credit {0,0.5,1} x message {'', 'x', 'y', 'zz'}, "
        "and every StringGrader with n<=2 (thorough: 3) alternatives over matches/does-not-match x credit {0,0.5,1} x "
        "message {'', 'x', 'zz'} plus n=3 (thorough: 4) with every alternative matching, each with and without "
        "wrong_msg in all orders. Containers: the same generated alternatives in "
        "the slots of an ordered ListGrader (each slot of the returned input_list is judged by the slot's own oracle) "
        "and of a SingleListGrader (ordered: grade == mean of the slot maxima and message == the slots' allowed "
        "messages joined; unordered: grade == best assignment over the matrix of per-(slot, item) maxima, message not "
        "judged). Sampling graders (Formula, Matrix): inputs are exact rewrites of an answer family or differ from "
        "every family by far more than the tolerance on the whole sampling box, and set_seed(spec seed) precedes "
        "every library call. Non-trivial = at least two entries earn different positive credits, or a tie at the "
        "maximum with messages of different lengths, or best grade 0 while a zero-grade entry has a message; distinct "
        "by spec hash."
        " Matrix alternatives may use MatrixEntryComparer objects shared between the full graders and, first, graders of tolerance 1e6 and 0 (reference graders get fresh objects); Formula families with numbered-variable instances; blank submissions.")
ASSUMPTIONS = ["the reference g_k is the library's own grading of one alternative in isolation (the property is about "
               "combining alternatives, not about grading one)",
               "messages never contain the wrong_msg sentinel; 'longest' is accepted by raw length and by length "
               "after '\\n' -> '<br/>\\n' formatting (the statement does not say which)",
               "answer families of sampling graders have pairwise disjoint value ranges on the sampling box x,y in "
               "[1,3] (gaps >= 2% against a 0.01% tolerance); graders with a LinearComparer alternative use 5 samples",
               "alternatives carry no author-set 'ok' key (it is derived from the credit)",
               "in SingleListGrader containers the student supplies exactly one non-empty item per slot; the mean / "
               "best-assignment rule that combines slot grades is C07's subject and is used here as given"]
REQUIRED = {'kind/S': 1500, 'kind/T': 2000, 'kind/N': 150, 'kind/F': 300, 'kind/M': 150, 'kind/SL': 300,
            'match/none': 1200, 'match/one': 1200, 'match/several': 2500, 'several/different-credits': 1500,
            'tie/different-lengths': 1000, 'tie/equal-lengths': 1200, 'zero/with-message': 400,
            'wrong_msg/applies/set': 600, 'wrong_msg/applies/empty': 200, 'alt-raises': 200, 'expect-tuple': 1000,
            'orders/24-sampled': 200, 'orders/all-24': 200, 'credit/not-the-answer-credit': 1500,
            'bare-alternative': 600, 'in-list/slots': 1500, 'in-list/several/different-credits': 200,
            'in-list/tie/different-lengths': 150, 'in-list/zero/with-message': 150, 'in-list/alt-raises': 100,
            'in-singlelist/ordered': 200, 'in-singlelist/unordered': 200,
            'in-singlelist/several/different-credits': 200, 'in-singlelist/tie/different-lengths': 100,
            'in-singlelist/alt-raises': 100}

SENTINEL = 'Wrong-Msg#7'
PAL = [0, 0.1, 1 / 3, 0.5, 0.7, 1]
CREDITS = [0, 0.1, 1 / 3, 0.5, 0.7, 1, 1, 1.0, 0.0, 0.5]
MSGS = ['', '', '', 'A', 'B', 'ok', 'no', 'good', 'nice', 'well done', 'try again', 'two\nlines', 'ten chars!',
        'a much longer piece of feedback', 'set {a, b}', '{0}', 'x } {', '50% %s']


# ----------------------------------------------------------------------------------------------------
# author-side extension objects (public extension points: comparer functions, ItemGrader subclasses)


def sign_comparer(comparer_params_eval, student_eval, utils):
    """Full credit for the expected value, half credit with a message for its negative."""
    expected = comparer_params_eval[0]
    if utils.within_tolerance(expected, student_eval):
        return True
    if utils.within_tolerance(expected, -student_eval):
        return {'grade_decimal': 0.5, 'msg': 'sign error'}
    return False


COMPARERS = {
    'sign': lambda: sign_comparer,
    'linear': lambda: LinearComparer(),
    'linear-offset': lambda: LinearComparer(proportional=0.5, offset=0.3, offset_msg='off by a constant'),
    'entry-prop': lambda: MatrixEntryComparer(entry_partial_credit='proportional'),
    'entry-half': lambda: MatrixEntryComparer(entry_partial_credit=0.5, entry_partial_msg='some entries'),
}
# An author may put ONE comparer object into several alternatives and several graders.  While _SHARE is a dict the
# entry comparers of a case are such shared objects (used by the full graders in every order and, first, by a grader
# with a very different tolerance); the single-alternative reference graders always get fresh objects.
_SHARE = None


class RaisingTable(TableGrader):
    """TableGrader whose table may say None for the credit: that pair cannot be graded (student-facing error)."""

    def check_response(self, answer, student_input, **kwargs):
        row = self.config['table'].get(answer['expect'], {})
        if row.get(student_input.strip(), [0, ''])[0] is None:
            raise InvalidInput('This response cannot be graded against ' + answer['expect'])
        return super(RaisingTable, self).check_response(answer, student_input, **kwargs)


CLASSES = {'S': StringGrader, 'F': FormulaGrader, 'N': NumericalGrader, 'M': MatrixGrader, 'SL': SingleListGrader,
           'T': RaisingTable}


# ----------------------------------------------------------------------------------------------------
# JSON spec -> library objects


def decode(o):
    """{'$tuple': [...]} -> tuple, {'$cmp': name, 'params': [...]} -> comparer expect; fresh objects every time."""
    if isinstance(o, list):
        return [decode(x) for x in o]
    if isinstance(o, dict):
        if '$tuple' in o:
            return tuple(decode(x) for x in o['$tuple'])
        if '$cmp' in o:
            if _SHARE is not None and o['$cmp'].startswith(('entry', 'linear')):
                cmp_obj = _SHARE.setdefault(o['$cmp'], None) or COMPARERS[o['$cmp']]()
                _SHARE[o['$cmp']] = cmp_obj
                return {'comparer': cmp_obj, 'comparer_params': list(o['params'])}
            return {'comparer': COMPARERS[o['$cmp']](), 'comparer_params': list(o['params'])}
        return {k: decode(v) for k, v in o.items()}
    return o


def make(kind, opts, answers=None, wrong=''):
    kw = {k: decode(v) for k, v in opts.items() if k != 'sub'}
    if kind == 'SL':
        sub = opts['sub']
        kw['subgrader'] = make(sub['kind'], sub['opts'], wrong=sub.get('wrong', ''))
    if answers is not None:
        kw['answers'] = answers
    if wrong:
        kw['wrong_msg'] = wrong
    return forms.make(CLASSES[kind], kw, [kind, opts, answers, wrong])     # keyword or one-dictionary spelling


def answer_of(alt, rot=0):
    """Library form of one alternative; the entries of an expect tuple are rotated by rot."""
    ents = [decode(e) for e in alt['e']]
    if len(ents) > 1:
        r = rot % len(ents)
        ents = ents[r:] + ents[:r]
    expect = tuple(ents) if (len(ents) > 1 or alt.get('tup')) else ents[0]
    if alt.get('bare'):
        return expect
    d = {'expect': expect, 'grade_decimal': alt['g']}
    if alt['m']:
        d['msg'] = alt['m']
    return d


def single_answer(alt, j):
    return {'expect': decode(alt['e'][j]), 'grade_decimal': alt['g'], 'msg': alt['m']}


def answers_of(alts, order, rot, untupled=False):
    t = tuple(answer_of(alts[i], rot) for i in order)
    if untupled and len(t) == 1 and not isinstance(t[0], tuple):
        return t[0]
    return t


def single_graders(kind, opts, alts):
    return [make(kind, opts, answers=single_answer(alt, j)) for alt in alts for j in range(len(alt['e']))]


def fmt(m):
    return m.replace('\n', '<br/>\n')


def raw(m):
    return m.replace('<br/>\n', '\n')


def ok_same(a, b):
    return a is b or (type(a) is type(b) and a == b)


def ok_rule(grade):
    return False if grade == 0 else True if grade == 1 else 'partial'


# ----------------------------------------------------------------------------------------------------
# the oracle


def grade_alone(graders, inp, seed, rec):
    out = []
    for g in graders:
        set_seed(seed)
        out.append(call(g, None, inp))
    rec.calls(len(graders))
    return out


def check_single_feedback(kind, alts, singles, inp, rec):
    """Base case of the differential, judged against the CONFIGURATION: an input that earns an alternative's whole
    credit g > 0 against that alternative alone is a full match of it, and the feedback reported is that
    alternative's own message.  (A seeded change recomputed ok per sample so that alternatives worth less than 1 were
    no longer recognised as matched: right grade, feedback lost - invisible to a purely differential oracle.)"""
    if kind == 'SL':
        # a string-form alternative ('cat, dog': blanks after a delimiter belong to the following entry) submitted
        # verbatim matches itself item for item, whatever the subgrader makes of blanks: full credit of that alternative
        k = 0
        for alt in alts:
            for e in alt['e']:
                status, r = singles[k]
                k += 1
                if isinstance(e, str) and inp == e and status == 'ok':
                    rec.cls('single/own-text-anchor-checked')
                    if abs(r['grade_decimal'] - alt['g']) > 1e-12:
                        raise Violation('single/own-text-not-matched', 'SingleListGrader: the string-form alternative %r '
                                        'submitted verbatim earns %r against that alternative alone, not its credit %r'
                                        % (e, r['grade_decimal'], alt['g']))
        return
    if kind not in ('S', 'F', 'N', 'M'):
        return
    flat = [alt for alt in alts for _ in range(len(alt['e']))]
    for alt, (status, r) in zip(flat, singles):
        if status != 'ok' or not alt['g'] > 0 or r['grade_decimal'] != alt['g']:
            continue
        rec.cls('single/full-match-feedback-checked')
        if r['msg'] not in (fmt(alt['m']), alt['m']):
            raise Violation('single/matched-alternative-feedback-lost',
                            '%s grader, input %r matches the alternative %r (credit %r) but the message is %r, not '
                            'the alternative\'s own message %r' % (kind, inp, alt['e'], alt['g'], r['msg'], alt['m']))


def check_zero_credit_feedback(kind, opts, alts, singles, inp, seed, rec):
    """A zero-credit alternative with specific feedback (a 'common wrong answer'): whether the input matches it
    cannot be read off the grade, so it is read off a twin of that alternative worth full credit - if the twin gives
    grade 1 the input is a full match, and the zero-credit alternative must deliver its own message."""
    if kind not in ('S', 'F', 'N', 'M', 'SL'):
        return
    k = 0
    for alt in alts:
        for j in range(len(alt['e'])):
            status, r = singles[k]
            k += 1
            if status != 'ok' or alt['g'] != 0 or not alt['m']:
                continue
            twin = make(kind, opts, answers=single_answer(dict(alt, g=1), j))
            set_seed(seed)
            st_, r1 = call(twin, None, inp)
            rec.calls()
            if st_ != 'ok' or r1['grade_decimal'] != 1:
                continue
            rec.cls('single/zero-credit-feedback-checked')
            # a SingleListGrader reports its items' messages followed by the list's own message
            delivered = (alt['m'] in r['msg'] or fmt(alt['m']) in r['msg']) if kind == 'SL' else \
                r['msg'] in (fmt(alt['m']), alt['m'])
            if not delivered:
                raise Violation('single/zero-credit-alternative-feedback-lost',
                                '%s grader, input %r fully matches the zero-credit alternative %r but the message is '
                                '%r, not its own message %r' % (kind, inp, alt['e'][j], r['msg'], alt['m']))


def derive(singles, wrong):
    """What the statement allows for the full grader, from the results against each alternative alone."""
    errs = [v for s, v in singles if s == 'err']
    if errs:
        for e in errs:
            if not isinstance(e, MITxError):
                raise e
        return {'raises': True, 'error': type(errs[0]).__name__}
    res = [v for _, v in singles]
    grades = [r['grade_decimal'] for r in res]
    mx = max(grades)

    def outcome(tied):
        msgs = [r['msg'] for r in tied]
        lr = max(len(raw(m)) for m in msgs)
        lf = max(len(m) for m in msgs)
        longest = sorted({m for m in msgs if len(raw(m)) == lr or len(m) == lf})
        use_wrong = mx == 0 and lf == 0
        return msgs, longest, use_wrong

    # a tie is a tie of the computed credits; credits that agree in exact arithmetic but differ by rounding noise
    # (1/6 as (1 + 1/3 - 1)/2 and as 0.5 * (1/3)) sit on the decision boundary: judged only if it makes no difference
    tied = [r for r in res if r['grade_decimal'] == mx]
    loose = [r for r in res if mx - r['grade_decimal'] < 1e-9]
    msgs, longest, use_wrong = outcome(tied)
    if len(loose) != len(tied) and outcome(loose)[1:] != (longest, use_wrong):
        raise Discard('credits of two alternatives differ by rounding noise only and their messages differ')
    allowed = [fmt(wrong)] if use_wrong else longest
    oks = [r['ok'] for r in tied if r['msg'] in longest]
    return {'raises': False, 'max': mx, 'allowed': allowed, 'oks': oks, 'use_wrong': use_wrong,
            'tied_msgs': msgs, 'all_msgs': [r['msg'] for r in res], 'grades': grades}


def classify(rec, want, alts, wrong, prefix=''):
    """Class counters and the non-trivial flag for one (alternatives, input) pair."""
    if want['raises']:
        rec.cls(prefix + 'alt-raises')
        return False
    grades, mx = want['grades'], want['max']
    pos = [g for g in grades if g > 0]
    rec.cls(prefix + ('match/none' if not pos else 'match/one' if len(pos) == 1 else 'match/several'))
    nt = False
    if len({round(g, 10) for g in pos}) >= 2:
        rec.cls(prefix + 'several/different-credits')
        nt = True
    if len(want['tied_msgs']) >= 2:
        if len({len(raw(m)) for m in want['tied_msgs']}) >= 2:
            rec.cls(prefix + 'tie/different-lengths')
            nt = True
        else:
            rec.cls(prefix + 'tie/equal-lengths')
        if len(want['allowed']) >= 2:
            rec.cls(prefix + 'tie/several-longest-messages')
    if mx == 0 and any(want['tied_msgs']):
        rec.cls(prefix + 'zero/with-message')
        nt = True
    if want['use_wrong']:
        rec.cls(prefix + ('wrong_msg/applies/set' if wrong else 'wrong_msg/applies/empty'))
    rec.cls(prefix + ('best/zero' if mx == 0 else 'best/full' if mx == 1 else 'best/partial'))
    credits = [a['g'] for a in alts for _ in a['e']]
    if any(g != 0 and abs(g - c) > 1e-12 for g, c in zip(grades, credits)):
        rec.cls(prefix + 'credit/not-the-answer-credit')
    return nt


def check_result(want, status, r, wrong, where, ctx):
    """Judge one (slot) result of the full grader against want; raises Violation."""
    if want['raises']:
        if status == 'ok':
            raise Violation(where + 'raise/alternative-error-lost',
                            'an alternative alone raises %s, the full grader returned %r' % (want['error'], r), **ctx)
        if not isinstance(r, MITxError):
            raise r
        return
    if status == 'err':
        if isinstance(r, MITxError):
            raise Violation(where + 'raise/unexpected', 'no alternative raises alone, the full grader raised %s: %s'
                            % (type(r).__name__, r), **ctx)
        raise r
    if not isinstance(r, dict) or set(r) != {'ok', 'grade_decimal', 'msg'}:
        raise Violation(where + 'shape', 'result %r' % (r,), **ctx)
    g, mx = r['grade_decimal'], want['max']
    if isinstance(g, bool) or not isinstance(g, (int, float)) or abs(g - mx) > 1e-12:
        raise Violation(where + ('grade/below-max' if g < mx else 'grade/above-max'),
                        'grade %r, best single-alternative grade %r (all: %r)' % (g, mx, want['grades']),
                        result=r, **ctx)
    m = r['msg']
    if m not in want['allowed']:
        if wrong and fmt(wrong) in m:
            key = 'wrong_msg/shown-with-credit' if mx > 0 else 'wrong_msg/shown-over-specific-message'
        elif want['use_wrong']:
            key = 'wrong_msg/missing'
        elif m in want['tied_msgs']:
            key = 'tie/not-longest-message'
        elif m in want['all_msgs']:
            key = 'msg/of-lower-scoring-alternative'
        else:
            key = 'msg/unknown'
        raise Violation(where + key, 'message %r, allowed %r (best grade %r)' % (m, want['allowed'], mx),
                        result=r, **ctx)
    if not any(ok_same(r['ok'], o) for o in want['oks']):
        raise Violation(where + 'ok/mismatch', 'ok %r, best alternatives have %r' % (r['ok'], want['oks']),
                        result=r, **ctx)


def all_orders(n):
    return [list(p) for p in itertools.permutations(range(n))]


def run_item(kind, opts, alts, wrong, inputs, orders, seed, rec, untupled=False):
    """The core: singles, then every order of the full grader, for every input."""
    sg = single_graders(kind, opts, alts)
    wants, nt = [], False
    for inp in inputs:
        singles = grade_alone(sg, inp, seed, rec)
        check_single_feedback(kind, alts, singles, inp, rec)
        check_zero_credit_feedback(kind, opts, alts, singles, inp, seed, rec)
        want = derive(singles, wrong)
        nt = classify(rec, want, alts, wrong) or nt
        wants.append(want)
    n = len(alts)
    if orders is None:
        orders = all_orders(n)
        if n == 4:
            rec.cls('orders/all-24')
    else:
        rec.cls('orders/24-sampled')
    global _SHARE
    shared = kind in ('M', 'F') and any(isinstance(e, dict) and str(e.get('$cmp', '')).startswith(('entry', 'linear'))
                                        for a in alts for e in a['e'])
    try:
        if shared:
            _SHARE = {}
            rec.cls('entry-comparer-object-shared' if kind == 'M' else 'linear-comparer-object-shared')
            for tol in ((1e6, 0) if kind == 'M' else ()):
                warm = make(kind, dict(opts, tolerance=tol), answers=answers_of(alts, orders[0], 0, untupled))
                for inp in inputs:
                    set_seed(seed)
                    call(warm, None, inp)
                    rec.calls()
        for oi, order in enumerate(orders):
            g = make(kind, opts, answers=answers_of(alts, order, oi, untupled), wrong=wrong)
            for inp, want in zip(inputs, wants):
                # (twice on the same grader object: the resubmission must get the same outcome, vlib.core.call_twice)
                status, r = call_twice(g, lambda: set_seed(seed), None, inp)
                rec.calls(2)
                check_result(want, status, r, wrong, '', {'order': order, 'input': inp})
    finally:
        _SHARE = None
    rec.cls('kind/' + kind)
    if any(len(a['e']) > 1 or a.get('tup') for a in alts):
        rec.cls('expect-tuple')
    if any(a.get('bare') for a in alts):
        rec.cls('bare-alternative')
    rec.cls('n=%d' % n)
    rec.nontrivial(nt)
    return {'orders': len(orders),
            'inputs': [{'input': i, 'raises': w['raises'], 'max': w.get('max'), 'allowed': w.get('allowed')}
                       for i, w in zip(inputs, wants)]}


# ----------------------------------------------------------------------------------------------------
# exhaustive parts

TABLE_CELLS = [(c, m) for c in (0, 0.5, 1) for m in ('', 'x', 'y', 'zz')]
STRING_CELLS = [(hit, c, m) for hit in (True, False) for c in (0, 0.5, 1) for m in ('', 'x', 'zz')]


def items_table(tier):
    # quick: n <= 3; thorough: n <= 4
    nmax = 4 if tier == 'thorough' else 3
    idx = range(len(TABLE_CELLS))
    for n in range(1, nmax + 1):
        for cells in itertools.product(idx, repeat=n):
            for w in (False, True):
                yield {'cells': list(cells), 'wrong': w}


def judge_table(spec, rec):
    cells = [TABLE_CELLS[i] for i in spec['cells']]
    table = {'e%d' % k: {'in': [c, m]} for k, (c, m) in enumerate(cells)}
    alts = [{'e': ['e%d' % k], 'g': 1, 'm': ''} for k in range(len(cells))]
    return run_item('T', {'table': table}, alts, SENTINEL if spec['wrong'] else '', ['in'], None, 0, rec)


def items_string(tier):
    # quick: n <= 2 over all cells, n = 3 with all three alternatives matching; thorough: n <= 3 over all cells,
    # n = 4 with all four matching
    hits = [i for i, c in enumerate(STRING_CELLS) if c[0]]
    full, nmax = (3, 4) if tier == 'thorough' else (2, 3)
    for n in range(1, nmax + 1):
        for cells in itertools.product(range(len(STRING_CELLS)) if n <= full else hits, repeat=n):
            for w in (False, True):
                yield {'cells': list(cells), 'wrong': w}


def judge_string(spec, rec):
    cells = [STRING_CELLS[i] for i in spec['cells']]
    alts = [{'e': ['cat' if hit else 'dog%d' % k], 'g': c, 'm': m} for k, (hit, c, m) in enumerate(cells)]
    return run_item('S', {}, alts, SENTINEL if spec['wrong'] else '', ['cat'], None, 0, rec)



# ----------------------------------------------------------------------------------------------------
# exhaustive: alternatives that share ONE LinearComparer object, one of them with the expected value zero

LIN_ALTS = [{'e': [{'$cmp': 'linear', 'params': ['x+1']}], 'g': 1, 'm': ''},
            {'e': [{'$cmp': 'linear', 'params': ['0']}], 'g': 0.2, 'm': 'only at equilibrium'},
            {'e': [{'$cmp': 'linear', 'params': ['x+10']}], 'g': 0.5, 'm': 'bb'},
            {'e': [{'$cmp': 'linear', 'params': ['0*x']}, {'$cmp': 'linear', 'params': ['2*x+20']}], 'g': 0.7, 'm': 'c'}]
LIN_INPUTS = ['2*x+2', '0', 'x+1', '3*x+30', 'x-x', '5*x+5', 'x+10']


def items_linear_shared(tier):
    for r in (2, 3, 4):
        for subset in itertools.combinations(range(len(LIN_ALTS)), r):
            for k in range(len(LIN_INPUTS)):
                yield {'alts': list(subset), 'inputs': LIN_INPUTS[k:] + LIN_INPUTS[:k], 'wrong': bool(k % 2)}


def judge_linear_shared(spec, rec):
    alts = [LIN_ALTS[i] for i in spec['alts']]
    opts = {'variables': ['x'], 'samples': 5, 'tolerance': 0.001, 'sample_from': {'x': [1, 3]}}
    return run_item('F', opts, alts, SENTINEL if spec['wrong'] else '', spec['inputs'], None, 3, rec)


# ----------------------------------------------------------------------------------------------------
# generators: answer families per grader kind

S_FAMS = [['cat', ' cat', 'cat ', 'Cat', 'CAT', 'c at'], ['dog', 'Dog', ' dog ', 'd og', 'DOG'],
          ['red fox', 'red  fox', 'Red Fox', 'redfox', ' red fox'], ['emu', 'Emu', 'e mu'], ['cat9', 'Cat9'],
          ['42', '4 2']]
S_OPTS = [{}, {}, {'case_sensitive': False}, {'strip_all': True, 'case_sensitive': False},
          {'strip': False, 'clean_spaces': False},
          {'validation_pattern': '[a-zA-Z ]+', 'explain_validation': 'msg'},
          {'validation_pattern': '[a-zA-Z ]+', 'explain_validation': 'err'},
          {'validation_pattern': '[a-zA-Z ]+', 'explain_validation': None},
          {'accept_any': True, 'min_length': 4, 'explain_minimums': 'msg'},
          {'accept_any': True, 'min_length': 4, 'explain_minimums': 'err'}]
S_JUNK = ['zzz', 'unicorn', 'cat dog', '', '  ']

# value ranges on x, y in [1, 3]: [2,4] [11,13] [22,26] [31,39] [51,59] [72,76]; negatives mirrored; scaled
# variants [200,400] [1100,1300] [2200,2600] [3100,3900] [5100,5900] [7200,7600]; junk beyond +-10000
F_FAMS = [
    {'forms': ['x+1', '1+x', '(x+1)', 'x+1+0', 'x+2-1'], 'neg': ['-x-1', '-(x+1)'], 'scaled': ['100*(x+1)', '100*x+100']},
    {'forms': ['x+10', '10+x', 'x+5+5'], 'neg': ['-x-10', '-(10+x)'], 'scaled': ['100*(x+10)']},
    {'forms': ['2*x+20', 'x+x+20', '2*(x+10)', '20+x*2'], 'neg': ['-2*x-20'], 'scaled': ['200*x+2000']},
    {'forms': ['x^2+30', 'x*x+30', '30+x^2'], 'neg': ['-x^2-30', '-(x*x+30)'], 'scaled': ['100*x^2+3000']},
    {'forms': ['x*y+50', 'y*x+50', '50+x*y'], 'neg': ['-x*y-50'], 'scaled': ['100*(x*y+50)']},
    {'forms': ['x+y+70', 'y+x+70', '70+y+x'], 'neg': ['-(x+y+70)'], 'scaled': ['100*(x+y+70)']},
    # the zero family: a LinearComparer must not award proportional / linear credit when either side is zero - and having
    # met a zero it must still award them to the next alternative (a seeded change dropped those modes for good)
    {'forms': ['0', 'x-x', '0*y', '0.0'], 'neg': ['-0'], 'scaled': ['100*0']},
    # numbered-variable instances (a in [1, 3]): alternatives that mention different indices - each alternative needs its
    # own instances sampled (a seeded change sampled once per submission, for the first alternative's names only)
    {'forms': ['a_{1}+90', '90+a_{1}', 'a_{1}+45*2'], 'neg': ['-a_{1}-90'], 'scaled': ['100*(a_{1}+90)']},
    {'forms': ['a_{2}+110', '110+a_{2}'], 'neg': ['-(a_{2}+110)'], 'scaled': ['100*a_{2}+11000']},
    {'forms': ['a_{1}+a_{12}+130', '130+a_{12}+a_{1}'], 'neg': ['-a_{1}-a_{12}-130'], 'scaled': ['100*(a_{1}+a_{12}+130)']},
]
F_OPTS = [{}, {}, {'tolerance': 0.001}, {'tolerance': 0.001}, {'tolerance': '1%'}]
F_JUNK = ['x+10000', '-50000+y', 'z+1', '1/(x-x)', '', '   ', '\t']     # blank boxes are submissions too
# LinearComparer measures its fit error against tolerance x |student|: with a relative tolerance a student value of
# large magnitude is "proportional" to anything, depending on the samples drawn.  It is used only where the
# tolerance is absolute (0.001): then an unrelated pair has an error of the order of the spread of 5 samples
F_CMPS = ['sign']
F_CMPS_ABS = ['sign', 'linear', 'linear-offset', 'linear']

# NumericalGrader: families at least 20% apart (default tolerance 5%)
N_FAMS = [
    {'forms': ['10', '5*2', '1e1', '10.0', '20/2'], 'neg': ['-10', '-5*2']},
    {'forms': ['12', '3*4', '6+6', '12.0'], 'neg': ['-12']},
    {'forms': ['3', 'sqrt(9)', '6/2', '3.0'], 'neg': ['-3', '0-3']},
    {'forms': ['-3', '0-3', '-6/2'], 'neg': ['3', '6/2']},
    {'forms': ['100', '10^2', '1e2'], 'neg': ['-100']},
    {'forms': ['0.5', '1/2', '.5'], 'neg': ['-0.5', '-1/2']},
]
N_OPTS = [{}, {}, {'tolerance': '1%'}, {'tolerance': 0.001}]
N_JUNK = ['77', '1000', 'foo', '1/0', '', '  ']
N_CMPS = ['sign']

# MatrixGrader: entries at one position are equal or far apart: pos0 {1, x+20}, pos1 {2, 7, 2x+30, y+40},
# pos2 {3, 9, 100, 200}
M_FAMS = [
    {'forms': ['[1,2,3]', '[1,1+1,3]', '1*[1,2,3]', '[1,2,3]+[0,0,0]']},
    {'forms': ['[1,2,9]', '[1,2,3^2]', '[1,2,9]*1']},
    {'forms': ['[1,7,9]', '[1,7,10-1]']},
    {'forms': ['[x+20,2*x+30,100]', '[20+x,x+x+30,100]', '[x+20,2*(x+15),10^2]']},
    {'forms': ['[x+20,2*x+30,200]', '[20+x,30+2*x,200]']},
    {'forms': ['[x+20,y+40,200]', '[x+20,40+y,2*100]']},
    {'forms': ['[[1,2],[3,4]]', '[[1,2],[3,2+2]]', '[[1,2],[3,4]]*1']},
    {'forms': ['[[1,2],[3,5]]', '[[1,1+1],[3,5]]']},
    {'forms': ['[1,2]', '[1,4/2]']},
    {'forms': ['5', '2+3']},
]
M_VEC3 = [0, 1, 2, 3, 4, 5]
M_OTHER = [6, 7, 8, 9]
M_OPTS = [{}, {'entry_partial_credit': 'proportional'}, {'entry_partial_credit': 0.5},
          {'entry_partial_credit': 'proportional', 'entry_partial_msg': 'some entries are off'},
          {'answer_shape_mismatch': {'is_raised': False, 'msg_detail': 'type'}},
          {'answer_shape_mismatch': {'is_raised': False, 'msg_detail': 'shape'}, 'entry_partial_credit': 'proportional'},
          {'answer_shape_mismatch': {'is_raised': False, 'msg_detail': None}},
          {'suppress_matrix_messages': True, 'entry_partial_credit': 0.5}]
M_JUNK = ['[70,80,90]', '[[9,9],[9,9]]', '77', 'foo', '', ' ']

FAMS = {'F': F_FAMS, 'N': N_FAMS, 'M': M_FAMS}
TOKENS = ['a', 'b', 'c', 'd', 'e', 'f']
KINDS = ['S', 'S', 'T', 'T', 'N', 'F', 'F', 'M', 'SL', 'SL']


def pick(draw, seq):
    return seq[draw(st.integers(0, len(seq) - 1))]


def chance(draw, percent):
    return draw(st.integers(0, 99)) < percent


@st.composite
def profiles(draw, kind):
    """Options of one grader plus what the alternative / input generators need (families in play, tokens, table)."""
    if kind == 'S':
        k = draw(st.integers(1, 3))
        return {'kind': 'S', 'opts': dict(pick(draw, S_OPTS)), 'active': draw(st.permutations(range(len(S_FAMS))))[:k]}
    if kind in ('F', 'N'):
        fams = FAMS[kind]
        k = draw(st.integers(1, 3))
        opts = dict(pick(draw, F_OPTS if kind == 'F' else N_OPTS))
        if kind == 'F':
            opts.update(variables=['x', 'y'], samples=draw(st.integers(2, 3)), numbered_vars=['a'],
                        sample_from={'a': [1, 3]})
        return {'kind': kind, 'opts': opts, 'active': draw(st.permutations(range(len(fams))))[:k]}
    if kind == 'M':
        k = draw(st.integers(1, 3))
        opts = dict(pick(draw, M_OPTS))
        opts.update(variables=['x', 'y'], samples=2, max_array_dim=2)
        raising = not opts.get('suppress_matrix_messages') and opts.get('answer_shape_mismatch', {}).get(
            'is_raised', True)
        active = draw(st.permutations(M_VEC3))[:k]
        if chance(draw, 15 if raising else 60):
            active = active + [pick(draw, M_OTHER)]
        return {'kind': 'M', 'opts': opts, 'active': active}
    if kind == 'T':
        names = ['e0', 'e1', 'e2', 'e3'][:draw(st.integers(2, 4))]
        table = {}
        for e in names:
            row = {}
            for i in ('i0', 'i1'):
                if chance(draw, 60):
                    credit = None if chance(draw, 3) else pick(draw, CREDITS)
                    row[i] = [credit, pick(draw, MSGS)]
            table[e] = row
        return {'kind': 'T', 'opts': {'table': table}, 'names': names}
    if kind == 'SL':
        length = draw(st.integers(1, 3))
        toks = draw(st.permutations(TOKENS))[:length + draw(st.integers(1, 2))]
        opts = {'ordered': draw(st.booleans()),
                'sub': {'kind': 'S', 'opts': dict(pick(draw, [{}, {}, {'strip': False}, {'strip': False, 'clean_spaces': False}])),
                        'wrong': 'nope' if chance(draw, 25) else ''}}
        if chance(draw, 20):
            opts['partial_credit'] = False
        if chance(draw, 10):
            opts['length_error'] = True
        return {'kind': 'SL', 'opts': opts, 'length': length, 'toks': toks}
    raise ValueError(kind)


def draw_entry(draw, prof):
    """One expect value (JSON) for a grader of this profile."""
    kind = prof['kind']
    if kind == 'S':
        fam = S_FAMS[pick(draw, prof['active'])] if chance(draw, 88) else pick(draw, S_FAMS)
        return pick(draw, fam)
    if kind in ('F', 'N', 'M'):
        fams = FAMS[kind]
        fam = fams[pick(draw, prof['active'])] if chance(draw, 88) else pick(draw, fams)
        form = pick(draw, fam['forms'])
        if kind != 'M' and chance(draw, 22):
            cmps = N_CMPS if kind == 'N' else F_CMPS_ABS if prof['opts'].get('tolerance') == 0.001 else F_CMPS
            return {'$cmp': pick(draw, cmps), 'params': [form]}
        if kind == 'M' and chance(draw, 30):
            return {'$cmp': pick(draw, ['entry-prop', 'entry-half']), 'params': [form]}
        return form
    if kind == 'T':
        return pick(draw, prof['names'])
    if kind == 'SL':
        items, plain = [], True
        for _ in range(prof['length']):
            t = pick(draw, prof['toks'])
            c = draw(st.integers(0, 99))
            if c < 75:
                items.append(t)
            elif c < 90:
                plain = False
                items.append({'expect': t, 'grade_decimal': pick(draw, CREDITS), 'msg': pick(draw, MSGS)})
            else:
                plain = False
                items.append({'$tuple': [t, {'expect': pick(draw, prof['toks']), 'grade_decimal': 0.5,
                                             'msg': pick(draw, MSGS)}]})
        if plain and chance(draw, 30):
            return pick(draw, [', ', ',']).join(items)
        return items
    raise ValueError(kind)


def draw_alts(draw, prof, n):
    alts = []
    for _ in range(n):
        c = draw(st.integers(0, 99))
        if c < 12:
            # bare form: just the expect value (credit 1, no message)
            e = draw_entry(draw, prof)
            if not isinstance(e, dict):
                alts.append({'e': [e], 'g': 1, 'm': '', 'bare': True})
                continue
        ne = 1 if c < 65 else 2 if c < 90 else 3
        ents = [draw_entry(draw, prof) for _ in range(ne)]
        alt = {'e': ents, 'g': pick(draw, CREDITS), 'm': pick(draw, MSGS)}
        if ne == 1 and chance(draw, 15):
            alt['tup'] = True
        alts.append(alt)
    return alts


def entry_family(kind, entry):
    """Index of the family an expect entry belongs to (math kinds)."""
    form = entry['params'][0] if isinstance(entry, dict) else entry
    for i, fam in enumerate(FAMS[kind]):
        if form in fam['forms']:
            return i
    return None


def item_token(draw, it):
    """A token that one item of a SingleListGrader answer list accepts."""
    if isinstance(it, str):
        return it
    if '$tuple' in it:
        return item_token(draw, pick(draw, it['$tuple']))
    return it['expect']


def draw_input(draw, prof, alts):
    """A student input: mostly a variant of one of the alternatives' answers."""
    kind = prof['kind']
    c = draw(st.integers(0, 99))
    if kind == 'S':
        if c < 70:
            e = pick(draw, pick(draw, alts)['e'])
            fam = [f for f in S_FAMS if e in f][0]
            return pick(draw, fam)
        if c < 88:
            return pick(draw, pick(draw, S_FAMS))
        return pick(draw, S_JUNK)
    if kind in ('F', 'N', 'M'):
        fams = FAMS[kind]
        junk = {'F': F_JUNK, 'N': N_JUNK, 'M': M_JUNK}[kind]
        if c < 72:
            fam = fams[entry_family(kind, pick(draw, pick(draw, alts)['e']))]
            v = draw(st.integers(0, 99))
            if v < 22 and fam.get('neg'):
                return pick(draw, fam['neg'])
            if v < 34 and fam.get('scaled'):
                return pick(draw, fam['scaled'])
            return pick(draw, fam['forms'])
        if c < 87:
            return pick(draw, pick(draw, fams)['forms'])
        return pick(draw, junk)
    if kind == 'T':
        return pick(draw, ['i0', 'i0', 'i1', 'i1', ' i0 ', 'zz'])
    if kind == 'SL':
        strings = [e for a in alts for e in a['e'] if isinstance(e, str)]
        if strings and c >= 90:
            return pick(draw, strings)       # the very text of a string-form alternative, blanks after delimiters included
        length = prof['length']
        m = pick(draw, [length] * 5 + [length + 1] + ([length - 1] if length > 1 else []))
        if c < 60:
            # start from one alternative's own list
            e = pick(draw, pick(draw, alts)['e'])
            base = [t.strip() for t in e.split(',')] if isinstance(e, str) else [item_token(draw, it) for it in e]
            if chance(draw, 40):
                base = list(draw(st.permutations(base)))
            if chance(draw, 35):
                base[draw(st.integers(0, len(base) - 1))] = pick(draw, prof['toks'] + ['q'])
            toks = base[:m] + [pick(draw, prof['toks']) for _ in range(m - len(base))]
        else:
            toks = [pick(draw, prof['toks'] + ['q']) for _ in range(m)]
        return pick(draw, [', ', ',']).join(toks)
    raise ValueError(kind)


def final_opts(prof, alt_lists):
    """Options once all alternatives are known: graders with a LinearComparer alternative sample 5 points."""
    opts = dict(prof['opts'])
    if prof['kind'] == 'F':
        if any(isinstance(e, dict) and e.get('$cmp', '').startswith('linear')
               for alts in alt_lists for a in alts for e in a['e']):
            opts['samples'] = 5
    return opts


def draw_wrong(draw):
    return pick(draw, [SENTINEL, SENTINEL, '', SENTINEL + '\nsecond line'])


N_ALTS = [1, 2, 2, 2, 2, 2, 2, 3, 3, 3, 3, 3, 4, 4, 5, 6]


@st.composite
def item_specs(draw):
    kind = pick(draw, KINDS)
    prof = draw(profiles(kind))
    n = pick(draw, N_ALTS)
    alts = draw_alts(draw, prof, n)
    inputs = [draw_input(draw, prof, alts) for _ in range(pick(draw, [1, 2, 2, 3] if n < 5 else [1, 2]))]
    orders = None
    if n > 4:
        orders = [list(draw(st.permutations(range(n)))) for _ in range(24)]
    return {'kind': kind, 'opts': final_opts(prof, [alts]), 'alts': alts, 'wrong': draw_wrong(draw),
            'inputs': inputs, 'orders': orders, 'seed': draw(st.integers(0, 2 ** 31 - 1)),
            'untupled': n == 1 and draw(st.booleans())}


def judge_items(spec, rec):
    return run_item(spec['kind'], spec['opts'], spec['alts'], spec['wrong'], spec['inputs'], spec['orders'],
                    spec['seed'], rec, spec.get('untupled', False))


# ----------------------------------------------------------------------------------------------------
# containers: ordered ListGrader, SingleListGrader

SLOT_N = [1, 2, 2, 2, 3, 3, 4]
LIST_KINDS = ['S', 'S', 'T', 'N', 'F', 'M', 'SL']


def joint_orders(draw, sizes, count):
    out = [[list(range(n)) for n in sizes], [list(range(n))[::-1] for n in sizes]]
    for _ in range(count - 2):
        out.append([list(draw(st.permutations(range(n)))) for n in sizes])
    return out


@st.composite
def list_specs(draw):
    nslots = draw(st.integers(2, 3))
    single_sub = draw(st.booleans())
    if single_sub:
        kind = pick(draw, LIST_KINDS)
        prof = draw(profiles(kind))
        profs = [prof] * nslots
        wrongs = [draw_wrong(draw)] * nslots
    else:
        profs = [draw(profiles(pick(draw, LIST_KINDS))) for _ in range(nslots)]
        wrongs = [draw_wrong(draw) for _ in range(nslots)]
    altss = [draw_alts(draw, p, pick(draw, SLOT_N)) for p in profs]
    if single_sub:
        opts = final_opts(profs[0], altss)
        optss = [opts] * nslots
    else:
        optss = [final_opts(p, [a]) for p, a in zip(profs, altss)]
    slots = [{'kind': p['kind'], 'opts': o, 'alts': a, 'wrong': w, 'untupled': len(a) == 1 and draw(st.booleans())}
             for p, o, a, w in zip(profs, optss, altss, wrongs)]
    vectors = [[draw_input(draw, p, a) for p, a in zip(profs, altss)] for _ in range(draw(st.integers(1, 2)))]
    return {'single_sub': single_sub, 'slots': slots, 'vectors': vectors,
            'orders': joint_orders(draw, [len(a) for a in altss], 4), 'seed': draw(st.integers(0, 2 ** 31 - 1))}


def judge_list(spec, rec):
    slots, seed = spec['slots'], spec['seed']
    sgs = [single_graders(s['kind'], s['opts'], s['alts']) for s in slots]
    wants_all, nt = [], False
    for vec in spec['vectors']:
        wants = []
        for s, sg, inp in zip(slots, sgs, vec):
            want = derive(grade_alone(sg, inp, seed, rec), s['wrong'])
            nt = classify(rec, want, s['alts'], s['wrong'], 'in-list/') or nt
            wants.append(want)
            rec.cls('in-list/slots')
            rec.cls('in-list/kind/' + s['kind'])
        wants_all.append(wants)
    for oi, jo in enumerate(spec['orders']):
        answers = [answers_of(s['alts'], o, oi, s['untupled']) for s, o in zip(slots, jo)]
        if spec['single_sub']:
            sub = make(slots[0]['kind'], slots[0]['opts'], wrong=slots[0]['wrong'])
        else:
            sub = [make(s['kind'], s['opts'], wrong=s['wrong']) for s in slots]
        g = ListGrader(answers=answers, subgraders=sub, ordered=True)
        for vec, wants in zip(spec['vectors'], wants_all):
            set_seed(seed)
            status, r = call(g, None, list(vec))
            rec.calls()
            ctx = {'orders': jo, 'inputs': vec}
            raising = [w for w in wants if w['raises']]
            if raising:
                check_result(raising[0], status, r, '', 'in-list/', ctx)
                continue
            if status == 'err':
                if isinstance(r, MITxError):
                    raise Violation('in-list/raise/unexpected', 'no alternative raises alone, the ListGrader raised '
                                    '%s: %s' % (type(r).__name__, r), **ctx)
                raise r
            if not isinstance(r, dict) or not isinstance(r.get('input_list'), list) or \
                    len(r['input_list']) != len(slots):
                raise Violation('in-list/shape', 'result %r' % (r,), **ctx)
            for i, (s, want, entry) in enumerate(zip(slots, wants, r['input_list'])):
                check_result(want, 'ok', entry, s['wrong'], 'in-list/', dict(ctx, slot=i))
    rec.cls('in-list/single-subgrader' if spec['single_sub'] else 'in-list/subgrader-list')
    rec.nontrivial(nt)
    return {'slots': len(slots), 'orders': len(spec['orders']),
            'wants': [[{'raises': w['raises'], 'max': w.get('max'), 'allowed': w.get('allowed')} for w in ws]
                      for ws in wants_all]}


@st.composite
def slist_specs(draw):
    kind = pick(draw, ['S', 'S', 'T', 'T', 'N', 'F', 'M', 'SL'])
    prof = draw(profiles(kind))
    nslots = draw(st.integers(1, 3))
    altss = [draw_alts(draw, prof, pick(draw, SLOT_N)) for _ in range(nslots)]
    vectors = [[draw_input(draw, prof, a) for a in altss] for _ in range(draw(st.integers(1, 2)))]
    if draw(st.booleans()):
        vectors = [list(draw(st.permutations(v))) for v in vectors]
    return {'kind': kind, 'opts': final_opts(prof, altss), 'wrong': draw_wrong(draw), 'slots': altss,
            'untupled': [len(a) == 1 and draw(st.booleans()) for a in altss],
            'ordered': pick(draw, [True, False, True, True, False]), 'vectors': vectors,
            'glue': pick(draw, [';', '; ']),
            'orders': joint_orders(draw, [len(a) for a in altss], 3), 'seed': draw(st.integers(0, 2 ** 31 - 1))}


def judge_slist(spec, rec):
    kind, opts, wrong, seed = spec['kind'], spec['opts'], spec['wrong'], spec['seed']
    slots, ordered = spec['slots'], spec['ordered']
    n = len(slots)
    sgs = [single_graders(kind, opts, alts) for alts in slots]
    expected, nt = [], False
    for vec in spec['vectors']:
        cells = {}
        # the items the subgrader sees are the pieces between the delimiters, surrounding blanks included
        pieces = spec['glue'].join(vec).split(';')
        for a in range(n):
            for i in range(n):
                if ordered and a != i:
                    continue
                want = derive(grade_alone(sgs[a], pieces[i], seed, rec), wrong)
                nt = classify(rec, want, slots[a], wrong, 'in-singlelist/') or nt
                cells[(a, i)] = want
        raising = [w for w in cells.values() if w['raises']]
        if raising:
            expected.append({'raises': raising[0]})
        elif ordered:
            grade = sum([cells[(i, i)]['max'] for i in range(n)]) / n
            msgs = set()
            for combo in itertools.product(*[cells[(i, i)]['allowed'] for i in range(n)]):
                msgs.add('<br/>\n'.join(m for m in combo if m != ''))
            expected.append({'raises': None, 'grade': grade, 'msgs': sorted(msgs)})
        else:
            grade = max(sum([cells[(p[i], i)]['max'] for i in range(n)]) / n
                        for p in itertools.permutations(range(n)))
            expected.append({'raises': None, 'grade': grade, 'msgs': None})
    rec.cls('in-singlelist/ordered' if ordered else 'in-singlelist/unordered')
    rec.cls('in-singlelist/kind/' + kind)
    copts = {'ordered': ordered, 'delimiter': ';'}
    if any(piece.strip() == '' for vec in spec['vectors'] for piece in spec['glue'].join(vec).split(';')):
        copts['missing_error'] = False      # blank items are handed to the subgrader instead of being refused by the list
        rec.cls('in-singlelist/blank-item')
    for oi, jo in enumerate(spec['orders']):
        answers = [answers_of(alts, o, oi, u) for alts, o, u in zip(slots, jo, spec['untupled'])]
        g = SingleListGrader(answers=answers, subgrader=make(kind, opts, wrong=wrong), **copts)
        for vec, exp in zip(spec['vectors'], expected):
            text = spec['glue'].join(vec)
            set_seed(seed)
            status, r = call(g, None, text)
            rec.calls()
            ctx = {'orders': jo, 'input': text, 'ordered': ordered}
            if exp['raises']:
                check_result(exp['raises'], status, r, '', 'in-singlelist/', ctx)
                continue
            if status == 'err':
                if isinstance(r, MITxError):
                    raise Violation('in-singlelist/raise/unexpected', 'no alternative raises alone, the '
                                    'SingleListGrader raised %s: %s' % (type(r).__name__, r), **ctx)
                raise r
            if not isinstance(r, dict) or set(r) != {'ok', 'grade_decimal', 'msg'}:
                raise Violation('in-singlelist/shape', 'result %r' % (r,), **ctx)
            g_lib, g_exp = r['grade_decimal'], exp['grade']
            if abs(g_lib - g_exp) > 1e-12:
                raise Violation('in-singlelist/grade/' + ('below-max' if g_lib < g_exp else 'above-max'),
                                'grade %r, expected %r from the best alternative of every item' % (g_lib, g_exp),
                                result=r, **ctx)
            if (g_exp == 0 or g_exp == 1 or 1e-9 < g_exp < 1 - 1e-9) and not ok_same(r['ok'], ok_rule(g_exp)):
                raise Violation('in-singlelist/ok/mismatch', 'ok %r for grade %r' % (r['ok'], g_exp), result=r, **ctx)
            if exp['msgs'] is not None and r['msg'] not in exp['msgs']:
                raise Violation('in-singlelist/msg', 'message %r, allowed %r' % (r['msg'], exp['msgs'][:8]),
                                result=r, **ctx)
    rec.nontrivial(nt)
    return {'ordered': ordered, 'slots': n, 'orders': len(spec['orders']),
            'expected': [{'raises': bool(e['raises']), 'grade': e.get('grade')} for e in expected]}


PARTS = [
    Part('table-small', 'enum', judge_table, items=items_table, exhaustive=True),
    Part('string-small', 'enum', judge_string, items=items_string, exhaustive=True),
    Part('linear-shared', 'enum', judge_linear_shared, items=items_linear_shared, exhaustive=True),
    Part('items', 'hyp', judge_items, strategy=lambda tier: item_specs(),
         budget={'quick': 3000, 'thorough': 60000}),
    Part('in-list', 'hyp', judge_list, strategy=lambda tier: list_specs(),
         budget={'quick': 1200, 'thorough': 20000}),
    Part('in-singlelist', 'hyp', judge_slist, strategy=lambda tier: slist_specs(),
         budget={'quick': 1200, 'thorough': 20000}),
]
