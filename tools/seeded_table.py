#!/venv/bin/python
"""Prints the markdown table of seeded changes (seeded/*/meta.json) and the mutant counts (mutants/*.json)."""
import glob, json, os
HERE = os.path.dirname(os.path.dirname(os.path.abspath(__file__)))
print('| id | property | what the change does (needs) | verdict of `./check <property> quick` |')
print('|---|---|---|---|')
for p in sorted(glob.glob(os.path.join(HERE, 'seeded', '*', 'meta.json'))):
    m = json.load(open(p))
    sid = os.path.basename(os.path.dirname(p))
    ch = m.get('confirmed', {}).get('checks', {})
    verdicts = '; '.join('%s: %s' % (c, v['verdict']) + (' [' + v['buckets'][0].replace('bucket ', '').split(':')[0].strip() + ']' if v.get('buckets') else '') for c, v in ch.items())
    summ = (m.get('summary', '')[:170] + '…') if len(m.get('summary', '')) > 170 else m.get('summary', '')
    needs = (m.get('needs', '')[:120] + '…') if len(m.get('needs', '')) > 120 else m.get('needs', '')
    print('| %s | %s | %s (%s) | %s |' % (sid, m['property'], summ.replace('|', '\\|').replace('\n', ' '), needs.replace('|', '\\|').replace('\n', ' '), verdicts))
print()
print('Mutants per property (mutants/CNN.json, all CAUGHT by `mutants/selftest.py CNN`): ' + ', '.join(
    '%s %d' % (os.path.basename(f)[:-5], len(json.load(open(f)))) for f in sorted(glob.glob(os.path.join(HERE, 'mutants', 'C*.json')))))
