#!/venv/bin/python
"""Regenerates MANIFEST.json from tools/manifest_src.py (one place to edit; keeps the file schema-valid)."""
import json, os, sys
HERE = os.path.dirname(os.path.dirname(os.path.abspath(__file__)))
sys.path.insert(0, os.path.join(HERE, 'tools'))
import manifest_src as S
props = [json.loads(l)['id'] for l in open(os.path.join(HERE, 'properties.jsonl'))]
checks = []
for pid in props:
    c = S.CHECKS.get(pid)
    if not c:
        continue
    if not os.path.exists(os.path.join(HERE, 'checks')) or not [f for f in os.listdir(os.path.join(HERE, 'checks')) if f.startswith(pid.lower() + '_')]:
        raise SystemExit('no module for ' + pid)
    checks.append({
        'property_id': pid,
        'quick_cmd': './check %s quick' % pid,
        'thorough_cmd': './check %s thorough' % pid,
        'evidence_file': 'evidence/%s.json' % pid,
        'replay_cmd_template': './check %s --replay {path}' % pid,
        'engine': c.get('engine', 'hypothesis'),
        'level_claimed': {'category': 'exploration', 'text': c['text'], 'design_ref': 'DESIGN.md section 5, ' + pid},
        'level_note': c['note'],
        'technique': c['technique'],
    })
na = [{'property_id': p, 'reason': S.NOT_APPLICABLE.get(p, 'check not built yet (work in progress in this session); no claim is made')}
      for p in props if p not in S.CHECKS]
m = {
    'version': 1,
    'setup_cmd': './setup.sh',
    'hooks': S.HOOKS,
    'engines': S.ENGINES,
    'checks': checks,
    'notes': S.NOTES,
    'not_applicable': na,
}
json.dump(m, open(os.path.join(HERE, 'MANIFEST.json'), 'w'), indent=1)
sys.exit(0) if not os.path.exists("/opt/veriftools/pyvenv") else None

print('MANIFEST.json written: %d checks, %d not_applicable' % (len(checks), len(na)))
