HOOKS = {
    'guard': 'MITX_GRADING_LIBRARY_VERIF',
    'enable': 'no hooks are needed: every observation point is reachable through the public API '
              '(author-defined sampling sets, comparers, ItemGrader subclasses, debug=True); checks import the '
              'library straight from /repo (or $VERIF_REPO) by path, nothing is built',
    'baseline_off_cmd': 'cd /repo && /venv/bin/python -m pytest -ra -q -p no:cacheprovider --timeout=900 '
                        '--continue-on-collection-errors',
    'source_commits': [],
    'add_only': True,
}
ENGINES = [
    {'name': 'hypothesis', 'path': 'vlib/runner.py',
     'serves_properties': ['C%02d' % i for i in range(1, 21)],
     'kind_free_text': 'Hypothesis 6.168 @given over JSON-able case specs, seeded from VERIF_SEED, sharded over 16 '
                       'processes, root-cause bucketing, time-capped shrinking to a replay file'},
    {'name': 'exhaustive-enumeration', 'path': 'vlib/runner.py',
     'serves_properties': ['C01', 'C02', 'C03', 'C05', 'C06', 'C07', 'C08', 'C09', 'C10', 'C11', 'C12', 'C14', 'C15',
                           'C16', 'C17', 'C18', 'C19', 'C20'],
     'kind_free_text': 'itertools enumeration of small finite sub-domains, sharded by stride over processes'},
    {'name': 'atheris', 'path': 'vlib/fuzzworker.py',
     'serves_properties': ['C02', 'C03', 'C10'],
     'kind_free_text': 'atheris 3.x / libFuzzer coverage-guided campaign (branch coverage of mitxgraders + pyparsing) '
                       'whose byte strings are decoded by Hypothesis fuzz_one_input through the same structured strategy '
                       'and judged by the same oracle as the random part; thorough tier only (parts of kind fuzz); '
                       'skipped with a note in the evidence when atheris cannot be imported'},
]
NOTES = ('All checks: ./check CNN quick|thorough ; replay: ./check CNN --replay <path>. Exit 0 = held, 1 = VIOLATION '
         'line(s), 2 = harness error. VERIF_SEED / VERIF_JOBS / VERIF_REPO / VERIF_OUT honoured. '
         'Genuine defects repaired by fix: commits are listed in known_findings.json (status fixed).')
NOT_APPLICABLE = {}
CHECKS = {
    'C06': {
        'text': 'Exhaustive over all r x c (r,c<=3) matrices over {0,1,2} and all 4x4 binary matrices, plus '
                'Hypothesis-generated int/float/tie-heavy/grade-like matrices up to 10x10 and histories of solves on '
                'a reused solver, each judged against an exact DP/enumeration optimum and validity predicate.',
        'note': 'Trusts the subset-DP oracle (cross-checked against permutation enumeration on the exhaustive '
                'parts); costs are finite non-negative numbers <= 1e6; termination judged by a 20 s watchdog.',
        'technique': 'property-based testing (Hypothesis) + exhaustive enumeration against an exact min-cost oracle',
        'engine': 'hypothesis',
    },
    'C03': {
        'text': 'Exhaustive over all flat operator sequences of length <= 4 (with unary minus / exponent sign) on two leaf '
                'sets against an independent precedence-climbing parser, exhaustive literal formats x suffixes against '
                'exact rationals, and Hypothesis-generated expression trees rendered in several styles against a '
                'reference evaluator; invalid-by-construction strings must raise parse errors; case variants of bound '
                'names must be undefined; grader verdicts on constant expressions.',
        'note': 'Trusts the reference evaluator (Python float/complex arithmetic, reals kept real) and the renderer as an '
                'independent encoding of the documented grammar; ill-conditioned / near-branch-cut / |v|>1e12 cases are '
                'discarded and counted.',
        'technique': 'property-based testing (Hypothesis) + exhaustive enumeration; differential against a reference '
                     'parser/evaluator; metamorphic (rendering independence)',
    },
    'C04': {
        'text': 'Hypothesis-generated graders whose samples are scripted by an author-defined sampling set; student '
                'formulas with an exactly known number of failing samples, relative-error cases that separate '
                '"percent of expected" from "percent of student", exact dyadic boundary cases, infinities, rewrites, '
                'arrays (Frobenius vs max norm), judged against the tolerance/failable_evals rule.',
        'note': 'Trusts the reference evaluator; a 1e-7 guard band around the tolerance boundary is discarded except in '
                'the exact (rounding-free) boundary classes; magnitudes above 1e8 are out of scope.',
        'technique': 'property-based testing (Hypothesis) against a reference model of the tolerance rule with '
                     'oracle-controlled samples',
    },
    'C10': {
        'text': 'Hypothesis trees over a confusable vocabulary judged against the generator\'s exact name sets; exhaustive '
                'call sequences (length <= 3 quick, <= 4 thorough) over 13 strings x {parse, evaluator}, each run in a '
                'forked pristine child and compared call-by-call with the same call made first in a fresh process and '
                'with a freshly constructed MathParser; random longer sequences incl. FormulaGrader calls.',
        'note': 'Pristine = process state right after importing the library (parser cache empty); isolation by fork.',
        'technique': 'property-based testing (Hypothesis) + exhaustive enumeration of call histories; differential '
                     'against a fresh process / fresh parser',
    },
    'C15': {
        'text': 'Every default function of the Formula/Numerical/Matrix tables on exhaustive grids and Hypothesis points '
                '(real, complex, near poles/cuts, huge/tiny), wrong arities and shapes, judged against mpmath/cmath '
                'values, inverse identities and must-raise zones; constants by value.',
        'note': 'Trusts mpmath at 40 digits; conditioning-aware tolerance; points keep >= 1e-6 relative distance from '
                'cuts/poles unless exact must-raise poles; factorial excluded (no scipy).',
        'technique': 'property-based testing (Hypothesis) + exhaustive grids against a multiprecision reference',
    },
    'C19': {
        'text': 'Exhaustive limit pairs in [-12,12]^2 x parity with a bit-mask summand, exhaustive error-input pools x '
                'input_positions subsets, and Hypothesis sums (renamed/shifted/reversed/perturbed variants, infinite '
                'limits with cutoffs) judged against a Python reference sum with scripted samples.',
        'note': 'Trusts the reference summation; tolerance guard band discarded; IntegralGrader/factorials need scipy.',
        'technique': 'property-based testing (Hypothesis) + exhaustive enumeration against a reference sum; metamorphic '
                     'sum-preserving transformations',
    },
    'C20': {
        'text': 'Option tables transcribed from the documentation for 36 classes: exhaustive single-option deviations '
                '(in- and out-of-domain pools), cross-option rule scenarios, all 288 SquareMatrices combinations, '
                'documented equivalences, and Hypothesis multi-option combinations and answers formats; judged on '
                'constructor acceptance, error family, filled defaults, canonical answers, kwargs/dict equivalence and '
                're-validation round trip.',
        'note': 'The option tables are a hand transcription of docs/doc-strings; values the docs do not settle are in '
                'neither pool (listed in DESIGN).',
        'technique': 'exhaustive enumeration + property-based testing (Hypothesis) against a documented-domain model; '
                     'round-trip oracle',
    },
    'C16': {
        'text': 'Per comparer (congruence, between, eigenvector, vector_span, vector_phase, MatrixEntryComparer, '
                'LinearComparer) Hypothesis-generated members (by the defining transformation) and non-members at a '
                'residual measured by the oracle, plus exhaustive LinearComparer mode/credit grid and shape-mismatch '
                'policy grid; verdict and grade_decimal judged against membership known by construction.',
        'note': 'Members judged only with residual <= tol/100, non-members only with residual >= 100 x tol (guard band '
                'discarded); literal targets; real samples.',
        'technique': 'property-based testing (Hypothesis) with membership-by-construction oracle + exhaustive grids',
    },
    'C13': {
        'text': 'Hypothesis-generated dependency DAGs (2..8 variables; interval, discrete and vector samplers with '
                'disjoint ranges; dependent formulas over earlier variables, constants and numbered instances) in '
                'shuffled declaration orders, observed through gen_symbols_samples and through grader calls with a '
                'recording comparer; completeness, provenance and dependent consistency judged against a reference '
                'evaluation of each formula on the same sample; cyclic/dangling variants must raise ConfigError.',
        'note': 'Trusts the reference evaluator; dependent formulas are total by construction; 10 s watchdog for the '
                'termination clause.',
        'technique': 'property-based testing (Hypothesis) against a reference evaluation of the dependency graph',
    },
    'C14': {
        'text': 'Exhaustive shape lattice (441 shape pairs x 5 operators x entry kinds x 5 routes: binary, reflected, '
                'in-place, formula with variables, formula with literals), exhaustive scalar and power grids incl. '
                'exactly singular bases, and Hypothesis random cells, singular matrices, vector-product chains and '
                'negative-power-switch histories, judged against a hand-written linear-algebra rule table on plain '
                'lists/ndarrays.',
        'note': 'One-element results may be a bare number or a one-element array; singular bases judged only when '
                'exactly rank-deficient (rational arithmetic) or well-conditioned.',
        'technique': 'exhaustive enumeration + property-based testing (Hypothesis) against a reference rule table',
    },
    'C17': {
        'text': 'Exhaustive schedule grid (264 schedules x attempts 1..200) and exhaustive grid of those schedules on two '
                'fixed graders x attempts -3..200 x note flag, plus Hypothesis-generated String/Formula/SingleList/List '
                'graders (nested, grouped, author schedules) judged differentially against the same grader without '
                'attempt-based credit.',
        'note': 'Accepts a result consistent with either the 4-decimal-rounded or the unrounded multiplier for off-grid '
                'author schedule values; separator before the note not prescribed.',
        'technique': 'exhaustive enumeration + property-based testing (Hypothesis); differential twin without the feature',
    },
    'C18': {
        'text': 'Exhaustive grids (16 flag combinations x short expected/submission pairs; whitespace-symbol placements; '
                'min_length x min_words x explain_minimums x accept modes; 28 validation patterns x submissions x '
                'explain_validation x modes) plus Hypothesis strings over a mixed alphabet, judged against a '
                'character-level model of the configured cleaning written from the statement, under every reading the '
                'statement leaves open (cases where the readings disagree are discarded).',
        'note': 'Trusts the character-level model; ambiguous CR/LF runs and locale-dependent case folding are discarded.',
        'technique': 'exhaustive enumeration + property-based testing (Hypothesis) against a reference model of string '
                     'cleaning; metamorphic single-character edits',
    },
    'C12': {
        'text': 'All sampler classes over generated option grids (intervals incl. reversed/degenerate, rectangles, '
                'sectors, discrete sets, function lists, random functions over input/output dimensions, vectors / '
                'matrices / tensors, identity multiples) and EXHAUSTIVELY all 288 SquareMatrices combinations x 4 norm '
                'ranges; K draws per configuration judged by set membership, shape, dtype, norm range, symmetry, trace, '
                'triangularity and determinant to numerical precision; constructor acceptance against the documented '
                'existence table.',
        'note': 'Numerical tolerances calibrated with 3-6 orders of margin on the pinned tree; endpoint attainment only '
                'for integer ranges of <= 9 values (400 draws); scipy-dependent samplers excluded.',
        'technique': 'property-based testing (Hypothesis) + exhaustive enumeration with set-membership oracles',
    },
    'C05': {
        'text': 'Exhaustive small credit matrices (all 2x2 over the 6-value palette, 3x3 over {0,.5,1}, 4x4 binary, '
                'pairs of answer lists, every equal-size / contiguous grouping) and Hypothesis-generated ListGraders '
                '(n<=6 flat with all input permutations, grouped/nested up to 8 inputs and depth 3) over a table-driven '
                'ItemGrader, judged by exhaustive search over assignments with a witness predicate (some optimal '
                'assignment reproduces every reported entry at its input position).',
        'note': 'Trusts the n! enumeration over an independently computed result matrix; SingleListGrader leaves are '
                'compared with an independent SingleListGrader instance.',
        'technique': 'exhaustive enumeration + property-based testing (Hypothesis) against a brute-force assignment '
                     'oracle with a validity predicate',
    },
    'C07': {
        'text': 'Exhaustive grids (all submissions of 1-3(4) items against 1-3(4) expected items over credits {0,.5,1} x '
                'ordered x partial_credit x answer credit; all blank/space submissions x length_error x missing_error) '
                'and Hypothesis flat and nested lists (alternatives, several answer lists, 4 delimiters, list / string / '
                'inferred answers, permutations), judged against the documented credit formula computed from an '
                'independent item-credit matrix.',
        'note': 'Item credits come from a table-driven subgrader; unordered optimum by exhaustive assignment; the '
                'message clause is asserted only where the statement determines it.',
        'technique': 'exhaustive enumeration + property-based testing (Hypothesis) against a reference formula; '
                     'metamorphic permutation invariance',
    },
    'C09': {
        'text': 'Exhaustive grids (every default function x 19 neutral-term shapes x blacklist / whitelist=[None] / '
                'whitelist x full/partial credit; 28 undefined-name / suffix / numbered / instructor offenders x shapes '
                'x Formula/Numerical/Matrix/Sum graders) and Hypothesis cheating formulas over all ten restriction '
                'clauses incl. ordered ListGraders with sibling answers; precondition by an unrestricted twin grader; '
                'control direction (author answers validate, honest formulas earn credit).',
        'note': 'Forbidden strings compared after removing U+0020 only; where no twin exists an honest grade that '
                'differs is discarded, an honest refusal is a violation.',
        'technique': 'exhaustive enumeration + property-based testing (Hypothesis); differential twin without the '
                     'restriction; metamorphic neutral terms',
    },
    'C11': {
        'text': 'Exhaustive call sequences (length <= 3 quick, <= 4 thorough over 12 events; length 2/3 over 20 events) '
                'for 7 item-grader classes x answers configured or not x debug, judged call-by-call against a reference '
                'state machine for the effective expect and a freshly built grader; nested-debug sequences; Hypothesis '
                'histories over graders sharing subgraders and one config dict, negative-power switch, evaluator scopes, '
                'registered defaults; immutability fingerprints of author configs, scopes, other graders and '
                'process-wide settings after every step.',
        'note': 'Reference outcomes memoised per worker; sampling pinned by set_seed; the one ambiguous call (absent '
                'expect after an unevaluable one) accepts either reading.',
        'technique': 'exhaustive enumeration of call histories + property-based testing (Hypothesis, operation lists); '
                     'reference state machine and fresh-instance differential; state snapshots',
    },
    'C08': {
        'text': 'Exhaustive small alternative tuples (TableGrader n<=3(4) over credit x message x wrong_msg in every '
                'order; StringGrader n<=2(3)) and Hypothesis alternatives (1-6, single and tuple-valued expects, '
                'credits incl. 0, messages of varied/equal length, wrong_msg) for String, Formula, Numerical, Matrix, '
                'SingleList and table graders, stand-alone and as subgraders of ordered ListGraders and '
                'SingleListGraders, in every order for <= 4 alternatives (24 sampled orders otherwise), judged '
                'differentially against single-alternative graders.',
        'note': 'Sampling graders get sample-robust inputs only and a pinned seed; ties are identical computed '
                'credits; LinearComparer alternatives use an absolute tolerance.',
        'technique': 'exhaustive enumeration + property-based testing (Hypothesis); differential against '
                     'single-alternative graders; metamorphic order independence',
    },
    'C01': {
        'text': 'Hypothesis-generated grader specs for all eight grader kinds (alternatives with partial credit / '
                'messages / pinned ok, comparers incl. partial-credit ones, attempt-based credit, debug, nested and '
                'grouped lists) with answers, rewrites, near misses, garbage and wrong-length submissions; a '
                'products part crossing partial-credit comparers with answer credit and attempt credit; EXHAUSTIVE '
                'grouping vectors (2..6 inputs, contiguous compositions for 7-8). Every returned value is judged on key '
                'set, entry count and order, grade range, message type, ok/grade consistency and debug leakage '
                '(log markers and sentinel answers).',
        'note': 'Raised calls are counted, not judged (C02); a pinned ok is accepted only where the statement lets it '
                'survive; <pre> is not a leak marker (MatrixEntryComparer diagrams).',
        'technique': 'property-based testing (Hypothesis) + exhaustive enumeration with invariant / validity-predicate '
                     'oracles on every returned result',
    },
    'C02': {
        'text': 'Hypothesis-generated grader specs (debug off) fed with out-of-domain formulas, mutated strings '
                '(hostile tokens, up to 400-deep brackets, wrong arities, stray delimiters, non-ASCII digits/operators/'
                'whitespace), raw unicode and non-text / wrongly nested objects; 41 anchor problems, families of '
                'formulas broken in a known way, and generated undefined names over every documented name shape (judged '
                'against the configuration); thorough tier adds a coverage-guided atheris/libFuzzer campaign over the '
                'same strategy and oracle. Oracle: result or MITxError only; debug=True twin differential for class '
                'and <br/>-rendered message of anticipated problems vs. the generic "Could not check input(s)" error '
                'naming the submission; ConfigError for non-text; 30 s watchdog plus elapsed-time check.',
        'note': 'The differential is one-directional (speaks about debug off); SumGrader limits bounded to |n| <= 2000; '
                'the atheris campaign (thorough only) is approximately reproducible from its seed - the saved failing '
                'spec is the reproducible unit; it is skipped (noted in evidence) if atheris cannot be imported.',
        'technique': 'property-based testing / fuzzing: Hypothesis (structured string mutators) + coverage-guided '
                     'fuzzing (atheris/libFuzzer through Hypothesis fuzz_one_input, thorough tier); differential '
                     'against a debug twin; exception-family classification against the configuration',
    },
}
