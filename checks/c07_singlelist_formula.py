"""C07 - SingleListGrader scores a delimited list by the documented credit formula."""
import itertools
import re

from hypothesis import strategies as st

from vlib.core import Part, Violation, Discard, call
from vlib import forms
from vlib.models import TableGrader
from vlib.oracles import best_assignments, min_cost_matching

from mitxgraders import SingleListGrader
from mitxgraders.exceptions import StudentFacingError

RULE = ("Item credits are arbitrary: the subgrader is a table-driven ItemGrader (vlib.models.TableGrader) and the "
        "oracle reads the same table directly. Exhaustive parts: 'grid' = every submission of 1-3 items (1-4 for "
        "short lists) against 1-3 expected items with item credits over {0,0.5,1} (and 1-4 x 1-4 over {0,1}), each "
        "judged under ordered/unordered x partial_credit x answer credit {1,0.5} with an answer-level message; "
        "'grid_errors' = every submission of 1-4 items over {'', ' ', 'a', ' b '} against 1-3 expected items under "
        "length_error x missing_error x ordered. Random parts: 'flat' = expected lists of 1-5 items (items with 1-3 "
        "alternatives carrying their own credit/message), 1-3 alternative lists (some as expect-tuples) each with "
        "answer credit and message, submissions of 1-7 items with blanks, duplicates and surrounding spaces, all four "
        "switches, delimiters , ; | ::, answers as Python lists / delimiter-joined strings / inferred from expect; "
        "'nested' = the same one level deeper (outer list of inner lists, two delimiters). Oracle per alternative "
        "list: credit matrix (item credit = best alternative's table credit x its grade_decimal); positional sum or "
        "exact optimum over one-to-one assignments (DP / permutation enumeration); inner = max(0,(best - surplus)/"
        "n_expected); partial_credit=False -> 1 only if every matched item has credit exactly 1 with equal lengths, "
        "else 0; grade = answer credit x inner, maximised over alternatives; |grade - expected| <= 1e-9. Message: an "
        "answer-level token may appear only if lengths are equal and some optimal matching gives every item credit, and "
        "(single alternative) must appear if every optimal matching does. Unordered: grade equal within 1e-12 under "
        "permutations of the submission (all for <= 3 items, 4 drawn ones otherwise; grid: against the sorted "
        "submission). length_error with a wrong count -> StudentFacingError naming both counts; missing_error with a "
        "blank item -> StudentFacingError; otherwise the call must return a grade. Non-trivial = surplus or missing "
        "items together with a partial item credit, or unordered optimum above the positional sum, or a winning grade "
        "scaled by an answer credit < 1, or nesting, or a predicted error; distinct by spec."
        " Every case submits the same text twice to the same grader object (same outcome required); in a third of the cases the subgrader object first serves a rival list grader with the opposite ordering / partial-credit settings.")
ASSUMPTIONS = ["item texts never contain a delimiter character; pads are plain spaces; expected items are non-blank",
               "the item subgrader strips the student's item (TableGrader does), expected items are table keys as written "
               "(a string-form answer keeps the spaces after a delimiter, as the docs warn)",
               "credits come from the palette {0, 0.1, 1/3, 0.5, 0.7, 1} or {0, .25, .5, .75, 1}: a sum of item credits equals the number of "
               "items only when every credit is exactly 1 (a value within 1e-12 of 1 that is not structurally 1 would be "
               "discarded under partial_credit=False)",
               "optimal matchings are compared with tolerance 1e-9 when deciding which matchings the grader may have used",
               "in an ORDERED nested list a surplus inner list is never looked at; whether its blank item / wrong length "
               "raises is left open (either outcome accepted, counted as note 'either')",
               "debug=False, no wrong_msg, no attempt-based credit"]
REQUIRED = {
    # random parts (flat + nested)
    'ordered': 1500, 'unordered': 1500, 'pc-false': 1000, 'surplus': 300, 'missing': 250,
    'surplus+partial-credit': 200, 'missing+partial-credit': 120, 'optimum-beats-positional': 500,
    'answer-credit<1': 300, 'alt-lists>1': 1200, 'expect-tuple': 500, 'item-alternatives': 900,
    'delim/::': 500, 'delim/;': 1000, 'delim/|': 500, 'form/string': 700, 'form/infer': 500, 'form/list': 1700,
    'nested': 1800, 'nested/string-or-infer': 350, 'blank-graded': 300, 'spaces': 2500,
    'error/length': 250, 'error/missing': 350, 'error/inner': 150,
    'msg/shown': 450, 'msg/withheld-zero-item': 900, 'msg/must-appear': 130,
    'pc-false/full': 170, 'pc-false/zeroed-partial': 400, 'pc-false/full-with-credit<1': 40,
    'perm-invariance-checked': 700, 'grade/partial': 800, 'grade/clamped-at-0': 200,
    # exhaustive parts (deterministic counts; lower bounds)
    'grid/optimum-beats-positional': 20000, 'grid/surplus+partial-credit': 5000, 'grid/missing+partial-credit': 500,
    'grid/grade/clamped-at-0': 30000, 'grid/pc-false/full-with-credit<1': 4000, 'grid/msg/must-appear': 70000,
    'grid/msg/withheld-zero-item': 70000, 'grid/perm-invariance-checked': 100000, 'grid/error/length': 3700,
    'grid/error/missing': 2000, 'grid/blank-graded': 2000,
}

TOL = 1e-9
PERM_TOL = 1e-12
PAL = [0, 0.1, 1 / 3, 0.5, 0.7, 1]


class PredictedError(Exception):
    """The oracle expects a student-facing error (kind = 'length' | 'missing' | 'inner')."""

    def __init__(self, kind, counts=None):
        super().__init__(kind)
        self.kind = kind
        self.counts = counts


def numbers_in(text):
    return [int(x) for x in re.findall(r'\d+', text)]


def check_result_shape(res):
    if not isinstance(res, dict) or 'grade_decimal' not in res or 'msg' not in res:
        raise Violation('result-shape', 'grader returned %r' % (res,))
    g = res['grade_decimal']
    if isinstance(g, bool) or not isinstance(g, (int, float)) or g != g:
        raise Violation('result-shape', 'grade_decimal is %r' % (g,))
    return g


# ----------------------------------------------------------------------------------------------------
# exhaustive grid: the student's item name spells its credit against each expected item


GRID_VALS = {'V3': [0, 0.5, 1], 'V2': [0, 1]}
_GRID = {}


def grid_name(digits):
    return 'x' + ''.join(str(d) for d in digits)


def grid_grader(vname, ne, ordered, pc, cred):
    key = (vname, ne, ordered, pc, cred)
    if key not in _GRID:
        vals = GRID_VALS[vname]
        enames = ['e%d' % j for j in range(ne)]
        table = {e: {} for e in enames}
        for digits in itertools.product(range(len(vals)), repeat=ne):
            for j, e in enumerate(enames):
                c = vals[digits[j]]
                table[e][grid_name(digits)] = [c, 'it' if c > 0 else '']
        _GRID[key] = SingleListGrader(
            answers={'expect': enames, 'grade_decimal': cred, 'msg': 'TOP0'},
            subgrader=TableGrader(table=table), ordered=ordered, partial_credit=pc)
    return _GRID[key]


def items_grid(tier):
    shapes = [('V3', ne, ns) for ne in (1, 2, 3) for ns in (1, 2, 3)] + [('V3', 1, 4), ('V3', 2, 4)]
    shapes += [('V2', ne, ns) for ne in (1, 2, 3, 4) for ns in (1, 2, 3, 4) if ne == 4 or ns == 4]
    for vname, ne, ns in shapes:
        if vname == 'V2' and ne == 4 and ns == 4:
            continue    # 16^4 submissions: left to the random parts
        nv = len(GRID_VALS[vname])
        names = list(itertools.product(range(nv), repeat=ne))
        for sub in itertools.product(names, repeat=ns):
            yield {'v': vname, 'ne': ne, 'sub': [list(d) for d in sub]}


def judge_grid(spec, rec):
    vals = GRID_VALS[spec['v']]
    ne, sub = spec['ne'], spec['sub']
    ns = len(sub)
    m = max(ne, ns)
    credit = [[(vals[sub[i][j]] if (i < ns and j < ne) else 0) for i in range(m)] for j in range(m)]   # [answer][input]
    surplus = max(0, ns - ne)
    text = ', '.join(grid_name(d) for d in sub)
    sorted_text = ', '.join(grid_name(d) for d in sorted(sub))
    obs = {}
    partial_entries = any(0 < vals[d] < 1 for row in sub for d in row)
    for ordered in (False, True):
        if ordered:
            tot = sum(credit[k][k] for k in range(m))
            perms = [tuple(range(m))]
        else:
            tot, perms = best_assignments(credit, tol=TOL)
        positional = sum(credit[k][k] for k in range(m))
        awarded = [all(credit[a][p[a]] > 0 for a in range(m)) for p in perms]
        some, every = any(awarded), all(awarded)
        raw = (tot - surplus) / ne          # dyadic values: exact
        for pc in (True, False):
            inner = max(0, raw)
            if not pc:
                inner = 1 if raw == 1 else 0
            for cred in (1, 0.5):
                want = cred * inner
                g = grid_grader(spec['v'], ne, ordered, pc, cred)
                res = g(None, text)
                rec.calls()
                got = check_result_shape(res)
                tag = '%s/pc=%s/cred=%s' % ('ordered' if ordered else 'unordered', pc, cred)
                if abs(got - want) > TOL:
                    raise Violation(classify_grade(got, want, cred, tot, surplus, ne, ns, pc, positional, ordered),
                                    '%s: grade %r, formula gives %r (best total %r, surplus %d, n_expected %d)'
                                    % (tag, got, want, tot, surplus, ne), result=res)
                has = 'TOP0' in res['msg']
                if has and not some:
                    raise Violation('msg/shown-with-zero-credit-item',
                                    '%s: answer message shown although some item earned no credit' % tag, result=res)
                if every and not has:
                    raise Violation('msg/withheld', '%s: every item earned credit but the answer message is absent'
                                    % tag, result=res)
                if not ordered and sorted_text != text:
                    res2 = g(None, sorted_text)
                    rec.calls()
                    if abs(check_result_shape(res2) - got) > PERM_TOL:
                        raise Violation('perm-variance', '%s: grade %r but %r for the sorted submission'
                                        % (tag, got, res2['grade_decimal']), result=res, sorted=res2)
                    rec.cls('grid/perm-invariance-checked')
                obs[tag] = got
        if not ordered and tot > positional + TOL:
            rec.cls('grid/optimum-beats-positional')
            rec.nontrivial()
        rec.cls('grid/ordered' if ordered else 'grid/unordered', 4)
        rec.cls('grid/pc-false', 2)
        rec.cls('grid/answer-credit<1', 2)
        if raw > 0:
            rec.nontrivial()    # a positive grade is also scaled by the answer credit 0.5
        if 0 < max(0, raw) < 1:
            rec.cls('grid/grade/partial', 2)
            rec.cls('grid/pc-false/zeroed-partial', 2)
        if raw < 0:
            rec.cls('grid/grade/clamped-at-0', 4)
        if raw == 1:
            rec.cls('grid/pc-false/full', 2)
            rec.cls('grid/pc-false/full-with-credit<1')
        if some:
            rec.cls('grid/msg/shown', 4)
        if every:
            rec.cls('grid/msg/must-appear', 4)
        if ns == ne and not some:
            rec.cls('grid/msg/withheld-zero-item', 4)
    rec.cls('grid/form/list')
    if surplus:
        rec.cls('grid/surplus')
        if partial_entries:
            rec.cls('grid/surplus+partial-credit')
            rec.nontrivial()
    if ns < ne:
        rec.cls('grid/missing')
        if partial_entries:
            rec.cls('grid/missing+partial-credit')
            rec.nontrivial()
    return obs


def classify_grade(got, want, cred, tot, surplus, ne, ns, pc, positional, ordered):
    """Root-cause bucket of a wrong grade: which well-known wrong formula reproduces the observed value?"""
    def close(a, b):
        return abs(a - b) <= TOL
    raw = (tot - surplus) / ne
    if not pc:
        if close(got, cred * max(0, raw)):
            return 'grade/partial-credit-switch-ignored'
        if want > 0 and close(got, 0):
            return 'grade/partial-credit-false-zeroes-full-marks'
        return 'grade/partial-credit-false'
    if raw < 0 and close(got, cred * raw):
        return 'grade/not-clamped-at-zero'
    if surplus and close(got, cred * max(0, tot / ne)):
        return 'grade/surplus-not-penalised'
    if ns != ne and close(got, cred * max(0, (tot - surplus) / ns)):
        return 'grade/divided-by-submitted-length'
    if ns < ne and close(got, cred * max(0, (tot - (ne - ns)) / ne)):
        return 'grade/missing-penalised'
    if not ordered and close(got, cred * max(0, (positional - surplus) / ne)):
        return 'grade/positional-when-unordered'
    if cred != 1 and close(got, max(0, raw)):
        return 'grade/answer-credit-not-applied'
    if not ordered and got < want:
        return 'grade/suboptimal-matching'
    return 'grade/formula'


# ----------------------------------------------------------------------------------------------------
# exhaustive error grid

ERR_ITEMS = ['', ' ', 'a', ' b ']
ERR_TABLE = {'e0': {'a': [1, ''], 'b': [0.5, ''], '': [0.5, '']},
             'e1': {'a': [0, ''], 'b': [1, ''], '': [0, '']},
             'e2': {'a': [0.5, ''], 'b': [0, ''], '': [1, '']}}
_ERRG = {}


def err_grader(ne, le, me, ordered):
    key = (ne, le, me, ordered)
    if key not in _ERRG:
        _ERRG[key] = SingleListGrader(answers=['e%d' % j for j in range(ne)], subgrader=TableGrader(table=ERR_TABLE),
                                      length_error=le, missing_error=me, ordered=ordered)
    return _ERRG[key]


def items_grid_errors(tier):
    for ne in (1, 2, 3):
        for ns in (1, 2, 3, 4):
            for sub in itertools.product(range(len(ERR_ITEMS)), repeat=ns):
                for le in (False, True):
                    for me in (False, True):
                        for ordered in (False, True):
                            yield {'ne': ne, 'sub': list(sub), 'le': le, 'me': me, 'ordered': ordered}


def judge_grid_errors(spec, rec):
    ne, le, me, ordered = spec['ne'], spec['le'], spec['me'], spec['ordered']
    items = [ERR_ITEMS[k] for k in spec['sub']]
    ns = len(items)
    text = ','.join(items)
    g = err_grader(ne, le, me, ordered)
    kind, val = call(g, None, text)
    rec.calls()
    blank = [it.strip() == '' for it in items]
    if le and ns != ne:
        expect_error(kind, val, PredictedError('length', (ne, ns)), rec, 'grid/')
        return {'error': 'length'}
    if me and any(blank):
        expect_error(kind, val, PredictedError('missing'), rec, 'grid/')
        return {'error': 'missing'}
    if kind == 'err':
        raise Violation('unexpected-error', 'no length/missing error applies but the grader raised %s: %s'
                        % (type(val).__name__, val), input=text)
    got = check_result_shape(val)
    m = max(ne, ns)
    credit = [[(ERR_TABLE['e%d' % j].get(items[i].strip(), [0, ''])[0] if (i < ns and j < ne) else 0)
               for i in range(m)] for j in range(m)]
    positional = sum(credit[k][k] for k in range(m))
    tot = positional if ordered else best_assignments(credit, tol=TOL)[0]
    surplus = max(0, ns - ne)
    want = max(0, (tot - surplus) / ne)
    if abs(got - want) > TOL:
        raise Violation(classify_grade(got, want, 1, tot, surplus, ne, ns, True, positional, ordered),
                        'grade %r, formula gives %r for %r' % (got, want, text), result=val)
    if any(blank):
        rec.cls('grid/blank-graded')
    rec.cls('grid/ordered' if ordered else 'grid/unordered')
    if 0 < want < 1:
        rec.cls('grid/grade/partial')
    return {'grade': got}


def expect_error(kind, val, pred, rec, prefix=''):
    """The oracle predicted a student-facing error of the given kind."""
    if kind == 'ok':
        raise Violation('%s-error/graded-instead' % pred.kind,
                        'a %s error was due but the submission was graded: %r' % (pred.kind, val))
    if not isinstance(val, StudentFacingError):
        raise Violation('%s-error/not-student-facing' % pred.kind, 'raised %s: %s' % (type(val).__name__, val))
    if pred.kind == 'length' and pred.counts is not None:
        nums = numbers_in(str(val))
        if pred.counts[0] not in nums or pred.counts[1] not in nums:
            raise Violation('length-error/counts', 'expected %d items, received %d, but the message is %r'
                            % (pred.counts[0], pred.counts[1], str(val)))
    rec.cls(prefix + 'error/' + pred.kind)
    rec.nontrivial()


# ----------------------------------------------------------------------------------------------------
# generic (flat and nested) case: build the grader from the spec


def nlev(spec):
    return len(spec['levels'])


def cfg_leaf(a):
    if a['wrap']:
        return {'expect': a['e'], 'grade_decimal': a['g'], 'msg': a['m']}
    return a['e']


def cfg_alt(spec, d, alt):
    lists = [cfg_list(spec, d, L) for L in alt['lists']]
    ex = lists[0] if len(lists) == 1 and not alt.get('tup') else tuple(lists)
    if alt['wrap']:
        return {'expect': ex, 'grade_decimal': alt['cred'], 'msg': alt['msg']}
    return ex


def cfg_list(spec, d, L):
    if L['form'] == 'string':
        return text_list(spec, d, L)
    return [cfg_child(spec, d + 1, c) for c in L['items']]


def cfg_child(spec, d, alts):
    if d == nlev(spec):
        vals = [cfg_leaf(a) for a in alts]
    else:
        vals = [cfg_alt(spec, d, a) for a in alts]
    return vals[0] if len(vals) == 1 else tuple(vals)


def text_list(spec, d, L):
    return spec['levels'][d]['delim'].join(text_child(spec, d + 1, c) for c in L['items'])


def text_child(spec, d, alts):
    a = alts[0]
    if d == nlev(spec):
        return a['e']
    return text_list(spec, d, a['lists'][0])


def render_sub(spec, d, items):
    """Student text: leaves are [lpad, name, rpad]."""
    if d == nlev(spec):
        return items[0] + items[1] + items[2]
    return spec['levels'][d]['delim'].join(render_sub(spec, d + 1, it) for it in items)


def build_grader(spec):
    g = TableGrader(table=spec['table'])
    for d in reversed(range(nlev(spec))):
        L = spec['levels'][d]
        kw = {'subgrader': g}
        if not (spec.get('omit_defaults') and L['delim'] == ','):
            kw['delimiter'] = L['delim']
        for opt, key, default in (('ordered', 'ordered', False), ('partial_credit', 'pc', True),
                                  ('length_error', 'le', False), ('missing_error', 'me', True)):
            if not (spec.get('omit_defaults') and L[key] == default):
                kw[opt] = L[key]
        if d == 0 and spec['form'] != 'infer':
            vals = [cfg_alt(spec, 0, a) for a in spec['answers']]
            kw['answers'] = vals[0] if len(vals) == 1 and not spec.get('top_tuple') else tuple(vals)
        g = forms.make(SingleListGrader, kw)
    return g


# ----------------------------------------------------------------------------------------------------
# generic oracle


class Ctx(object):
    def __init__(self, spec):
        self.spec = spec
        self.either = False
        self.flags = set()


def is_blank(spec, d, item):
    return render_sub(spec, d, item).strip() == ''


def eval_child(ctx, d, alts, stud):
    """Credit of one expected entry (a tuple of alternatives) for one submitted entry.
    Returns (grade, exact1, can, must): exact1 = structurally exactly 1; can / must = the entry's own result may /
    must count as 'all awarded' for an enclosing answer-level message."""
    spec = ctx.spec
    if d == nlev(spec):
        name = (stud[0] + stud[1] + stud[2]).strip()
        best = 0
        for a in alts:
            c = spec['table'].get(a['e'], {}).get(name, [0, ''])[0] * a['g']
            if c > best:
                best = c
        return best, best == 1, best > 0, best > 0
    return eval_slg(ctx, d, alts, stud)


def eval_slg(ctx, d, alternatives, items, top=None):
    spec = ctx.spec
    cfg = spec['levels'][d]
    ns = len(items)
    ne = len(alternatives[0]['lists'][0]['items'])
    if cfg['le'] and any(len(L['items']) != ns for a in alternatives for L in a['lists']):
        raise PredictedError('length' if d == 0 else 'inner', (ne, ns))
    if cfg['me'] and any(is_blank(spec, d + 1, it) for it in items):
        raise PredictedError('missing' if d == 0 else 'inner')
    results = []
    for k, a in enumerate(alternatives):
        for L in a['lists']:
            r = eval_list(ctx, d, a, L['items'], items)
            results.append(r + (k,))
    best = max(r[0] for r in results)
    near = [r for r in results if r[0] >= best - TOL]
    if top is not None:
        top['results'] = results
        top['best'] = best
    return best, any(r[1] for r in near), any(r[2] for r in near), all(r[3] for r in near)


def eval_list(ctx, d, alt, expected, items):
    spec = ctx.spec
    cfg = spec['levels'][d]
    ne, ns = len(expected), len(items)
    k = min(ne, ns)
    surplus = max(0, ns - ne)
    R = {}
    if cfg['ordered']:
        for j in range(k):
            R[(j, j)] = eval_child(ctx, d + 1, expected[j], items[j])
        # surplus entries are never looked at by a positional comparison: would looking at them raise?
        if d + 1 < nlev(spec):
            for i in range(ne, ns):
                for j in range(ne):
                    try:
                        eval_child(Ctx(spec), d + 1, expected[j], items[i])
                    except PredictedError:
                        ctx.either = True
        tot = sum(R[(j, j)][0] for j in range(k))
        positional = tot
        matchings = [[(j, j) for j in range(k)]]
    else:
        for j in range(ne):
            for i in range(ns):
                R[(j, i)] = eval_child(ctx, d + 1, expected[j], items[i])
        positional = sum(R[(j, j)][0] for j in range(k))
        if ne == ns:
            sq = [[R[(j, i)][0] for i in range(ns)] for j in range(ne)]
            tot, perms = best_assignments(sq, tol=TOL)
            matchings = [[(j, p[j]) for j in range(ne)] for p in perms]
        else:
            tot = -min_cost_matching([[-R[(j, i)][0] for i in range(ns)] for j in range(ne)])
            matchings = []
    if ne == ns:
        can = any(all(R[pr][2] for pr in mt) for mt in matchings)
        must = all(all(R[pr][3] for pr in mt) for mt in matchings)
        if cfg['ordered']:
            exact = all(R[pr][1] for pr in matchings[0])
        else:
            exact = any(all(R[(j, p[j])][1] for j in range(ne)) for p in itertools.permutations(range(ne)))
    else:
        can = must = exact = False
    raw = (tot - surplus) / ne
    inner = max(0, raw)
    if d == 0:
        fl = ctx.flags
        partial_item = any(0 < r[0] < 1 for r in R.values())
        if surplus:
            fl.add('surplus')
            if partial_item:
                fl.add('surplus+partial-credit')
        if ns < ne:
            fl.add('missing')
            if partial_item:
                fl.add('missing+partial-credit')
        if not cfg['ordered'] and tot > positional + TOL:
            fl.add('optimum-beats-positional')
        if raw < 0:
            fl.add('grade/clamped-at-0')
    if not cfg['pc']:
        if exact:
            inner = 1
        elif inner >= 1 - 1e-12:
            raise Discard('partial_credit=False with a total within 1e-12 of full marks')
        else:
            if d == 0 and inner > 0:
                ctx.flags.add('pc-false/zeroed-partial')
            inner = 0
    grade = alt['cred'] * inner
    info = {'tot': tot, 'surplus': surplus, 'ne': ne, 'ns': ns, 'positional': positional, 'cred': alt['cred'],
            'exact': exact}
    return grade, exact and alt['cred'] == 1, can, must, info


def judge_case(spec, rec):
    levels = spec['levels']
    nested = len(levels) > 1
    grader = build_grader(spec)
    text = render_sub(spec, 0, spec['sub'])
    expect_arg = text_list(spec, 0, spec['answers'][0]['lists'][0]) if spec['form'] == 'infer' else None
    if len(text) % 3 == 0:
        # object sharing: the subgrader OBJECT of the list under test also serves a second list grader with the opposite
        # ordering / partial-credit settings, which grades first (an author may reuse one subgrader in several problems)
        L0 = levels[0]
        rival = SingleListGrader(subgrader=grader.config['subgrader'], delimiter=L0['delim'], ordered=not L0['ordered'],
                                 partial_credit=not L0['pc'], length_error=False, missing_error=False)
        exp_text = text_list(spec, 0, spec['answers'][0]['lists'][0])
        call(rival, exp_text, text)
        call(rival, exp_text, exp_text)
        rec.calls(2)
        rec.cls('subgrader-object-shared-with-a-rival-list')
    if spec['form'] == 'infer' and len(text) % 2 == 0:
        # history for graders that infer their answers from the expect value: earlier calls with ANOTHER expected list,
        # the first of which fails while grading (blank item / wrong count) - the judged call brings its own expect value
        # and must be graded against that (a seeded change marked the grader as "inferring" only after a successful call)
        d0 = levels[0]['delim']
        call(grader, 'zq1' + d0 + 'zq2', 'zq1' + d0 + ' ')
        call(grader, 'zq1' + d0 + 'zq2', 'zq1')
        call(grader, 'zq1' + d0 + 'zq2' + d0 + 'zq3', 'zq1' + d0 + 'zq2' + d0 + 'zq3')
        rec.calls(3)
        rec.cls('infer/after-calls-with-another-expect')
    kind, val = call(grader, expect_arg, text)
    rec.calls()
    # the very same submission once more on the same grader object (a student pressing "submit" again, a rescore): same
    # outcome, whether the first call returned or raised (a seeded change remembered the last input before checking it)
    kind2, val2 = call(grader, expect_arg, text)
    rec.calls()
    same = kind2 == kind and (val2 == val if kind == 'ok' else (type(val2) is type(val) and str(val2) == str(val)))
    if not same:
        raise Violation('resubmission/outcome-differs', 'the same submission %r graded twice on one grader object: first %s, '
                        'then %s' % (text, (kind, str(val)[:150]), (kind2, str(val2)[:150])), input=text)

    ctx = Ctx(spec)
    top = {}
    try:
        want, _, _, _ = eval_slg(ctx, 0, spec['answers'], spec['sub'], top=top)
    except PredictedError as pred:
        expect_error(kind, val, pred, rec)
        classify_case(spec, rec, ctx, nested)
        return {'error': pred.kind, 'raised': type(val).__name__}
    if kind == 'err':
        if ctx.either and isinstance(val, StudentFacingError):
            rec.note('either/raised')
            return {'either': 'raised'}
        raise Violation('unexpected-error', 'no length/missing error applies but the grader raised %s: %s'
                        % (type(val).__name__, val), input=text)
    if ctx.either:
        rec.note('either/graded')
    got = check_result_shape(val)
    if abs(got - want) > TOL:
        key = 'grade/formula'
        if not nested:
            # classify against the alternative that the formula says wins
            cands = [r for r in top['results'] if abs(r[0] - want) <= TOL]
            i = cands[0][4]
            key = classify_grade(got, want, i['cred'], i['tot'], i['surplus'], i['ne'], i['ns'], levels[0]['pc'],
                                 i['positional'], levels[0]['ordered'])
        else:
            key = 'nested/' + key
        raise Violation(key, 'grade %r, formula gives %r for input %r' % (got, want, text), result=val)

    # answer-level message
    msg = val['msg']
    single = len(spec['answers']) == 1 and len(spec['answers'][0]['lists']) == 1
    for k, a in enumerate(spec['answers']):
        if not a['msg']:
            continue
        rs = [r for r in top['results'] if r[-1] == k]
        can = any(r[2] for r in rs)
        must = all(r[3] for r in rs)
        has = a['msg'] in msg
        if has and not can:
            raise Violation('msg/shown-with-zero-credit-item',
                            'message %r of answer %d shown although no optimal matching gives every item credit'
                            % (a['msg'], k), result=val, input=text)
        if has:
            rec.cls('msg/shown')
        elif rs[0][4]['ne'] == rs[0][4]['ns']:
            rec.cls('msg/withheld-zero-item')
        if single and must:
            if not has:
                raise Violation('msg/withheld', 'every item earned credit but message %r is absent' % a['msg'],
                                result=val, input=text)
            rec.cls('msg/must-appear')

    # permutation invariance
    if not levels[0]['ordered'] and spec.get('perms'):
        for p in spec['perms']:
            sub2 = [spec['sub'][i] for i in p]
            text2 = render_sub(spec, 0, sub2)
            if text2 == text:
                continue
            k2, v2 = call(grader, expect_arg, text2)
            rec.calls()
            if k2 == 'err':
                raise Violation('perm-variance/raises', 'graded %r but the permuted submission %r raises %s: %s'
                                % (text, text2, type(v2).__name__, v2))
            g2 = check_result_shape(v2)
            if abs(g2 - got) > PERM_TOL:
                raise Violation('perm-variance', 'grade %r for %r but %r for %r' % (got, text, g2, text2))
        rec.cls('perm-invariance-checked')

    classify_case(spec, rec, ctx, nested)
    winners = [r for r in top['results'] if abs(r[0] - want) <= TOL]
    if want > 0 and all(r[4]['cred'] < 1 for r in winners):
        rec.cls('answer-credit<1')
        rec.nontrivial()
        if not levels[0]['pc'] and any(r[4]['exact'] for r in winners):
            rec.cls('pc-false/full-with-credit<1')
    if not levels[0]['pc'] and any(r[4]['exact'] for r in winners) and want > 0:
        rec.cls('pc-false/full')
    if 0 < want < 1:
        rec.cls('grade/partial')
    for f in ctx.flags:
        rec.cls(f)
    if ctx.flags & {'surplus+partial-credit', 'missing+partial-credit', 'optimum-beats-positional'}:
        rec.nontrivial()
    if any(is_blank(spec, 1, it) for it in spec['sub']):
        rec.cls('blank-graded')
    return {'grade': got, 'want': want, 'msg': msg[:80]}


def classify_case(spec, rec, ctx, nested):
    L0 = spec['levels'][0]
    rec.cls('ordered' if L0['ordered'] else 'unordered')
    if not L0['pc']:
        rec.cls('pc-false')
    rec.cls('delim/' + L0['delim'])
    rec.cls('form/' + spec['form'])
    if len(spec['answers']) > 1:
        rec.cls('alt-lists>1')
    if any(len(a['lists']) > 1 for a in spec['answers']):
        rec.cls('expect-tuple')
    if nested:
        rec.cls('nested')
        rec.nontrivial()
        if spec['form'] != 'list':
            rec.cls('nested/string-or-infer')
    else:
        if any(len(c) > 1 for a in spec['answers'] for L in a['lists'] for c in L['items']):
            rec.cls('item-alternatives')
    if spec['form'] == 'list' and any(L['form'] == 'string' for a in spec['answers'] for L in a['lists']):
        rec.cls('form/string-inside-list')
    if ' ' in render_sub(spec, 0, spec['sub']):
        rec.cls('spaces')


# ----------------------------------------------------------------------------------------------------
# strategies

CREDIT = st.sampled_from([0, 0, 0, 0, 0.1, 1 / 3, 0.5, 0.7, 1, 1, 1.0])
ITEM_GRADE = st.sampled_from([1, 1, 1, 1.0, 0.5, 0.7, 1 / 3, 0.1, 0])
ANS_CRED = st.sampled_from([1, 1, 1, 1.0, 0.5, 0.7, 0.1, 1 / 3, 0])
PAD = st.sampled_from(['', '', '', ' ', '  '])
EPAD = st.sampled_from(['', '', ' '])


def gen_leaf_entry(draw, pool, plain, padded):
    """One expected item: a list of alternatives {'e','g','m','wrap'}."""
    def name():
        n = draw(st.sampled_from(pool))
        if padded:
            n = draw(EPAD) + n + draw(EPAD)
        return n
    if plain:
        return [{'e': name(), 'g': 1, 'm': '', 'wrap': False}]
    alts = []
    for _ in range(draw(st.sampled_from([1, 1, 1, 2, 3]))):
        g = draw(ITEM_GRADE)
        m = draw(st.sampled_from(['', '', 'lm']))
        wrap = True if (m or g != 1) else draw(st.booleans())
        if not wrap:
            g = 1
        alts.append({'e': name(), 'g': g, 'm': m, 'wrap': wrap})
    return alts


def gen_alternatives(draw, d, depth, n_items, pool, plain_all, msg_prefix, inner_len, max_alts):
    """Alternatives of a SingleListGrader at depth d (depth = number of levels): each {'cred','msg','wrap','lists'}."""
    n_alts = 1 if plain_all else draw(st.sampled_from([1, 1, 2, 3][:max_alts + 1]))
    out = []
    for k in range(n_alts):
        if plain_all:
            cred, msg, n_lists = 1, '', 1
        else:
            cred = draw(ANS_CRED)
            msg = draw(st.sampled_from(['', '%s%d' % (msg_prefix, k), '%s%d' % (msg_prefix, k)]))
            n_lists = draw(st.sampled_from([1, 1, 1, 1, 2]))
        lists = []
        for _ in range(n_lists):
            form = 'string' if plain_all else draw(st.sampled_from(['list', 'list', 'list', 'string']))
            plain = form == 'string'
            items = []
            for _j in range(n_items):
                if d + 1 == depth:
                    items.append(gen_leaf_entry(draw, pool, plain, padded=plain))
                else:
                    items.append(gen_alternatives(draw, d + 1, depth, inner_len(draw), pool, plain, 'INN', inner_len,
                                                  2))
            lists.append({'form': form, 'items': items})
        wrap = True if (msg or cred != 1 or n_lists > 1) else draw(st.booleans())
        if not wrap:
            cred = 1
        alt = {'cred': cred, 'msg': msg, 'wrap': wrap, 'lists': lists}
        if n_lists == 1 and wrap and not plain_all and draw(st.integers(0, 5)) == 0:
            alt['tup'] = True
        out.append(alt)
    return out


def gen_leaf_sub(draw, pool, blank):
    name = '' if blank else draw(st.sampled_from(pool))
    return [draw(PAD), name, draw(PAD)]


def collect_enames(depth, d, alternatives, acc):
    for a in alternatives:
        for L in a['lists']:
            for c in L['items']:
                if d + 1 == depth:
                    for leaf in c:
                        acc.add(leaf['e'])
                else:
                    collect_enames(depth, d + 1, c, acc)


def collect_snames(depth, d, items, acc):
    for it in items:
        if d + 1 == depth:
            acc.add(it[1])
        else:
            collect_snames(depth, d + 1, it, acc)


def plant(draw, spec, d, alternatives, items, mode):
    """Make the first list of the first alternative fit the submission (perfectly / with positive credit)."""
    depth = nlev(spec)
    a = alternatives[0]
    exp = a['lists'][0]['items']
    k = min(len(exp), len(items))
    order = list(range(len(items)))
    if not spec['levels'][d]['ordered'] and len(items) > 1:
        order = list(draw(st.permutations(order)))
    for j in range(k):
        stud = items[order[j]]
        if d + 1 == depth:
            leaf = exp[j][0]
            row = spec['table'].setdefault(leaf['e'], {})
            cur = row.get(stud[1], [0, ''])
            if mode == 'perfect':
                row[stud[1]] = [1, cur[1]]
                leaf['g'] = 1
            elif cur[0] == 0 or leaf['g'] == 0:
                row[stud[1]] = [cur[0] or 0.5, cur[1]]
                if leaf['g'] == 0:
                    leaf['g'] = 0.5
                    leaf['wrap'] = True
        else:
            if mode == 'perfect' and exp[j][0]['cred'] != 1 and draw(st.booleans()):
                exp[j][0]['cred'] = 1
            elif mode == 'positive' and exp[j][0]['cred'] == 0:
                exp[j][0]['cred'] = 0.5
                exp[j][0]['wrap'] = True
            plant(draw, spec, d + 1, exp[j], stud, mode)


def gen_levels(draw, depth):
    if depth == 1:
        delims = [draw(st.sampled_from([',', ',', ';', '|', '::']))]
    else:
        delims = list(draw(st.sampled_from([(';', ','), (';', ','), (';', ','), ('|', ','), (';', '::'), ('::', ';'),
                                            (',', '|')])))
    levels = []
    for d in range(depth):
        levels.append({'delim': delims[d], 'ordered': draw(st.booleans()),
                       'pc': draw(st.sampled_from([True, True, False])),
                       'le': draw(st.sampled_from([False, False, False, True])),
                       'me': draw(st.sampled_from([True, True, False]))})
    return levels


@st.composite
def case_specs(draw, depth, tier):
    levels = gen_levels(draw, depth)
    if depth == 2:
        # an inner length check is only modelled when it cannot fire between lists of different expected lengths
        levels[1]['le'] = levels[1]['le'] and draw(st.booleans())
    form = draw(st.sampled_from(['list', 'list', 'list', 'list', 'infer', 'allstring']))
    spec = {'levels': levels, 'form': 'infer' if form == 'infer' else 'list',
            'omit_defaults': draw(st.booleans())}
    max_ne = 5 if depth == 1 else 3
    ne = draw(st.integers(1, max_ne))
    same = draw(st.booleans()) if levels[0]['le'] else draw(st.sampled_from([True, True, False]))
    hi = 7 if depth == 1 else 4
    ns = ne if same else draw(st.sampled_from([st.integers(1, hi), st.integers(1, hi), st.integers(1, ne),
                                               st.integers(ne, hi)]).flatmap(lambda x: x))
    fixed_inner = draw(st.sampled_from([0, 0, 1, 2, 3])) if depth == 2 else 0
    if depth == 2 and levels[1]['le'] and not fixed_inner:
        fixed_inner = draw(st.integers(1, 3))

    def inner_len(dr):
        return fixed_inner or dr(st.integers(1, 3))

    pool = ['e%d' % i for i in range(draw(st.integers(2, 6)))]
    plain_all = form in ('infer', 'allstring')
    answers = gen_alternatives(draw, 0, depth, ne, pool, plain_all, 'TOP', inner_len, 3)
    if form == 'allstring':
        spec['form'] = 'string'
        # several string-form alternatives, possibly wrapped with credit and message
        for k in range(draw(st.sampled_from([0, 0, 1, 2]))):
            extra = gen_alternatives(draw, 0, depth, ne, pool, True, 'TOP', inner_len, 3)[0]
            answers.append(extra)
        for k, a in enumerate(answers):
            if draw(st.booleans()):
                a['wrap'] = True
                a['cred'] = draw(ANS_CRED)
                a['msg'] = draw(st.sampled_from(['', 'TOP%d' % k]))
    elif spec['form'] == 'list' and any(L['form'] == 'string' for a in answers for L in a['lists']) \
            and all(L['form'] == 'string' for a in answers for L in a['lists']):
        spec['form'] = 'string'
    spec['answers'] = answers
    if len(answers) == 1 and spec['form'] != 'infer':
        spec['top_tuple'] = draw(st.integers(0, 4)) == 0

    # the submission
    spool = ['s%d' % i for i in range(max(2, ns))]
    me_all = all(L['me'] for L in levels)
    nblank = draw(st.sampled_from([0] * 7 + [1, 2])) if levels[0]['me'] else draw(st.sampled_from([0, 0, 0, 1, 1, 2]))
    if depth == 1:
        sub = [gen_leaf_sub(draw, [spool[i]] if draw(st.integers(0, 6)) else spool, False) for i in range(ns)]
        for _ in range(nblank):
            sub[draw(st.integers(0, ns - 1))][1] = ''
    else:
        sub = []
        for i in range(ns):
            want_len = fixed_inner if (fixed_inner and draw(st.integers(0, 5))) else draw(st.integers(1, 4))
            ipool = ['s%d' % (3 * i + t) for t in range(3)] + ['s0', 's1']
            inner = [gen_leaf_sub(draw, ipool[t:t + 1] if (t < 3 and draw(st.integers(0, 4))) else ipool, False)
                     for t in range(want_len)]
            sub.append(inner)
        inner_blank = draw(st.sampled_from([0] * 8 + [1])) if me_all else draw(st.sampled_from([0, 0, 0, 1, 2]))
        for _ in range(inner_blank):
            it = sub[draw(st.integers(0, ns - 1))]
            it[draw(st.integers(0, len(it) - 1))][1] = ''
        for _ in range(nblank):
            sub[draw(st.integers(0, ns - 1))] = [[draw(PAD), '', '']]
    spec['sub'] = sub

    # the credit table
    enames, snames = set(), set()
    collect_enames(depth, 0, answers, enames)
    collect_snames(depth, 0, sub, snames)
    enames, snames = sorted(enames), sorted(snames)
    density = draw(st.sampled_from(['sparse', 'normal', 'normal', 'dense', 'quarters', 'fine']))
    # 'quarters': every submitted item earns something against most expected items, at several distinct levels - the
    # assignment solver then needs several adjustment rounds (a seeded slip in its step 6 only shows there)
    cell = {'sparse': st.sampled_from([0, 0, 0, 0, 0, 0, 0.5, 1]), 'normal': CREDIT,
            'dense': st.sampled_from([0, 0.1, 1 / 3, 0.5, 0.7, 1, 1]),
            'quarters': st.sampled_from([0.25, 0.5, 0.75, 1, 0, 0.25, 0.75, 0.5]),
            # 'fine': competing assignments whose totals differ by a few 1e-4 (a seeded change rounded the assignment
            # costs to three decimals, after which the optimum was no longer found)
            'fine': st.sampled_from([0.5, 0.5004, 0.3, 0.3004, 0.7, 0.7003, 0.2996, 0.4997, 0, 1])}[density]
    if density == 'quarters':
        spec['quarters'] = True
    cells = draw(st.lists(cell, min_size=len(enames) * len(snames), max_size=len(enames) * len(snames)))
    table = {}
    for a, e in enumerate(enames):
        table[e] = {}
        for b, s in enumerate(snames):
            c = cells[a * len(snames) + b]
            table[e][s] = [c, 'it' if (c > 0 and (a + b) % 3 == 0) else '']
    spec['table'] = table
    mode = draw(st.sampled_from(['none', 'none', 'perfect', 'perfect', 'positive']))
    if mode != 'none':
        plant(draw, spec, 0, answers, sub, mode)

    if not levels[0]['ordered'] and ns > 1:
        if ns <= 3:
            spec['perms'] = [list(p) for p in itertools.permutations(range(ns))][1:]
        else:
            nperm = 4 if tier == 'quick' else 8
            spec['perms'] = [list(draw(st.permutations(list(range(ns))))) for _ in range(nperm)]
    return spec


def strat_flat(tier):
    return case_specs(1, tier)


def strat_nested(tier):
    return case_specs(2, tier)


PARTS = [
    Part('grid', 'enum', judge_grid, items=items_grid, exhaustive=True),
    Part('grid_errors', 'enum', judge_grid_errors, items=items_grid_errors, exhaustive=True),
    Part('flat', 'hyp', judge_case, strategy=strat_flat, budget={'quick': 5000, 'thorough': 180000}),
    Part('nested', 'hyp', judge_case, strategy=strat_nested, budget={'quick': 2400, 'thorough': 80000}),
]
