"""Expression generator, renderer and reference evaluator for the formula language.

Semantic trees are JSON-able nested lists:
  ['num', text, value]      number literal as written (incl. suffix) and its exact value (float)
  ['var', name]             variable / constant
  ['call', fname, [args]]   function call
  ['neg', e]  ['pow', b, e]  ['par', [e1..en]]  ['mul'|'div'|'add'|'sub', l, r]
  ['arr', [items]]          vector / matrix literal (items are trees or 'arr' rows)

render()   encodes the *documented* grammar (DESIGN 4.1): parentheses are inserted only where the documented
           precedence / associativity requires them, so a precedence error in the library shows as lib != ref.
refeval()  computes the mathematical value from the tree (never from a string), keeping real values real.
Nothing here imports the library under test.
"""
import cmath
import math
from fractions import Fraction

from hypothesis import strategies as st

from vlib.core import Discard

LEVEL = {'num': 5, 'var': 5, 'call': 5, 'arr': 5, 'pow': 4, 'neg': 3, 'par': 2.5,
         'mul': 2, 'div': 2, 'add': 1, 'sub': 1}

METRIC = {'k': 1e3, 'M': 1e6, 'G': 1e9, 'T': 1e12, 'm': 1e-3, 'u': 1e-6, 'n': 1e-9, 'p': 1e-12}
PERCENT = {'%': 0.01}

# ---------------------------------------------------------------------------------------------------
# number literals: every documented format; the value is computed exactly with Fractions


def _lit_value(ip, fp, ex):
    v = Fraction(int(ip or '0'))
    if fp:
        v += Fraction(int(fp), 10 ** len(fp))
    if ex is not None:
        v *= Fraction(10) ** ex
    return float(v)


@st.composite
def number_literals(draw, suffixes=None, allow_exp=True):
    """-> ['num', text, value].  suffixes: dict name->multiplier that may follow the number."""
    fmt = draw(st.sampled_from(['d', 'd', 'd.', '.d', 'd.d', 'd.d0', 'd.d', 'd']))
    ip = str(draw(st.sampled_from([0, 1, 2, 3, 5, 7, 10, 12, 25, 100, 4, 6, 8, 9])))
    fp = draw(st.sampled_from(['5', '25', '1', '75', '125', '3', '05', '50']))
    if fmt == 'd':
        text, val_ip, val_fp = ip, ip, ''
    elif fmt == 'd.':
        text, val_ip, val_fp = ip + '.', ip, ''
    elif fmt == '.d':
        text, val_ip, val_fp = '.' + fp, '', fp
    elif fmt == 'd.d0':
        text, val_ip, val_fp = ip + '.' + fp + '0', ip, fp + '0'
    else:
        text, val_ip, val_fp = ip + '.' + fp, ip, fp
    ex = None
    if allow_exp and draw(st.integers(0, 9)) < 2:
        ex = draw(st.sampled_from([0, 1, 2, 3, -1, -2, -3]))
        e_char = draw(st.sampled_from(['e', 'E']))
        sign = '-' if ex < 0 else draw(st.sampled_from(['', '+']))
        text += e_char + sign + str(abs(ex))
    val = _lit_value(val_ip, val_fp, ex)
    if suffixes and draw(st.integers(0, 9)) < 3:
        s = draw(st.sampled_from(sorted(suffixes)))
        # a suffix letter directly after digits: 'e'/'E' would be read as an exponent marker only when digits
        # follow; our suffix names never start with e/E
        text += s
        val = val * suffixes[s]
    return ['num', text, val]


# names of every documented shape
VAR_NAMES = ['x', 'y2', 'x_1', 'a_b', 'T_{1}', 'T_{-2}^{ab}', 'U^{3}', "x'", "f''", 'a_{12}', 'xx', 'x1', 'X',
             'z', 'w_{0}', 'theta', 'kT', 'm_e', "y_1'", 'Q^{-1}']


def default_env(values):
    """values: list of [re, im] (im == 0 -> real float) aligned with VAR_NAMES."""
    env = {}
    for name, (re, im) in zip(VAR_NAMES, values):
        env[name] = float(re) if im == 0 else complex(re, im)
    env.update({'pi': math.pi, 'e': math.e, 'i': 1j, 'j': 1j})
    return env


def env_values(real_only=False):
    nice = st.sampled_from([0.6, 1.7, -0.6, 2.5, 0.3, 1.25, -1.5, 3.0, 0.8, -2.2, 1.1, 0.45, 5.0, -0.9])
    re = st.one_of(nice, st.floats(-4, 4, allow_nan=False).map(lambda v: round(v, 3)).filter(lambda v: abs(v) > 0.05))
    im = st.just(0.0) if real_only else st.one_of(st.just(0.0), st.just(0.0),
                                                  st.sampled_from([0.8, -0.4, 1.5, 0.25, -2.0]))
    return st.lists(st.tuples(re, im).map(list), min_size=len(VAR_NAMES), max_size=len(VAR_NAMES))


# ---------------------------------------------------------------------------------------------------
# reference functions (keep reals real; discard near poles / branch cuts)


def _is_c(z):
    return isinstance(z, complex)


def _near_cut_negreal(z):
    return _is_c(z) and z.real < 0 and abs(z.imag) <= 1e-9 * abs(z)


def _r(fr, fc):
    def f(z):
        return fc(z) if _is_c(z) else fr(z)
    return f


def _sqrt(z):
    if _is_c(z):
        if _near_cut_negreal(z):
            raise Discard('branch-cut')
        return cmath.sqrt(z)
    return math.sqrt(z) if z >= 0 else 1j * math.sqrt(-z)


def _ln(z):
    if abs(z) < 1e-9:
        raise Discard('pole')
    if _is_c(z):
        if _near_cut_negreal(z):
            raise Discard('branch-cut')
        return cmath.log(z)
    return math.log(z) if z > 0 else complex(math.log(-z), math.pi)


def _exp(z):
    if (z.real if _is_c(z) else z) > 60:
        raise Discard('overflow')
    return cmath.exp(z) if _is_c(z) else math.exp(z)


def _tan(z):
    c = cmath.cos(z) if _is_c(z) else math.cos(z)
    if abs(c) < 1e-3:
        raise Discard('pole')
    return cmath.tan(z) if _is_c(z) else math.tan(z)


def _big(z, lim=300):
    if abs(z.imag if _is_c(z) else 0) > lim or abs(z.real if _is_c(z) else z) > lim:
        raise Discard('overflow')


def _sinh(z):
    _big(z)
    return cmath.sinh(z) if _is_c(z) else math.sinh(z)


def _cosh(z):
    _big(z)
    return cmath.cosh(z) if _is_c(z) else math.cosh(z)


def _sin(z):
    _big(z)
    return cmath.sin(z) if _is_c(z) else math.sin(z)


def _cos(z):
    _big(z)
    return cmath.cos(z) if _is_c(z) else math.cos(z)


def _arctan(z):
    if _is_c(z):
        if abs(z - 1j) < 1e-3 or abs(z + 1j) < 1e-3 or (abs(z.real) <= 1e-9 * abs(z) and abs(z.imag) >= 1):
            raise Discard('branch-cut')
        return cmath.atan(z)
    return math.atan(z)


def _re(z):
    return z.real if _is_c(z) else z


def _im(z):
    return z.imag if _is_c(z) else 0.0


def _conj(z):
    return z.conjugate() if _is_c(z) else z


def _minmax(fn):
    def f(*a):
        if any(_is_c(x) for x in a):
            raise Discard('complex-into-real-function')
        return fn(a)
    return f


def _recip(fn):
    """Reciprocal functions of the default table (sec = 1/cos ...), away from their poles."""
    def f(z):
        d = fn(z)
        if abs(d) < 1e-3:
            raise Discard('pole')
        return 1 / d
    return f


# name -> (arities, implementation)
REF_FUNCS = {
    'sec': ((1,), _recip(_cos)), 'csc': ((1,), _recip(_sin)), 'cot': ((1,), _recip(_tan)),
    'sech': ((1,), _recip(_cosh)), 'csch': ((1,), _recip(_sinh)),
    'coth': ((1,), lambda z: _recip(_sinh)(z) * _cosh(z)),
    'log10': ((1,), lambda z: _ln(z) / math.log(10)), 'log2': ((1,), lambda z: _ln(z) / math.log(2)),
    'sin': ((1,), _sin), 'cos': ((1,), _cos), 'tan': ((1,), _tan), 'exp': ((1,), _exp),
    'sqrt': ((1,), _sqrt), 'abs': ((1,), abs), 'ln': ((1,), _ln), 'arctan': ((1,), _arctan),
    'sinh': ((1,), _sinh), 'cosh': ((1,), _cosh), 're': ((1,), _re), 'im': ((1,), _im), 'conj': ((1,), _conj),
    'min': ((2, 3), _minmax(min)), 'max': ((2, 3), _minmax(max)),
    # user functions (the checks supply the same definitions to the library as plain Python callables)
    'f': ((1,), lambda x: x * x + 1), 'g': ((2,), lambda x, y: x * y - 1), "f'": ((1,), lambda x: 2 * x),
    'sq_2': ((1,), lambda x: x * x),
}
USER_FUNCS = {'f': lambda x: x * x + 1, 'g': lambda x, y: x * y - 1, "f'": lambda x: 2 * x,
              'sq_2': lambda x: x * x}


class EvalState:
    def __init__(self):
        self.maxmag = 1.0


def _chk(v, st_):
    if isinstance(v, (float, complex, int)):
        if v != v or abs(v) > 1e12:
            raise Discard('magnitude')
        a = abs(v)
        if a > st_.maxmag:
            st_.maxmag = a
    return v


def refeval(t, env, st_=None, funcs=REF_FUNCS):
    """Value of tree t under env (dict name -> float|complex).  Raises Discard where no sound judgement exists."""
    if st_ is None:
        st_ = EvalState()
    k = t[0]
    try:
        if k == 'num':
            v = float(t[2])
        elif k == 'var':
            v = env[t[1]]
            if isinstance(v, int):
                v = float(v)
        elif k == 'call':
            args = [refeval(a, env, st_, funcs) for a in t[2]]
            v = funcs[t[1]][1](*args)
        elif k == 'neg':
            v = -refeval(t[1], env, st_, funcs)
        elif k == 'pow':
            b = refeval(t[1], env, st_, funcs)
            e = refeval(t[2], env, st_, funcs)
            if abs(b) < 1e-9:
                raise Discard('zero-base')
            if abs(e) > 40:
                raise Discard('big-exponent')
            nonint = _is_c(e) or e != int(e)
            if nonint and _near_cut_negreal(b):
                raise Discard('branch-cut')
            if _is_c(b) and not _is_c(e) and e == int(e):
                v = b ** int(e)
            else:
                v = b ** e
        elif k == 'par':
            vs = [refeval(a, env, st_, funcs) for a in t[1]]
            if any(abs(x) < 1e-9 for x in vs):
                raise Discard('zero-in-parallel')
            s = sum(1 / x for x in vs)
            if abs(s) < 1e-9 * max(abs(1 / x) for x in vs) * 1e3:
                raise Discard('parallel-pole')
            v = 1 / s
        elif k in ('mul', 'div', 'add', 'sub'):
            a = refeval(t[1], env, st_, funcs)
            b = refeval(t[2], env, st_, funcs)
            if k == 'mul':
                v = a * b
            elif k == 'div':
                if abs(b) < 1e-9:
                    raise Discard('zero-divisor')
                v = a / b
            elif k == 'add':
                v = a + b
            else:
                v = a - b
        else:
            raise ValueError('refeval: unknown node ' + str(k))
    except (OverflowError, ZeroDivisionError, ValueError) as e:
        if isinstance(e, ValueError) and 'unknown node' in str(e):
            raise
        raise Discard('arith-' + type(e).__name__)
    return _chk(v, st_)


def perturb_env(env, eps=1e-12):
    return {k: (v * (1 + eps) if k not in ('pi', 'e', 'i', 'j') else v) for k, v in env.items()}


def ref_with_conditioning(t, env, funcs=REF_FUNCS):
    """-> (value, tolerance).  tolerance = 1e-9*max(1,|v|,largest intermediate) ; Discard if a 1e-12 relative
    perturbation of the variables moves the value by more than a tenth of that tolerance (ill-conditioned)."""
    st_ = EvalState()
    v = refeval(t, env, st_, funcs)
    tol = 1e-9 * max(1.0, abs(v), st_.maxmag)
    try:
        v2 = refeval(t, perturb_env(env), EvalState(), funcs)
    except Discard:
        raise Discard('ill-conditioned')
    if abs(v2 - v) > tol / 10:
        raise Discard('ill-conditioned')
    return v, tol


# ---------------------------------------------------------------------------------------------------
# rendering


class Tape:
    """Deterministic source of small choices taken from the spec (so that the rendering is replayable)."""

    def __init__(self, data):
        self.data = list(data or [])
        self.i = 0

    def next(self, n):
        if self.i < len(self.data):
            v = self.data[self.i] % n
        else:
            v = 0
        self.i += 1
        return v


def render_tokens(t, style=None):
    """-> list of tokens.  style: {'minus': '-'|'—', 'redundant': int 0..9 (probability/10 of an extra pair
    of parentheses per node), 'tape': [ints], 'lead_plus': bool}"""
    style = style or {}
    minus = style.get('minus', '-')
    red = style.get('redundant', 0)
    tape = Tape(style.get('tape'))

    def wrap(toks):
        return ['('] + toks + [')']

    def r(t):
        k = t[0]
        if k == 'num':
            # the exponent sign of a literal may be written with the em-dash too
            out = [t[1].replace('-', minus) if minus != '-' and tape.next(2) == 0 else t[1]]
        elif k == 'var':
            out = [t[1]]
        elif k == 'call':
            out = [t[1], '(']
            for n, a in enumerate(t[2]):
                if n:
                    out.append(',')
                out += r(a)
            out.append(')')
        elif k == 'arr':
            out = ['[']
            for n, a in enumerate(t[1]):
                if n:
                    out.append(',')
                out += r(a)
            out.append(']')
        elif k == 'neg':
            c = t[1]
            cs = r(c)
            out = [minus] + (cs if LEVEL[c[0]] >= 4 else wrap(cs))
        elif k == 'pow':
            b, e = t[1], t[2]
            bs = r(b)
            if LEVEL[b[0]] < 5:
                bs = wrap(bs)
            if e[0] == 'neg' and LEVEL[e[1][0]] >= 4:
                es = [minus] + r(e[1])
            elif LEVEL[e[0]] >= 4:
                es = r(e)
            else:
                es = wrap(r(e))
            out = bs + ['^'] + es
        elif k == 'par':
            out = []
            for n, a in enumerate(t[1]):
                if n:
                    out.append('||')
                out += r(a) if LEVEL[a[0]] >= 3 else wrap(r(a))
        elif k in ('mul', 'div'):
            l, rr = t[1], t[2]
            ls = r(l) if LEVEL[l[0]] >= 2 else wrap(r(l))
            rs = r(rr) if LEVEL[rr[0]] > 2 else wrap(r(rr))
            out = ls + ['*' if k == 'mul' else '/'] + rs
        elif k in ('add', 'sub'):
            l, rr = t[1], t[2]
            ls = r(l)
            rs = r(rr) if LEVEL[rr[0]] > 1 else wrap(r(rr))
            out = ls + ['+' if k == 'add' else minus] + rs
        else:
            raise ValueError('render: unknown node ' + str(k))
        if red and tape.next(10) < red:
            out = wrap(out)
        return out

    toks = r(t)
    if style.get('lead_plus'):
        toks = ['+'] + toks     # a sum may start with a unary plus ('+-2' is grammatical too)
    return toks


def join_tokens(toks, ws=None):
    """ws: None | {'spaces': int 0..9 (per character), 'between': int 0..9 (per token gap), 'tape': [...]}.
    Spaces may go anywhere (the parser strips U+0020 before parsing); tabs / newlines only between tokens."""
    if not ws:
        return ''.join(toks)
    tape = Tape(ws.get('tape'))
    sp, bt = ws.get('spaces', 0), ws.get('between', 0)
    out = []
    for n, tok in enumerate(toks):
        if n and bt and tape.next(10) < bt:
            out.append([' ', '\t', '\n', '  ', '\r\n', '\t '][tape.next(6)])
        if sp:
            for ch in tok:
                if tape.next(10) < sp:
                    out.append(' ' * (1 + tape.next(2)))
                out.append(ch)
        else:
            out.append(tok)
    return ''.join(out)


def render(t, style=None, ws=None):
    return join_tokens(render_tokens(t, style), ws)


def fixed_dict(mapping):
    """st.fixed_dictionaries written as tuples().map(): the same values, but decodable by Hypothesis' fuzz_one_input
    (fixed_dictionaries with four or more entries one of which is a list never decoded from a byte string in
    Hypothesis 6.168, which starved the coverage-guided parts)."""
    keys = list(mapping)
    return st.tuples(*[mapping[k] for k in keys]).map(lambda t: dict(zip(keys, t)))


def styles():
    tape = st.lists(st.integers(0, 59), max_size=60)
    return fixed_dict({
        'minus': st.sampled_from(['-', '-', '-', '—']),
        'redundant': st.sampled_from([0, 0, 2, 4]),
        'lead_plus': st.sampled_from([False, False, False, True]),
        'tape': tape})


def whitespace_styles():
    tape = st.lists(st.integers(0, 59), max_size=80)
    return st.one_of(st.none(), fixed_dict({
        'spaces': st.sampled_from([0, 2, 4]), 'between': st.sampled_from([0, 3, 6]), 'tape': tape}))


# ---------------------------------------------------------------------------------------------------
# tree strategies


def names_of(t, acc=None):
    """-> {'vars': set, 'funcs': set, 'suffixes': set} occurring in the tree."""
    if acc is None:
        acc = {'vars': set(), 'funcs': set(), 'suffixes': set()}
    k = t[0]
    if k == 'num':
        txt = t[1]
        i = len(txt)
        while i > 0 and (txt[i - 1].isalpha() or txt[i - 1] == '%'):
            i -= 1
        suf = txt[i:]
        # an exponent marker is not a suffix: text like '2e3' ends in a digit; '2E' cannot be produced
        if suf:
            acc['suffixes'].add(suf)
    elif k == 'var':
        acc['vars'].add(t[1])
    elif k == 'call':
        acc['funcs'].add(t[1])
        for a in t[2]:
            names_of(a, acc)
    elif k in ('par', 'arr'):
        for a in t[1]:
            names_of(a, acc)
    else:
        for a in t[1:]:
            names_of(a, acc)
    return acc


def size_of(t):
    k = t[0]
    if k in ('num', 'var'):
        return 1
    if k == 'call':
        return 1 + sum(size_of(a) for a in t[2])
    if k in ('par', 'arr'):
        return 1 + sum(size_of(a) for a in t[1])
    return 1 + sum(size_of(a) for a in t[1:])


def ops_of(t, acc=None):
    if acc is None:
        acc = set()
    k = t[0]
    if k in ('num', 'var'):
        return acc
    acc.add(k)
    if k == 'call':
        for a in t[2]:
            ops_of(a, acc)
    elif k in ('par', 'arr'):
        for a in t[1]:
            ops_of(a, acc)
    else:
        for a in t[1:]:
            ops_of(a, acc)
    return acc


def trees(var_names=None, func_names=None, suffixes=None, max_leaves=10, consts=True):
    var_names = VAR_NAMES if var_names is None else var_names
    func_names = ['sin', 'cos', 'exp', 'sqrt', 'abs', 'ln', 'arctan', 'cosh', 're', 'im', 'conj', 'min', 'max',
                  'f', 'g', "f'", 'sq_2', 'tan', 'sinh', 'sec', 'csc', 'cot', 'sech', 'csch', 'coth', 'log10',
                  'log2'] if func_names is None else func_names
    pool = list(var_names) + (['pi', 'e', 'i', 'j'] if consts else [])
    leaf = st.one_of(number_literals(suffixes), number_literals(suffixes),
                     st.sampled_from(pool).map(lambda n: ['var', n])) if pool else number_literals(suffixes)
    small_exp = st.sampled_from([['num', '2', 2.0], ['num', '3', 3.0], ['num', '0.5', 0.5], ['num', '1.5', 1.5],
                                 ['num', '2.', 2.0], ['num', '4', 4.0], ['num', '1', 1.0], ['num', '0', 0.0]])

    def ext(ch):
        exponent = st.one_of(small_exp, small_exp.map(lambda e: ['neg', e]), ch,
                             st.tuples(small_exp, small_exp).map(lambda p: ['pow', p[0], p[1]]),
                             st.tuples(small_exp, small_exp).map(lambda p: ['neg', ['pow', p[0], p[1]]]))
        opts = [
            ch.map(lambda c: ['neg', c]),
            st.tuples(ch, exponent).map(lambda p: ['pow', p[0], p[1]]),
            st.lists(ch, min_size=2, max_size=3).map(lambda l: ['par', l]),
            st.tuples(st.sampled_from(['mul', 'div', 'add', 'sub']), ch, ch).map(list),
            st.tuples(st.sampled_from(['mul', 'div', 'add', 'sub']), ch, ch).map(list),
        ]
        if func_names:
            def mk(fn):
                ar = REF_FUNCS[fn][0]
                return st.sampled_from(ar).flatmap(
                    lambda n: st.lists(ch, min_size=n, max_size=n)).map(lambda args: ['call', fn, args])
            opts.append(st.sampled_from(func_names).flatmap(mk))
        return st.one_of(opts)

    return st.recursive(leaf, ext, max_leaves=max_leaves)
