#!/usr/bin/env python3
"""Print the prompt handed to an independent sub-agent that writes a property-breaking change.

usage: tools/seed_prompt.py CNN <worktree dir> [flavour]

The prompt contains only the text of the property (from properties.jsonl), the scratch worktree to work in, and one
line per change already collected for that property (so that the new one is different) - nothing about the checks.
"""
import glob
import json
import os
import sys

HERE = os.path.dirname(os.path.dirname(os.path.abspath(__file__)))

FLAVOURS = {
    'history': "a multi-step sequence of operations (call history, object reuse, two graders/parsers/samplers alive in "
               "one process, a failing call followed by a succeeding one)",
    'needle': "an unusual input or option combination that ordinary use and the existing tests never touch (an edge "
              "value, a rarely combined pair of options, an unusual but documented input form)",
    'twosite': "two cooperating edits at different sites that each look harmless (and are harmless) alone",
 'sharing': "one author-created object (a subgrader, comparer, sampling set, credit schedule, function or "
               "configuration dictionary) used in two or more places, or two objects of one class alive at once with "
               "different options - the change must be invisible while every object is built, used and dropped alone",
    'form': "a documented but rarely used way of writing the same thing (dictionary vs keyword configuration, tuple vs "
            "list, string vs dictionary answers, nested structures, inferred vs configured answers, option aliases, "
            "numpy values where Python numbers are usual)",
 'errorpath': "an error or exception path: the change is only visible when some call raises or fails part-way (clean-up "
                 "skipped, state half-updated, an error of the wrong class or with the wrong text, an error swallowed), or in "
                 "the call that FOLLOWS such a failure",
    'numeric': "a numeric edge: floating-point rounding, exact ties, values that are equal only up to rounding, extreme "
               "magnitudes (1e-300, 1e300), signed zeros, integers versus floats versus numpy scalars, complex numbers with "
               "zero imaginary part",
    'refactor': "a plausible refactoring / optimisation / tidy-up whose behaviour differs from the original only in a "
                "corner that needs a specific configuration and input to be seen",
}


def main():
    pid, wt = sys.argv[1], sys.argv[2]
    flavour = sys.argv[3] if len(sys.argv) > 3 else 'refactor'
    prop = None
    for line in open(os.path.join(HERE, 'properties.jsonl')):
        d = json.loads(line)
        if d['id'] == pid:
            prop = d
    earlier = []
    for m in sorted(glob.glob(os.path.join(HERE, 'seeded', pid + '-*', 'meta.json'))):
        meta = json.load(open(m))
        earlier.append('- ' + meta.get('summary', '')[:260].replace('\n', ' '))
    print(PROMPT.format(pid=pid, wt=wt, title=prop['title'], statement=prop['statement'],
                        quant=json.dumps(prop['quantifier'], ensure_ascii=False),
                        why=prop.get('why_tests_cant', ''), anchors=json.dumps(prop['anchors'], ensure_ascii=False),
                        flavour=FLAVOURS[flavour], earlier='\n'.join(earlier) or '(none)'))


PROMPT = """You are helping to evaluate how well a verification effort detects regressions in the Python library
mitodl/mitx-grading-library (MITx grading library for edX: a pyparsing-based math expression parser/evaluator,
random variable/matrix samplers, list/formula/sum graders with Munkres matching).

Your scratch git worktree of the library is at {wt} (already created, clean, detached HEAD). Work ONLY inside that
directory (and /tmp for temporary files). Never touch /repo or /verif, and do not read anything under /verif.
Run Python as /venv/bin/python (3.12; numpy, pyparsing and pytest are installed; scipy is NOT, so 36 tests fail on the
unchanged tree and 365 pass - that is the baseline). Test command, from inside the worktree:
  /venv/bin/python -m pytest -q -p no:cacheprovider --timeout=900 --continue-on-collection-errors
There is no network.

THE PROPERTY (id {pid}): {title}

Statement: {statement}

Quantified over: {quant}

Why unit tests cannot settle it: {why}

Code anchors: {anchors}

YOUR TASK. Write ONE realistic change to the library source (under mitxgraders/, not the tests, not the docs) that
BREAKS this property, while
  * the library still imports and the existing test suite gives exactly the baseline result (365 passed, the same 36
    scipy-related failures) - run it and check the counts;
  * it looks like something a maintainer could plausibly commit (an optimisation, refactoring, tidy-up, feature tweak
    or bug "fix") - not sabotage, no special-casing of magic values, no dead code, no reference to testing;
  * it needs something specific to manifest, not something ordinary use would expose at once. Preferred kind for this
    request: {flavour}.
  * it is DIFFERENT in site and mechanism from these changes, which were already collected for this property:
{earlier}

Then write a demonstration /tmp/demo_{pid}.py: a small stand-alone program taking the path of a library checkout as
sys.argv[1] (it must insert that path at the front of sys.path before importing mitxgraders), which exits 0 on the
unchanged library and exits non-zero (assertion failure with a helpful message) on your changed worktree. The
demonstration must show a violation of the property AS STATED above (not merely a behavioural difference): say in a
comment which clause of the statement is violated and why the chosen input is inside the property's domain.
Verify both directions yourself: `/venv/bin/python /tmp/demo_{pid}.py {wt}` fails and
`/venv/bin/python /tmp/demo_{pid}.py /repo` passes (reading /repo this way is fine; do not modify it).

Deliverables - create the directory {wt}/_seed/ containing:
  patch.diff   output of `git diff` in the worktree (source change only; make sure _seed/ itself is not in it)
  demo.py      the demonstration
  meta.json    {{"property": "{pid}", "summary": "<what the change does, 3-8 sentences>", "needs": "<what exactly is
               needed for it to manifest>", "files": [...], "tests": "<the pytest summary line you observed>"}}
Leave the source change applied in the worktree. In your final answer give the summary, what it needs to manifest, the
pytest summary line, and the two demo exit codes. Do not commit anything. Do NOT use `git stash` (the stash is shared with other worktrees of the same repository): to compare with the unchanged tree use `git diff > /tmp/x.diff; git checkout -- .; ...; git apply /tmp/x.diff`, or simply run things against /repo.
"""

if __name__ == '__main__':
    main()
