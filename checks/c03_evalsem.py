"""C03 - formula strings evaluate to the value mathematics assigns them (documented operator semantics)."""
import itertools
from fractions import Fraction

import numpy as np
from hypothesis import strategies as st

from vlib.core import lib_frames, Part, Violation, Discard, call
from vlib import exprgen as X

from mitxgraders import FormulaGrader, NumericalGrader
from mitxgraders.helpers.calc import evaluator
from mitxgraders.exceptions import MITxError
from mitxgraders.helpers.calc.exceptions import (UnableToParse, UnbalancedBrackets, UndefinedVariable,
                                                 UndefinedFunction)

RULE = ("(flat) EXHAUSTIVE: every operator sequence of length 1..4 over + - * / ^ || with an optional unary minus "
        "before each operand (after '^' it is the exponent sign), over two leaf sets (numbers; a complex and real "
        "variables), judged against an independent precedence-climbing reference; a flat case is non-trivial iff its "
        "documented value differs (>1e-6 rel.) from the value under at least one of 8 plausible wrong grammars "
        "(classes 'distinguishes/<wrong grammar>'). (trees) Hypothesis trees (all literal formats, names of every "
        "shape, constants, functions, %/metric suffixes) rendered in 3 styles (minimal / redundant parentheses, "
        "spaces anywhere, tabs+newlines between tokens, em-dash, leading +) judged against the reference evaluator "
        "and against each other; non-trivial iff >= 2 operator kinds or a suffix/exponent literal or a non-minimal "
        "rendering. (literals) EXHAUSTIVE literal formats x suffixes vs exact Fractions. (invalid) strings made "
        "ungrammatical by construction must raise UnableToParse/UnbalancedBrackets. (case) a case-variant of a bound "
        "name must be rejected as undefined. (verdict) Numerical/FormulaGrader verdicts on constant expressions. "
        "Distinct by spec hash."
        " 'matrices' (random): 13 formula shapes over 2x2 / 3x3 integer matrix literals of determinant +-1, +-2 (powers "
        "with signed exponents, products, inverses, mixed with scalars and vectors) against numpy.linalg; before the "
        "evaluation a MatrixGrader (negative powers off / on) has, in 5 of 7 cases, just refused or graded a submission."
        " 'not-numbers' (exhaustive): strings other number parsers accept (1_0, 0x10, digits of other scripts, inf / nan words) and default names used while an explicitly empty table is supplied: never a value. Every tree is also evaluated with numpy-scalar bindings and in a second scope (other values, other suffix multipliers). 'trees-fuzz' / 'invalid-fuzz' (thorough): coverage-guided campaigns over the same strategies and oracles.")
ASSUMPTIONS = ["value comparison tolerance 1e-9*max(1,|ref|,largest intermediate); cases with |intermediate|>1e12, "
               "within 1e-9 of a branch cut/pole, or ill-conditioned under a 1e-12 perturbation are discarded",
               "exact zeros in '||' and zero bases of '^' are discarded (C15/C02 territory)",
               "tabs/newlines are placed between tokens only; number+suffix and '||' count as single tokens"]
REQUIRED = {'pole/judged': 10, 'distinguishes/pow-left': 500, 'distinguishes/neg-tight': 500, 'distinguishes/par-loose': 500,
            'distinguishes/par-tight': 200, 'distinguishes/sum-right': 500, 'distinguishes/prod-right': 500,
            'distinguishes/exp-sign-local': 100, 'distinguishes/flat-prec': 500,
            'tree/suffix': 100, 'tree/spaces': 300, 'tree/tabs-newlines': 300, 'tree/emdash': 100,
            'tree/redundant-parens': 300, 'tree/complex': 100, 'invalid/judged': 500, 'case/judged': 100,
            'matrix/negative-exponent': 100, 'matrix/event/np-off-refuses-inverse': 30, 'matrix/event/np-off-undefined-name': 30,
            'named/-2^2': 1, 'named/2^3||6': 1, 'named/8/4*2': 1, 'named/2*-3^2': 1, 'named/2^-2^2': 1}

# ----------------------------------------------------------------------------------------------------
# independent reference parser for flat token sequences, parameterised by grammar variant


class _Zero(Exception):
    pass


def ref_flat(tokens, variant='doc'):
    pos = [0]

    def peek():
        return tokens[pos[0]] if pos[0] < len(tokens) else None

    def nxt():
        t = tokens[pos[0]]
        pos[0] += 1
        return t

    def pw(b, e):
        if b == 0:
            raise _Zero()
        return b ** e

    def atom():
        t = nxt()
        if variant == 'neg-tight' and t == '-':
            return -atom()
        assert isinstance(t, (int, float, complex)), t
        return t

    def power():
        if variant == 'pow-left':
            v = atom()
            while peek() == '^':
                nxt()
                sign = 1
                if peek() == '-':
                    nxt()
                    sign = -1
                v = pw(v, sign * atom())
            return v
        base = atom()
        if peek() == '^':
            nxt()
            sign = 1
            if peek() == '-' and variant != 'neg-tight':
                nxt()
                sign = -1
            if variant == 'exp-sign-local':
                # the sign attaches to the next atom only: a^-b^c = a^((-b)^c)
                nb = sign * atom()
                if peek() == '^':
                    nxt()
                    s2 = 1
                    if peek() == '-':
                        nxt()
                        s2 = -1
                    rest = power()
                    return pw(base, pw(nb, s2 * rest))
                return pw(base, nb)
            e = power()
            return pw(base, sign * e)
        return base

    def negation():
        if variant == 'par-tight':
            if peek() == '-':
                nxt()
                return -parallel_inner()
            return parallel_inner()
        if peek() == '-' and variant != 'neg-tight':
            nxt()
            return -power()
        return power()

    def par(vals):
        if len(vals) == 1:
            return vals[0]
        if any(v == 0 for v in vals):
            raise _Zero()
        s = sum(1 / v for v in vals)
        if s == 0:
            raise _Zero()
        return 1 / s

    def parallel_inner():  # used by 'par-tight': || binds tighter than unary minus
        vals = [power()]
        while peek() == '||':
            nxt()
            if peek() == '-':   # a minus after || still negates that operand
                nxt()
                vals.append(-power())
            else:
                vals.append(power())
        return par(vals)

    def parallel():
        if variant == 'par-tight':
            return negation()
        if variant == 'par-loose':
            return negation()
        vals = [negation()]
        while peek() == '||':
            nxt()
            vals.append(negation())
        return par(vals)

    def product():
        if variant == 'prod-right':
            v = parallel()
            if peek() in ('*', '/'):
                op = nxt()
                w = product()
                if op == '/' and w == 0:
                    raise _Zero()
                return v * w if op == '*' else v / w
            return v
        v = parallel()
        stops = ('*', '/', '+', '-') if variant == 'flat-prec' else ('*', '/')
        while peek() in stops:
            op = nxt()
            w = parallel()
            if op == '/' and w == 0:
                raise _Zero()
            v = {'*': lambda: v * w, '/': lambda: v / w, '+': lambda: v + w, '-': lambda: v - w}[op]()
        return v

    def par_loose():
        vals = [product()]
        while peek() == '||':
            nxt()
            vals.append(product())
        return par(vals)

    def summ():
        nextlevel = par_loose if variant == 'par-loose' else product
        if variant == 'sum-right':
            v = nextlevel()
            if peek() in ('+', '-'):
                op = nxt()
                w = summ()
                return v + w if op == '+' else v - w
            return v
        v = nextlevel()
        while peek() in ('+', '-'):
            op = nxt()
            w = nextlevel()
            v = v + w if op == '+' else v - w
        return v

    r = summ()
    if pos[0] != len(tokens):
        raise AssertionError('reference parser did not consume all tokens')
    return r


VARIANTS = ['pow-left', 'neg-tight', 'par-loose', 'par-tight', 'sum-right', 'prod-right', 'exp-sign-local',
            'flat-prec']
OPS = ['+', '-', '*', '/', '^', '||']
LEAFSETS = {
    'num': [('2', 2.0), ('3', 3.0), ('5', 5.0), ('7', 7.0), ('1.5', 1.5)],
    'var': [('z', 0.6 + 0.8j), ('3', 3.0), ('y', 1.25), ('7', 7.0), ('w', -1.5)],
}
FLAT_VARS = {'z': 0.6 + 0.8j, 'y': 1.25, 'w': -1.5}
NAMED = {'-2^2', '2^3||6', '8/4*2', '2*-3^2', '2^-2^2'}


def items_flat(tier):
    for ls in ('num', 'var'):
        for L in range(1, 5):
            for opseq in itertools.product(range(6), repeat=L):
                for negs in itertools.product([0, 1], repeat=L + 1):
                    yield {'ls': ls, 'ops': list(opseq), 'negs': list(negs)}
    # the sequences named in the property text, verbatim
    for s in sorted(NAMED):
        yield {'named': s}
    # reciprocals that cancel exactly: 1/(1/a + 1/b) has no value - a division-by-zero error, never a number
    for s in POLES:
        yield {'pole': s}


NAMED_TOKENS = {
    '-2^2': ['-', 2.0, '^', 2.0], '2^3||6': [2.0, '^', 3.0, '||', 6.0], '8/4*2': [8.0, '/', 4.0, '*', 2.0],
    '2*-3^2': [2.0, '*', '-', 3.0, '^', 2.0], '2^-2^2': [2.0, '^', '-', 2.0, '^', 2.0]}
NAMED_VALUES = {'-2^2': -4.0, '2^3||6': 1 / (1 / 8 + 1 / 6), '8/4*2': 4.0, '2*-3^2': -18.0, '2^-2^2': 1 / 16}


def _safe_ref(tokens, variant):
    try:
        v = ref_flat(tokens, variant)
    except (_Zero, ZeroDivisionError, OverflowError):
        return None
    if v != v or abs(v) > 1e12:
        return None
    return v


POLES = ['1||-1', '2||-2', 'y||-y', 'z||-z', '2||-4||-4', '-3||3', '1.5||-1.5', '(2*3)||-6', '4||-2^2', 'w||1.5',
         '1/(2-2)', '3/(y-1.25)', '0^-1', '(7-7)^-2']


def judge_pole(spec, rec):
    s = spec['pole']
    kind, out = call(evaluator, s, FLAT_VARS, {}, {})
    rec.calls()
    rec.cls('pole/judged')
    rec.nontrivial()
    if kind == 'ok':
        raise Violation('flat/pole-valued', '%r has no value (division by zero) but evaluated to %r' % (s, out[0]),
                        string=s)
    if not isinstance(out, MITxError):
        raise out
    return {'string': s, 'error': type(out).__name__}


def judge_flat(spec, rec):
    if 'pole' in spec:
        return judge_pole(spec, rec)
    if 'named' in spec:
        s = spec['named']
        toks = NAMED_TOKENS[s]
        ref = _safe_ref(toks, 'doc')
        if abs(ref - NAMED_VALUES[s]) > 1e-12:
            raise AssertionError('reference parser disagrees with the hand-computed value of ' + s)
        rec.cls('named/' + s)
        variables = {}
    else:
        leaves = LEAFSETS[spec['ls']]
        toks, s = [], ''
        for k, ng in enumerate(spec['negs']):
            if ng:
                toks.append('-')
                s += '-'
            toks.append(leaves[k][1])
            s += leaves[k][0]
            if k < len(spec['ops']):
                op = OPS[spec['ops'][k]]
                toks.append(op)
                s += op
        ref = _safe_ref(toks, 'doc')
        variables = FLAT_VARS
    if ref is None:
        raise Discard('reference-overflow-or-zero')
    kind, lib = call(evaluator, s, variables, {}, {})
    rec.calls()
    if kind == 'err':
        if isinstance(lib, MITxError):
            raise Violation('flat/raised', '%r raised %s: %s but the documented value is %r' % (
                s, type(lib).__name__, lib, ref), string=s)
        raise lib
    lib = lib[0]
    if not isinstance(lib, (int, float, complex)) or abs(lib - ref) > 1e-9 * max(1, abs(ref)):
        alt = {v: _safe_ref(toks, v) for v in VARIANTS}
        agrees = sorted(v for v, a in alt.items() if a is not None and abs(a - lib) <= 1e-9 * max(1, abs(a)))
        raise Violation('flat/value', '%r evaluated to %r, documented semantics give %r (value matches wrong grammar: %s)'
                        % (s, lib, ref, agrees or 'none'), string=s)
    nt = False
    for v in VARIANTS:
        a = _safe_ref(toks, v)
        if a is not None and abs(a - ref) > 1e-6 * max(1, abs(ref)):
            rec.cls('distinguishes/' + v)
            nt = True
    rec.nontrivial(nt)
    return {'string': s, 'value': lib}


# ----------------------------------------------------------------------------------------------------
# random trees

from mitxgraders import FormulaGrader as _FG  # noqa: E402

LIB_FUNCS = dict(_FG.default_functions)
LIB_FUNCS.update(X.USER_FUNCS)
SUFFIX_SETS = {'none': {}, 'percent': dict(X.PERCENT), 'metric': dict(X.PERCENT, **X.METRIC)}   # reference (SI)
# what the library hands to the evaluator for graders with / without metric_suffixes (public helper)
from mitxgraders.sampling import construct_suffixes  # noqa: E402
from mitxgraders.helpers.calc import DEFAULT_SUFFIXES  # noqa: E402
LIB_SUFFIXES = {'none': {}, 'percent': construct_suffixes(DEFAULT_SUFFIXES, metric=False),
                'metric': construct_suffixes(DEFAULT_SUFFIXES, metric=True)}


def strat_trees(tier):
    sfx = st.sampled_from(['none', 'percent', 'metric', 'metric'])
    return sfx.flatmap(lambda sname: X.fixed_dict({
        'suffix': st.just(sname),
        'tree': X.trees(suffixes=SUFFIX_SETS[sname] or None, max_leaves=12),
        'env': X.env_values(),
        'styles': st.lists(X.styles(), min_size=2, max_size=2),
        'ws': st.lists(X.whitespace_styles(), min_size=2, max_size=2),
    }))


def fresh_funcs():
    """The function table with NEWLY CREATED user-function objects of different arities (authors' scopes are built
    per problem; anything the evaluator remembers about a function object must not outlive it)."""
    fs = dict(_FG.default_functions)
    fs.update({'f': lambda x: x * x + 1, 'g': lambda x, y: x * y - 1, "f'": lambda x: 2 * x,
               'sq_2': lambda x: x * x})
    return fs


def lib_eval(s, env, suffixes):
    return call(evaluator, s, env, fresh_funcs(), suffixes)


def resuffix(t, table1, table2):
    """The same tree with every suffixed number literal revalued for another suffix table (texts unchanged)."""
    if isinstance(t, list):
        if t and t[0] == 'num' and len(t) == 3 and isinstance(t[1], str) and t[1][-1] in table1 and not t[1][-1].isdigit():
            return ['num', t[1], t[2] / table1[t[1][-1]] * table2[t[1][-1]]]
        return [resuffix(c, table1, table2) for c in t]
    return t


def names_in_tree(t):
    return bool(X.names_of(t)['vars'])


def judge_tree(spec, rec):
    t = spec['tree']
    env = X.default_env(spec['env'])
    suffixes = LIB_SUFFIXES[spec['suffix']]
    ref, tol = X.ref_with_conditioning(t, env)
    base = X.render(t)
    forms = [('minimal', base)]
    for sty, ws in zip(spec['styles'], spec['ws']):
        forms.append(('styled', X.render(t, sty, ws)))
    vals = []
    for label, s in forms:
        kind, out = lib_eval(s, env, suffixes)
        rec.calls()
        if kind == 'err':
            if isinstance(out, MITxError):
                raise Violation('tree/raised/' + type(out).__name__,
                                '%r raised %s: %s ; reference value %r' % (s, type(out).__name__, out, ref),
                                string=s)
            raise out
        v = out[0]
        if not isinstance(v, (int, float, complex)):
            raise Violation('tree/type', '%r evaluated to a %s' % (s, type(v).__name__), string=s)
        if v != v or abs(v - ref) > tol:
            raise Violation('tree/value', '%r evaluated to %r, reference %r (tol %.3g)' % (s, v, ref, tol), string=s)
        vals.append(v)
    # whitespace / parenthesis independence between renderings
    for (label, s), v in zip(forms[1:], vals[1:]):
        if abs(v - vals[0]) > tol:
            raise Violation('tree/rendering-dependent', 'renderings %r and %r differ: %r vs %r' % (
                base, s, vals[0], v))
    # spaces only (same token string, U+0020 inserted): must be bit-identical
    sp = X.join_tokens(X.render_tokens(t), {'spaces': 3, 'between': 0, 'tape': spec['styles'][0]['tape']})
    kind, out = lib_eval(sp, env, suffixes)
    rec.calls()
    if kind == 'err' or repr(out[0]) != repr(vals[0]):
        raise Violation('tree/spaces-change-value', '%r -> %r but %r -> %r' % (base, vals[0], sp, out))
    # variables bound to numpy scalars (what the library's own samplers and authors' numpy-computed constants hand to
    # the evaluator) denote the same numbers as the builtin ones
    import numpy as _np
    env_np = {k: (_np.complex128(v) if isinstance(v, complex) else _np.float64(v) if isinstance(v, float) else v)
              for k, v in env.items()}
    if any(type(env_np[k]) is not type(env[k]) for k in env):
        kind, out = lib_eval(base, env_np, suffixes)
        rec.calls()
        rec.cls('tree/numpy-scalar-bindings')
        if kind == 'err':
            if isinstance(out, MITxError) or lib_frames(out.__traceback__)[0] is not None:
                raise Violation('tree/numpy-bindings/raised', '%r with numpy-scalar variable values raised %s: %s ; with '
                                'builtin values it is %r' % (base, type(out).__name__, out, vals[0]), string=base)
            raise out
        if not isinstance(out[0], (int, float, complex)) or out[0] != out[0] or abs(out[0] - ref) > tol:
            raise Violation('tree/numpy-bindings/value', '%r with numpy-scalar variable values gives %r, with builtin '
                            'values %r' % (base, out[0], vals[0]), string=base)
    # the same formula in a second scope (other variable values, user functions replaced by different ones): its value
    # is a function of the string AND the scope handed in - nothing may be remembered per string
    env2 = {k: ((v * 1.5 + 0.25) if k in X.VAR_NAMES else v) for k, v in env.items()}
    # ... and with another suffix table (the evaluator takes the multipliers as an argument: 'k' may mean 1024)
    suffixes2 = {k: v * (1.024 if k != '%' else 2.0) for k, v in suffixes.items()}
    t2 = resuffix(t, suffixes, suffixes2) if X.names_of(t)['suffixes'] else t
    try:
        ref2, tol2 = X.ref_with_conditioning(t2, env2)
    except Discard:
        ref2 = None
    if t2 is not t:
        rec.cls('tree/second-suffix-table')
    if ref2 is not None and (names_in_tree(t) or t2 is not t) and abs(ref2 - ref) > 10 * (tol + tol2):
        kind, out = lib_eval(base, env2, suffixes2)
        rec.calls()
        rec.cls('tree/second-scope')
        if kind == 'err':
            if isinstance(out, MITxError) or lib_frames(out.__traceback__)[0] is not None:
                raise Violation('tree/second-scope/raised', '%r in a second scope raised %s: %s ; reference %r' % (
                    base, type(out).__name__, out, ref2), string=base)
            raise out
        if not isinstance(out[0], (int, float, complex)) or out[0] != out[0] or abs(out[0] - ref2) > tol2:
            raise Violation('tree/second-scope/value', '%r evaluated to %r in a second scope, reference %r (first scope: '
                            '%r)' % (base, out[0], ref2, vals[0]), string=base)
    ops = X.ops_of(t)
    names = X.names_of(t)
    if names['suffixes']:
        rec.cls('tree/suffix')
    if any('e' in n[1].lower() and n[0] == 'num' for n in _leaves(t)):
        rec.cls('tree/exp-literal')
    styled = [f for f in forms[1:] if f[1] != base]
    if any(' ' in s for _, s in styled) or sp != base:
        rec.cls('tree/spaces')
    if any(c in s for _, s in styled for c in '\t\n'):
        rec.cls('tree/tabs-newlines')
    if any('—' in s for _, s in styled):
        rec.cls('tree/emdash')
    if any(s.replace(' ', '').replace('\t', '').replace('\n', '').replace('\r', '').count('(') > base.count('(')
           for _, s in styled):
        rec.cls('tree/redundant-parens')
    if isinstance(ref, complex):
        rec.cls('tree/complex')
    for o in ops:
        rec.cls('tree/op/' + o)
    rec.nontrivial(len(ops) >= 2 or bool(names['suffixes']) or bool(styled))
    return {'string': forms[1][1], 'value': vals[0], 'ref': ref}


def _leaves(t):
    k = t[0]
    if k in ('num', 'var'):
        yield t
    elif k == 'call':
        for a in t[2]:
            yield from _leaves(a)
    elif k in ('par', 'arr'):
        for a in t[1]:
            yield from _leaves(a)
    else:
        for a in t[1:]:
            yield from _leaves(a)


# ----------------------------------------------------------------------------------------------------
# literal formats, exhaustively


def items_literals(tier):
    ips = ['0', '1', '7', '12', '100', '007']
    fps = ['', '5', '25', '050', '125']
    exps = [None, 'e0', 'e3', 'E3', 'e+2', 'E-2', 'e-3', 'e10', 'E+05']
    sufs = ['', '%', 'k', 'M', 'G', 'T', 'm', 'u', 'n', 'p']
    for ip in ips + ['']:
        for fp in fps:
            for dot in ('', '.'):
                if fp and not dot:
                    continue
                if not ip and not fp:
                    continue
                for ex in exps:
                    for sf in sufs:
                        yield {'ip': ip, 'dot': dot, 'fp': fp, 'ex': ex, 'suffix': sf}


def judge_literal(spec, rec):
    text = spec['ip'] + spec['dot'] + spec['fp'] + (spec['ex'] or '')
    v = Fraction(int(spec['ip'] or '0'))
    if spec['fp']:
        v += Fraction(int(spec['fp']), 10 ** len(spec['fp']))
    if spec['ex']:
        v *= Fraction(10) ** int(spec['ex'][1:])
    mult = dict(X.PERCENT, **X.METRIC)
    exact = float(v)
    s = text + spec['suffix']
    kind, out = call(evaluator, s, {}, {}, LIB_SUFFIXES['metric'])
    rec.calls()
    if kind == 'err':
        if isinstance(out, MITxError):
            raise Violation('literal/raised', '%r raised %s: %s' % (s, type(out).__name__, out))
        raise out
    expect = exact * mult[spec['suffix']] if spec['suffix'] else exact
    if abs(out[0] - expect) > 4e-16 * abs(expect):
        raise Violation('literal/value', '%r evaluated to %r, exact value %r' % (s, out[0], expect))
    # a suffix that is not in the table must be refused, never valued
    if spec['suffix'] in ('k', 'M'):
        kind2, out2 = call(evaluator, s, {}, {}, LIB_SUFFIXES['percent'])
        if kind2 == 'ok' or not isinstance(out2, MITxError):
            raise Violation('literal/undeclared-suffix-valued', '%r with only %% declared gave %r' % (s, out2))
    rec.nontrivial(bool(spec['suffix'] or spec['ex'] or spec['dot']))
    rec.cls('literal/suffix' if spec['suffix'] else 'literal/plain')
    return {'string': s, 'value': out[0]}


# ----------------------------------------------------------------------------------------------------
# invalid by construction

BINOPS = {'+', '-', '—', '*', '/', '^', '||'}
FOREIGN = ['$', '×', '²', '#', '!', '&', '=', '?', '@', '~', '`', '"', ';', ':', '\\', '٣', '２',
           'é', ' ', '\x0b', '−', '÷', '<', '>', '‖']
MUTS = ['tab-in-token', 'double-op', 'juxtapose', 'empty-paren', 'empty-array', 'empty-call', 'lead-op', 'trail-op', 'comma',
        'foreign', 'dotdot', 'lone-dot', 'exp-plus', 'double-neg', 'drop-close', 'extra-open', 'extra-close',
        'wrong-close']


def strat_invalid(tier):
    return X.fixed_dict({
        'tree': X.trees(suffixes=None, max_leaves=8),
        'style': X.styles(),
        'mut': st.sampled_from(MUTS),
        'pos': st.integers(0, 10 ** 6),
        'pick': st.integers(0, 10 ** 6),
        'ws': st.booleans(),
    })


def mutate_tokens(toks, mut, pos, pick):
    """Returns a token list that is outside the grammar by construction, or None if the mutation does not apply."""
    toks = list(toks)
    n = len(toks)
    binpos = [i for i, t in enumerate(toks) if t in BINOPS and i > 0 and toks[i - 1] not in BINOPS
              and toks[i - 1] not in ('(', '[', ',', '^')]
    if mut == 'tab-in-token':
        # a tab / line break INSIDE a number or name is juxtaposition, never grammatical (only U+0020 is stripped)
        cand = [i for i, t in enumerate(toks) if len(t) >= 2 and (t[0].isalnum() or t[0] == '.') and t != '||']
        if not cand:
            return None
        i = cand[pos % len(cand)]
        t = toks[i]
        cut = 1 + pick % (len(t) - 1)
        if t[cut - 1] in '_^{' or t[cut] in '_^{}\'':
            return None
        if not t[0].isalpha() and not (t[cut - 1] in '0123456789.' and t[cut] in '0123456789.'):
            return None     # whitespace between a number and its suffix is grammatical; stay inside the digits
        return toks[:i] + [t[:cut] + ['\t', '\n', '\r\n'][pick % 3] + t[cut:]] + toks[i + 1:]
    if mut == 'double-op':
        if not binpos:
            return None
        i = binpos[pos % len(binpos)]
        extra = ['*', '/', '^', '||', '+'][pick % 5]
        # op followed by a non-minus binary operator is never grammatical
        return toks[:i + 1] + [extra] + toks[i + 1:]
    if mut == 'juxtapose':
        cl = [i for i, t in enumerate(toks) if t in (')', ']')]
        choice = pick % 3
        if choice == 0 or not cl:
            return ['(', '1', ')', '('] + toks + [')'] if pick % 2 else ['2', '('] + toks + [')']
        i = cl[pos % len(cl)]
        ins = ['(', '2', ')'] if choice == 1 else ['3']
        return toks[:i + 1] + ins + toks[i + 1:]
    if mut in ('empty-paren', 'empty-array', 'empty-call'):
        ins = {'empty-paren': ['(', ')'], 'empty-array': ['[', ']'], 'empty-call': ['sin', '(', ')']}[mut]
        return toks + ['+'] + ins if pick % 2 else ins + ['*'] + toks
    if mut == 'lead-op':
        return [['*', '/', '^', '||'][pick % 4]] + toks
    if mut == 'trail-op':
        return toks + [['+', '-', '*', '/', '^', '||'][pick % 6]]
    if mut == 'comma':
        return toks + [','] + ['1'] if pick % 2 else ['2', ','] + toks
    if mut == 'foreign':
        ch = FOREIGN[pick % len(FOREIGN)]
        i = pos % (n + 1)
        if ch in (' ', '\x0b') and i in (0, n):
            i = 1 if n > 1 else 0   # leading/trailing ones are removed by str.strip()
            if n <= 1:
                return None
        return toks[:i] + [ch] + toks[i:]
    if mut == 'dotdot':
        return toks + ['+', '1..2']
    if mut == 'lone-dot':
        return toks + ['*', '.']
    if mut == 'exp-plus':
        return ['2', '^', '+', '3', '+'] + toks
    if mut == 'double-neg':
        return ['-', '-'] + toks if toks[0] not in ('-', '—', '+') else ['-', '-', '-'] + toks[1:]
    if mut == 'drop-close':
        cl = [i for i, t in enumerate(toks) if t in (')', ']')]
        if not cl:
            return None
        i = cl[pos % len(cl)]
        return toks[:i] + toks[i + 1:]
    if mut == 'extra-open':
        return ['(' if pick % 2 else '['] + toks
    if mut == 'extra-close':
        return toks + [')' if pick % 2 else ']']
    if mut == 'wrong-close':
        cl = [i for i, t in enumerate(toks) if t == ')']
        if not cl:
            return None
        i = cl[pos % len(cl)]
        return toks[:i] + [']'] + toks[i + 1:]
    raise ValueError(mut)


def judge_invalid(spec, rec):
    t = spec['tree']
    toks = X.render_tokens(t, spec['style'])
    bad = mutate_tokens(toks, spec['mut'], spec['pos'], spec['pick'])
    if bad is None:
        raise Discard('mutation-not-applicable')
    s = (' ' if spec['ws'] else '').join(bad)
    env = X.default_env([[1.3, 0.0]] * len(X.VAR_NAMES))
    # history: the grammatical original is evaluated first (a lossy parse cache would then serve the broken string)
    lib_eval(''.join(toks), env, {})
    kind, out = lib_eval(s, env, {})
    rec.calls()
    rec.cls('invalid/judged')
    rec.cls('invalid/' + spec['mut'])
    if kind == 'ok':
        raise Violation('invalid/valued/' + spec['mut'], 'ungrammatical %r (%s) was given the value %r' % (
            s, spec['mut'], out[0]), string=s)
    if not isinstance(out, (UnableToParse, UnbalancedBrackets)):
        if isinstance(out, MITxError):
            raise Violation('invalid/not-parse-error/' + spec['mut'],
                            'ungrammatical %r (%s) raised %s (%s) instead of a parse error' % (
                                s, spec['mut'], type(out).__name__, str(out)[:100]), string=s)
        raise out
    rec.nontrivial()
    return {'string': s, 'error': type(out).__name__}



# whole strings that other number parsers accept (Python's float()/int(): digit-group underscores, radix prefixes, digits
# of other scripts, words for infinity / not-a-number) but the documented grammar does not: parse error, or - for the
# words, which are grammatical NAMES - an undefined-name error; never a value
NOT_NUMBERS = ['1_0', '1_000.5', '1e1_0', '0x10', '0b1', '0o7', '1__0', '١٢', '１２', '١e1', '1 _0',
               '²', '3²', '⑦', '1 000', '1,5', "1'000", '1e3e2', '1.2.3', '0x1p3', '1d3', '1f', '1L', '1j2']
NOT_NUMBER_WORDS = ['nan', 'NaN', 'inf', 'Inf', 'INF', 'infinity', 'Infinity', '-inf', '+inf', 'infty', '-Infinity', 'NAN']


# names resolve to the SUPPLIED variables, constants and functions: a table the caller supplies explicitly - even an empty
# one - is the whole scope (the library's defaults are what is used when a table is not supplied at all)
DEFAULT_NAME_USES = [('pi', 'v'), ('2*pi', 'v'), ('e', 'v'), ('i*i', 'v'), ('j', 'v'), ('sin(0)+1', 'f'), ('sqrt(4)', 'f'),
                     ('exp(0)', 'f'), ('abs(-1)', 'f'), ('50%', 's'), ('2%+1', 's')]


def items_not_numbers(tier):
    for s, which in DEFAULT_NAME_USES:
        yield {'s': s, 'empty': which}
    for s in NOT_NUMBERS:
        for allow_inf in (False, True):
            yield {'s': s, 'word': False, 'allow_inf': allow_inf}
    for s in NOT_NUMBER_WORDS:
        for allow_inf in (False, True):
            yield {'s': s, 'word': True, 'allow_inf': allow_inf}


def judge_not_number(spec, rec):
    s = spec['s']
    if 'empty' in spec:
        from mitxgraders.helpers.calc import DEFAULT_VARIABLES, DEFAULT_FUNCTIONS
        tables = {'v': ({}, dict(DEFAULT_FUNCTIONS), dict(DEFAULT_SUFFIXES)),
                  'f': (dict(DEFAULT_VARIABLES, x=1.0), {}, dict(DEFAULT_SUFFIXES)),
                  's': (dict(DEFAULT_VARIABLES), dict(DEFAULT_FUNCTIONS), {})}[spec['empty']]
        kind, out = call(evaluator, s, *tables)
        rec.calls()
        rec.cls('empty-supplied-table/' + spec['empty'])
        rec.nontrivial()
        if kind == 'ok':
            raise Violation('scope/default-resolved-although-an-empty-table-was-supplied', '%r evaluated to %r although the '
                            'caller supplied an empty table of %s' % (s, out[0], {'v': 'variables', 'f': 'functions',
                                                                               's': 'suffixes'}[spec['empty']]), string=s)
        if not isinstance(out, (UndefinedVariable, UndefinedFunction)):
            if isinstance(out, MITxError):
                raise Violation('scope/wrong-error', '%r with an empty table raised %s: %s' % (s, type(out).__name__, out))
            raise out
        # control: with the tables not supplied at all the library's defaults apply
        kind2, out2 = call(evaluator, s)
        if kind2 != 'ok':
            raise Violation('scope/defaults-missing', '%r with no tables supplied raised %s' % (s, out2), string=s)
        return {'string': s, 'error': type(out).__name__}
    kind, out = call(evaluator, s, {}, {}, {}, allow_inf=spec['allow_inf'])
    rec.calls()
    if kind == 'ok':
        raise Violation('invalid/valued/not-a-number-literal', '%r (allow_inf=%r, empty scope) was given the value %r' % (
            s, spec['allow_inf'], out[0]), string=s)
    if not isinstance(out, MITxError):
        if lib_frames(out.__traceback__)[0] is not None:
            raise Violation('invalid/not-parse-error/foreign', '%r raised %s: %s' % (s, type(out).__name__, str(out)[:100]))
        raise out
    want = (UndefinedVariable, UndefinedFunction) if spec['word'] else (UnableToParse, UnbalancedBrackets, UndefinedVariable,
                                                                       UndefinedFunction)
    if not isinstance(out, want):
        raise Violation('invalid/not-parse-error/not-a-number-literal', '%r raised %s (%s)' % (
            s, type(out).__name__, str(out)[:100]), string=s)
    rec.cls('not-number/' + ('word' if spec['word'] else 'literal'))
    rec.nontrivial()
    return {'string': s, 'error': type(out).__name__}


# ----------------------------------------------------------------------------------------------------
# case sensitivity


def strat_case(tier):
    return X.fixed_dict({
        'tree': X.trees(var_names=['x', 'theta', 'kT', 'a_b', 'm_e', 'Q^{-1}'], suffixes=None, max_leaves=8,
                        consts=True),
        'which': st.integers(0, 50), 'how': st.sampled_from(['upper', 'lower', 'swap']),
        'style': X.styles()})


CASE_ENV = {'x': 1.3, 'theta': 0.7, 'kT': 2.1, 'a_b': -0.4, 'm_e': 1.9, 'Q^{-1}': 0.55,
            'pi': 3.141592653589793, 'e': 2.718281828459045, 'i': 1j, 'j': 1j}


def judge_case(spec, rec):
    t = spec['tree']
    names = X.names_of(t)
    cands = sorted(names['vars']) + sorted('()' + f for f in names['funcs'])
    if not cands:
        raise Discard('no-names')
    target = cands[spec['which'] % len(cands)]
    isfunc = target.startswith('()')
    name = target[2:] if isfunc else target
    new = {'upper': name.upper(), 'lower': name.lower(), 'swap': name.swapcase()}[spec['how']]
    if new == name or (not isfunc and new in CASE_ENV) or (isfunc and new in LIB_FUNCS):
        raise Discard('case-variant-is-bound')

    def rename(t):
        k = t[0]
        if k == 'var':
            return ['var', new] if (not isfunc and t[1] == name) else t
        if k == 'num':
            return t
        if k == 'call':
            return ['call', new if (isfunc and t[1] == name) else t[1], [rename(a) for a in t[2]]]
        if k in ('par', 'arr'):
            return [k, [rename(a) for a in t[1]]]
        return [k] + [rename(a) for a in t[1:]]

    s = X.render(rename(t), spec['style'])
    kind, out = call(evaluator, s, CASE_ENV, LIB_FUNCS, {})
    rec.calls()
    rec.cls('case/judged')
    want = UndefinedFunction if isfunc else UndefinedVariable
    if kind == 'ok':
        raise Violation('case/valued', '%r uses %r which is not bound (only %r is) but got the value %r' % (
            s, new, name, out[0]), string=s)
    if not isinstance(out, want):
        if isinstance(out, MITxError):
            # another student-facing error may legitimately come first only if it is raised at parse time
            raise Violation('case/wrong-error', '%r: expected %s for %r, got %s: %s' % (
                s, want.__name__, new, type(out).__name__, str(out)[:120]), string=s)
        raise out
    if new not in str(out):
        raise Violation('case/message', 'error for %r does not name %r: %s' % (s, new, out))
    rec.nontrivial()
    return {'string': s, 'error': str(out)[:120]}


# ----------------------------------------------------------------------------------------------------
# grader verdicts on constant expressions


def strat_verdict(tier):
    return X.fixed_dict({
        'tree': X.trees(var_names=[], suffixes=None, max_leaves=8, consts=True,
                        func_names=['sin', 'cos', 'exp', 'sqrt', 'abs', 'cosh', 'min', 'max']),
        'styles': st.lists(X.styles(), min_size=2, max_size=2),
        'ws': X.whitespace_styles(),
        'grader': st.sampled_from(['numerical', 'formula']),
    })


def judge_verdict(spec, rec):
    t = spec['tree']
    env = X.default_env([[1.0, 0.0]] * len(X.VAR_NAMES))
    ref, tol = X.ref_with_conditioning(t, env)
    if abs(ref) < 1e-3:
        raise Discard('value-near-zero')
    a = X.render(t, spec['styles'][0])
    b = X.render(t, spec['styles'][1], spec['ws'])
    cls = NumericalGrader if spec['grader'] == 'numerical' else FormulaGrader
    kind, g = call(cls, answers=a)
    if kind == 'err':
        if isinstance(g, MITxError):
            raise Violation('verdict/config-raised', 'answer %r (value %r) refused: %s' % (a, ref, g))
        raise g
    kind, r = call(g, None, b)
    rec.calls()
    if kind == 'err':
        if isinstance(r, MITxError):
            raise Violation('verdict/raised', 'expect %r student %r raised %s' % (a, b, r))
        raise r
    if r['ok'] is not True:
        raise Violation('verdict/same-value-wrong', 'expect %r vs student %r (same tree, value %r) graded %r' % (
            a, b, ref, r))
    wrong = '(' + b + ')*1.5'
    kind, r2 = call(g, None, wrong)
    rec.calls()
    if kind == 'err':
        if isinstance(r2, MITxError):
            raise Violation('verdict/raised', 'student %r raised %s' % (wrong, r2))
        raise r2
    if r2['ok'] is not False:
        raise Violation('verdict/different-value-right', 'expect %r (value %r) vs student %r graded %r' % (
            a, ref, wrong, r2))
    rec.nontrivial(a != b)
    rec.cls('verdict/' + spec['grader'])
    return {'expect': a, 'student': b}


# ----------------------------------------------------------------------------------------------------
# matrices: the same operator semantics over square-matrix literals (integer powers incl. a signed exponent)

M_FORMS = [
    ('{A}^{n}', lambda A, B, v, k, n: mpow(A, n)),
    ('-{A}^{n}', lambda A, B, v, k, n: -mpow(A, n)),
    ('{k}*{A}^-{m}', lambda A, B, v, k, n: k * mpow(A, -abs(n))),
    ('{A}^-1^2', lambda A, B, v, k, n: mpow(A, -1)),
    ('{A}^-2^2', lambda A, B, v, k, n: mpow(A, -4)),
    ('{A}*{B}^-1', lambda A, B, v, k, n: A @ mpow(B, -1)),
    ('{A}^2*{B}', lambda A, B, v, k, n: A @ A @ B),
    ('{A}*{B}-{B}*{A}', lambda A, B, v, k, n: A @ B - B @ A),
    ('({A}+{B})^2', lambda A, B, v, k, n: (A + B) @ (A + B)),
    ('{A}^{n}*{v}', lambda A, B, v, k, n: mpow(A, n) @ v),
    ('{A}/{k}+{B}^{n}', lambda A, B, v, k, n: A / k + mpow(B, n)),
    ('({A}^-1)^-1', lambda A, B, v, k, n: A),
    ('{A}^-{m}*{A}^{m}', lambda A, B, v, k, n: np.eye(len(A))),
]
M_EVENTS = ['none', 'none', 'np-off-refuses-inverse', 'np-off-undefined-name', 'np-off-success', 'np-on-singular',
            'np-off-wrong-shape']


def mpow(A, n):
    return np.linalg.matrix_power(A, n)


def mtext(A, spaced):
    sep = ', ' if spaced else ','
    if A.ndim == 1:
        return '[' + sep.join(str(int(x)) for x in A) + ']'
    return '[' + sep.join('[' + sep.join(str(int(x)) for x in row) + ']' for row in A) + ']'


@st.composite
def square(draw, dim):
    for _ in range(6):
        A = np.array(draw(st.lists(st.integers(-3, 3), min_size=dim * dim, max_size=dim * dim)), dtype=float).reshape(dim, dim)
        if abs(round(np.linalg.det(A))) in (1, 2):
            return A.tolist()
    return (np.eye(dim) + np.triu(np.ones((dim, dim)), 1)).tolist()       # unit upper triangular: determinant 1


def strat_matrices(tier):
    return st.integers(2, 3).flatmap(lambda dim: X.fixed_dict({
        'A': square(dim), 'B': square(dim), 'v': st.lists(st.integers(-3, 3), min_size=dim, max_size=dim),
        'k': st.sampled_from([2, 3, -2, 5]), 'n': st.sampled_from([-3, -2, -1, -1, 0, 1, 2, 3]),
        'form': st.integers(0, len(M_FORMS) - 1), 'event': st.integers(0, len(M_EVENTS) - 1), 'spaced': st.booleans()}))


def matrix_event(name, atext):
    """What happened in the process just before the evaluation: a MatrixGrader (an object that switches the library's
    negative-power behaviour for the duration of ITS check) graded or refused a submission."""
    from mitxgraders import MatrixGrader
    if name == 'none':
        return
    if name == 'np-on-singular':
        g, sub = MatrixGrader(answers=atext, max_array_dim=2), '[[1,1],[1,1]]^-1'
    else:
        g = MatrixGrader(answers=atext, max_array_dim=2, negative_powers=False)
        sub = {'np-off-refuses-inverse': atext + '^-1', 'np-off-undefined-name': 'Q*2', 'np-off-success': atext,
               'np-off-wrong-shape': '[1,2,3,4,5]+' + atext}[name]
    call(g, None, sub)


def judge_matrix(spec, rec):
    A, B, v = np.array(spec['A']), np.array(spec['B']), np.array(spec['v'], dtype=float)
    k, n = spec['k'], spec['n']
    template, ref_fn = M_FORMS[spec['form']]
    names = {'A': mtext(A, spec['spaced']), 'B': mtext(B, spec['spaced']), 'v': mtext(v, spec['spaced']),
             'k': str(k), 'n': str(n), 'm': str(abs(n))}
    text = template.format(**names)
    if spec['spaced']:
        text = text.replace('*', ' * ').replace('^', ' ^ ')
    want = np.asarray(ref_fn(A, B, v, k, n), dtype=float)
    matrix_event(M_EVENTS[spec['event']], names['A'])
    kind, out = call(evaluator, text, {}, {}, {}, max_array_dim=2)
    rec.calls()
    if kind == 'err':
        if isinstance(out, MITxError):
            raise Violation('matrix/raised/' + type(out).__name__, '%r (documented value %s) raised %s: %s%s' % (
                text, want.tolist(), type(out).__name__, out,
                '' if M_EVENTS[spec['event']] == 'none' else ' [just before: MatrixGrader event %r]' % M_EVENTS[spec['event']]))
        raise out
    got = np.asarray(out[0], dtype=complex)
    scale = max(1.0, float(np.max(np.abs(want))))
    if got.shape != want.shape or not np.all(np.abs(got - want) <= 1e-8 * scale):
        raise Violation('matrix/value', '%r evaluated to %s, documented operator semantics give %s' % (
            text, got.tolist(), want.tolist()))
    rec.nontrivial(True)
    rec.cls('matrix/form/' + template)
    rec.cls('matrix/event/' + M_EVENTS[spec['event']])
    if n < 0:
        rec.cls('matrix/negative-exponent')
    return {'text': text, 'value': want.tolist()}


PARTS = [
    Part('flat', 'enum', judge_flat, items=items_flat, exhaustive=True),
    Part('literals', 'enum', judge_literal, items=items_literals, exhaustive=True),
    Part('not-numbers', 'enum', judge_not_number, items=items_not_numbers, exhaustive=True, shards=2),
    Part('trees', 'hyp', judge_tree, strategy=strat_trees, budget={'quick': 5000, 'thorough': 150000}),
    Part('invalid', 'hyp', judge_invalid, strategy=strat_invalid, budget={'quick': 3000, 'thorough': 60000}),
    Part('case', 'hyp', judge_case, strategy=strat_case, budget={'quick': 1200, 'thorough': 20000}),
    Part('verdict', 'hyp', judge_verdict, strategy=strat_verdict, budget={'quick': 800, 'thorough': 15000}),
    Part('matrices', 'hyp', judge_matrix, strategy=strat_matrices, budget={'quick': 1500, 'thorough': 40000}),
    # coverage-guided (atheris/libFuzzer over the same strategies and oracles; thorough tier only, vlib/fuzzworker.py)
    Part('trees-fuzz', 'fuzz', judge_tree, strategy=strat_trees, budget={'quick': 0, 'thorough': 160000}),
    Part('invalid-fuzz', 'fuzz', judge_invalid, strategy=strat_invalid, budget={'quick': 0, 'thorough': 160000}),
]
