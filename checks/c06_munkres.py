"""C06 - the assignment solver returns a complete minimum-cost matching for any matrix."""
import copy
import itertools

from hypothesis import strategies as st

from vlib.core import Part, Violation, watchdog
from vlib.oracles import min_cost_matching, brute_min_cost

from mitxgraders.helpers.munkres import Munkres

RULE = ("Cases are cost matrices (exhaustive: every r x c matrix, r,c<=3, over {0,1,2} and every 4x4 over {0,1}; "
        "random: int / float / tie-heavy / grade-like matrices up to 10x10) and histories of solves on one reused "
        "Munkres object. Oracle: exact optimum by permutation enumeration (small) or subset DP; validity of the "
        "returned pairs; caller's matrix unchanged. Matrices with repeated rows are also passed with those rows aliased (one list object). Non-trivial = entries not all equal AND (rectangular, or the "
        "identity/diagonal assignment is not optimal, or a float matrix with a repeated entry); distinct by matrix.")
ASSUMPTIONS = ["costs are finite, non-negative Python ints/floats <= 1e6; matrices are rectangular (not ragged), "
               "as the solver documents", "a solve is given 5 s (normal: < 5 ms) before it counts as non-terminating"]
REQUIRED = {'aliased-rows': 200, 'rectangular': 50, 'float': 50, 'identity-not-optimal': 50, 'reused-solver': 20}

PAL = [0, 0.1, 1 / 3, 0.5, 0.7, 1]


def judge_matrix(M, rec, solver=None, small=False):
    M0 = copy.deepcopy(M)
    s = solver if solver is not None else Munkres()
    with watchdog(5):
        res = s.compute(M)
    rec.calls()
    r, c = len(M0), len(M0[0])
    if M != M0:
        raise Violation('matrix-mutated', 'compute() changed the caller\'s matrix', before=M0, after=M)
    if not isinstance(res, list) or len(res) != min(r, c):
        raise Violation('pair-count', 'expected %d pairs, got %r' % (min(r, c), res))
    rows = [p[0] for p in res]
    cols = [p[1] for p in res]
    if len(set(rows)) != len(rows) or len(set(cols)) != len(cols):
        raise Violation('not-one-to-one', 'row or column used twice: %r' % (res,))
    if not all(isinstance(i, int) and isinstance(j, int) and 0 <= i < r and 0 <= j < c for i, j in res):
        raise Violation('index-range', 'index out of range: %r' % (res,))
    total = sum(M0[i][j] for i, j in res)
    best = brute_min_cost(M0) if small else min_cost_matching(M0)
    scale = max(1.0, sum(abs(x) for row in M0 for x in row))
    if abs(total - best) > 1e-9 * scale:
        raise Violation('suboptimal', 'matching cost %r but optimum is %r' % (total, best), result=res)
    flat = [x for row in M0 for x in row]
    isfloat = any(isinstance(x, float) for x in flat)
    ident = sum(M0[i][i] for i in range(min(r, c)))
    nt = len(set(flat)) > 1 and (r != c or ident > best + 1e-9 * scale or (isfloat and len(set(flat)) < len(flat)))
    if r != c:
        rec.cls('rectangular')
    if isfloat:
        rec.cls('float')
    if ident > best + 1e-9 * scale:
        rec.cls('identity-not-optimal')
    rec.nontrivial(nt)
    return {'pairs': res, 'cost': total, 'optimum': best}


def rows_of(spec):
    """The caller's matrix.  With spec['alias'] rows that are equal by value are THE SAME list object (the
    `[row] * n` idiom) - nothing in the contract forbids that, and a solver that works in place on its copy must not
    be confused by it."""
    rows = [list(r) for r in spec['m']]
    if spec.get('alias'):
        first = {}
        rows = [first.setdefault(tuple(r), r) for r in rows]
    return rows


def judge_small(spec, rec):
    if spec.get('alias'):
        rec.cls('aliased-rows')
    return judge_matrix(rows_of(spec), rec, small=True)


def items_small3(tier):
    for r in range(1, 4):
        for c in range(1, 4):
            for vals in itertools.product([0, 1, 2], repeat=r * c):
                m = [list(vals[i * c:(i + 1) * c]) for i in range(r)]
                yield {'m': m}
                if len({tuple(x) for x in m}) < r:
                    yield {'m': m, 'alias': True}


def items_bin4(tier):
    for vals in itertools.product([0, 1], repeat=16):
        m = [list(vals[i * 4:(i + 1) * 4]) for i in range(4)]
        yield {'m': m}
        if len({tuple(x) for x in m}) < 4:
            yield {'m': m, 'alias': True}


def matrices(max_dim=10):
    pal = st.sampled_from(PAL)
    grade_like = st.one_of(
        st.builds(lambda a, b: 1 - a * b, pal, pal),
        st.builds(lambda a, b, c: 1 - (a + b + c) / 3, pal, pal, pal),
        st.builds(lambda a: 1 - a, pal))
    entry = st.sampled_from([
        st.integers(0, 9), st.integers(0, 2), st.integers(0, 1000),
        st.floats(0, 1, allow_nan=False), st.floats(0, 1e6, allow_nan=False, allow_subnormal=False),
        grade_like, st.one_of(st.integers(0, 3), grade_like),
        st.sampled_from([0, 0.5, 1.0, 1.5]),
    ])
    dims = st.tuples(st.integers(1, max_dim), st.integers(1, max_dim))
    return st.tuples(entry, dims).flatmap(
        lambda ed: st.lists(st.lists(ed[0], min_size=ed[1][1], max_size=ed[1][1]),
                            min_size=ed[1][0], max_size=ed[1][0]))


def strat_random(tier):
    plain = matrices().map(lambda m: {'m': m})
    # matrices with repeated rows, passed with the repeated rows aliased
    dup = st.tuples(matrices(7), st.lists(st.integers(0, 6), min_size=1, max_size=4)).map(
        lambda p: {'m': p[0] + [p[0][i % len(p[0])] for i in p[1]], 'alias': True})
    return st.one_of(plain, plain, plain, dup)


def judge_random(spec, rec):
    if spec.get('alias'):
        rec.cls('aliased-rows')
    return judge_matrix(rows_of(spec), rec)


def strat_history(tier):
    step = st.tuples(matrices(6), st.booleans())
    return st.lists(step, min_size=2, max_size=12).map(
        lambda steps: {'steps': [{'m': m, 'fresh': f} for m, f in steps]})


def judge_history(spec, rec):
    shared = Munkres()
    out = []
    for k, stp in enumerate(spec['steps']):
        M = rows_of(stp)
        try:
            o = judge_matrix(M, rec, solver=None if stp['fresh'] else shared)
        except Violation as v:
            if not stp['fresh']:
                # does a fresh solver get it right?  then the fault is state carried across solves
                try:
                    judge_matrix([list(r) for r in stp['m']], rec)
                    raise Violation('reuse/' + v.key, 'step %d on a reused solver: %s' % (k, v.msg))
                except Violation as v2:
                    if v2.key.startswith('reuse/'):
                        raise
            raise
        if not stp['fresh'] and k > 0:
            rec.cls('reused-solver')
            rec.nontrivial()
        out.append(o['cost'])
    return {'costs': out}


PARTS = [
    Part('small3', 'enum', judge_small, items=items_small3, exhaustive=True),
    Part('bin4', 'enum', judge_small, items=items_bin4, exhaustive=True),
    Part('random', 'hyp', judge_random, strategy=strat_random, budget={'quick': 12000, 'thorough': 400000}),
    Part('history', 'hyp', judge_history, strategy=strat_history, budget={'quick': 1500, 'thorough': 40000}),
]
