"""known_findings.json: committed list of genuine defects recorded (status "known") or repaired (status "fixed").

Only "known" entries suppress anything, and only the root-cause bucket they name: a violation whose key equals the
entry's key (or lies below it, key + '/...').  The file is never written at run time.
"""
import json
import os

HERE = os.path.dirname(os.path.dirname(os.path.abspath(__file__)))
_cache = None


def entries():
    global _cache
    if _cache is None:
        p = os.path.join(HERE, 'known_findings.json')
        if os.path.exists(p):
            with open(p) as f:
                _cache = json.load(f).get('findings', [])
        else:
            _cache = []
    return _cache


def is_known(pid, key):
    for e in entries():
        if e.get('status') == 'known' and e.get('property') == pid:
            k = e.get('key', '')
            if key == k or key.startswith(k + '/'):
                return True
    return False


def known_lines(pid):
    return ['KNOWN-FINDING: property=%s %s [%s]' % (pid, e.get('what', ''), e.get('key', ''))
            for e in entries() if e.get('status') == 'known' and e.get('property') == pid]
