"""Grader specs for C01 / C02: Hypothesis strategies of JSON-able grader descriptions, a builder, input strategies.

A grader spec is plain JSON: {'$g': class name, 'kw': {option: value}} where values may contain the tags
  {'$t': [...]}                      tuple
  {'$g': name, 'kw': {...}}          (sub)grader
  {'$cmp': name, ...}                comparer by name (equality, linear, entry, congruence, between, author)
  {'$credit': name, ...}             attempt_based_credit schedule by name (linear, geometric, reciprocal, table)
  {'$ss': name, ...}                 sampling set by a small dict (real, int, disc, cplx, vec, mat)
  {'$fn': name}                      author function by name (sq, sum2)
build(spec, debug=None) turns it into a library object (debug overrides the top-level debug option).

Token conventions (used by the debug-leak oracle): every configured answer / variable starts with 'zq'; tokens starting
with 'zqs' are *sentinels* - stored answers or sampled variables that occur in no generated input and no configured
message; configured messages start with 'zqm' / 'zqw'.

grader_cases() draws {'kind', 'g', 'single', 'slots'}: 'slots' holds one Slot per input box (Hypothesis strategies for
matching / near-miss student text; not JSON - only the drawn inputs go into a case spec).
"""
import re
from vlib import rivals, forms

from hypothesis import strategies as st

from mitxgraders import (StringGrader, FormulaGrader, NumericalGrader, MatrixGrader, SingleListGrader, ListGrader,
                         IntervalGrader, SumGrader, LinearCredit, GeometricCredit, ReciprocalCredit,
                         RealInterval, IntegerRange, DiscreteSet, ComplexRectangle, RealVectors, RealMatrices)
from mitxgraders.comparers import (equality_comparer, LinearComparer, MatrixEntryComparer, congruence_comparer,
                                   between_comparer)
from vlib.models import TableGrader

GRADERS = {'StringGrader': StringGrader, 'FormulaGrader': FormulaGrader, 'NumericalGrader': NumericalGrader,
           'MatrixGrader': MatrixGrader, 'SingleListGrader': SingleListGrader, 'ListGrader': ListGrader,
           'IntervalGrader': IntervalGrader, 'SumGrader': SumGrader, 'TableGrader': TableGrader}

PAL = [0, 0.1, 1 / 3, 0.5, 0.7, 1]
KINDS = ['String', 'Formula', 'Numerical', 'Matrix', 'SingleList', 'Interval', 'Sum', 'List']

# ----------------------------------------------------------------------------------------------------
# spec -> library objects


def _author_comparer(hit, miss):
    def zq_author_comparer(comparer_params_eval, student_eval, utils):
        same = utils.within_tolerance(comparer_params_eval[0], student_eval)
        r = hit if same else miss
        return dict(r) if isinstance(r, dict) else r
    return zq_author_comparer


def _table_credit(vals):
    vals = list(vals)

    def zq_author_credit(n):
        return vals[min(max(n, 1), len(vals)) - 1]
    return zq_author_credit


def _sq(x):
    return x * x


def _sum2(x, y):
    return x + y


FUNCS = {'sq': _sq, 'sum2': _sum2}


def decode(o):
    if isinstance(o, list):
        return [decode(x) for x in o]
    if isinstance(o, dict):
        if '$t' in o:
            return tuple(decode(x) for x in o['$t'])
        if '$g' in o:
            return forms.make(GRADERS[o['$g']], {k: decode(v) for k, v in o['kw'].items()}, o)
        if '$cmp' in o:
            k = o['$cmp']
            if k == 'equality':
                return equality_comparer
            if k == 'linear':
                return LinearComparer(**o.get('kw', {}))
            if k == 'entry':
                return MatrixEntryComparer(**o.get('kw', {}))
            if k == 'congruence':
                return congruence_comparer
            if k == 'between':
                return between_comparer
            if k == 'author':
                return _author_comparer(o['hit'], o['miss'])
            raise ValueError('comparer ' + k)
        if '$credit' in o:
            k = o['$credit']
            if k == 'linear':
                return LinearCredit(**o.get('kw', {}))
            if k == 'geometric':
                return GeometricCredit(**o.get('kw', {}))
            if k == 'reciprocal':
                return ReciprocalCredit()
            if k == 'table':
                return _table_credit(o['vals'])
            raise ValueError('credit ' + k)
        if '$ss' in o:
            k = o['$ss']
            if k == 'real':
                return RealInterval(list(o['v']))
            if k == 'int':
                return IntegerRange(list(o['v']))
            if k == 'disc':
                return DiscreteSet(tuple(o['v']))
            if k == 'cplx':
                return ComplexRectangle(re=list(o['re']), im=list(o['im']))
            if k == 'vec':
                return RealVectors(shape=o['n'], norm=list(o['norm']))
            if k == 'mat':
                return RealMatrices(shape=list(o['shape']), norm=list(o['norm']))
            raise ValueError('sampling set ' + k)
        if '$fn' in o:
            return FUNCS[o['$fn']]
        return {k: decode(v) for k, v in o.items()}
    return o


def build(spec, debug=None):
    """Grader object from its spec; debug (if not None) overrides the top-level 'debug' option."""
    kw = {k: decode(v) for k, v in spec['kw'].items()}
    if debug is not None:
        kw['debug'] = bool(debug)
    g = forms.make(GRADERS[spec['$g']], kw, spec)     # keyword or single-dictionary spelling (vlib/forms.py)
    rivals.after_build(g)       # a second grader of the same class, built and used before this one is (vlib/rivals.py)
    return g


# ----------------------------------------------------------------------------------------------------
# inspection of a spec (for judges)

SENTINEL_RE = re.compile(r'zqs[a-z0-9]+')


def _walk(o, fn):
    fn(o)
    if isinstance(o, list):
        for x in o:
            _walk(x, fn)
    elif isinstance(o, dict):
        for v in o.values():
            _walk(v, fn)


def spec_info(g):
    """-> {'cls', 'pins' (pinned ok values), 'sentinels', 'credit' (bool), 'classes' (all grader classes used),
           'plain_string_leaves' (every leaf grader is a StringGrader with default cleaning and no SingleListGrader is
           involved; string_expects() then lists every configured answer)}"""
    pins, sent, classes, leaves = [], set(), [], []

    def visit(o):
        if isinstance(o, dict):
            if 'ok' in o and 'expect' in o and o['ok'] != 'computed':
                pins.append(o['ok'])
            if '$g' in o:
                classes.append(o['$g'])
                if o['$g'] not in ('ListGrader', 'SingleListGrader'):
                    leaves.append(o)
        if isinstance(o, str):
            sent.update(SENTINEL_RE.findall(o))
    _walk(g, visit)
    plain = all(l['$g'] == 'StringGrader' and set(l['kw']) <= {'wrong_msg', 'debug', 'answers'} for l in leaves) \
        and 'SingleListGrader' not in classes
    return {'cls': g['$g'], 'pins': pins, 'sentinels': sorted(sent), 'classes': classes,
            'credit': g['kw'].get('attempt_based_credit') is not None, 'plain_string_leaves': plain}


def string_expects(ans, acc=None):
    """All expect strings in a (nested) answers value of plain StringGrader leaves."""
    acc = set() if acc is None else acc
    if isinstance(ans, str):
        acc.add(ans)
    elif isinstance(ans, list):
        for x in ans:
            string_expects(x, acc)
    elif isinstance(ans, dict):
        if '$t' in ans:
            string_expects(ans['$t'], acc)
        elif 'expect' in ans:
            string_expects(ans['expect'], acc)
    return acc


def shape_problem(res, inp, is_list):
    """Cheap re-check of the C01 shape invariants on a returned value: None, or a short description."""
    import numbers

    def entry(e):
        if not isinstance(e, dict) or set(e) != {'ok', 'grade_decimal', 'msg'}:
            return 'entry keys %r' % (sorted(e) if isinstance(e, dict) else type(e).__name__,)
        gd = e['grade_decimal']
        if isinstance(gd, bool) or not isinstance(gd, numbers.Real) or not 0 <= gd <= 1:
            return 'grade_decimal %r' % (gd,)
        if not isinstance(e['msg'], str):
            return 'msg %r' % (e['msg'],)
        if e['ok'] not in (True, False, 'partial'):
            return 'ok %r' % (e['ok'],)
        return None
    if not isinstance(res, dict):
        return 'returned %s' % type(res).__name__
    if is_list:
        if set(res) != {'overall_message', 'input_list'} or not isinstance(res['overall_message'], str) \
                or not isinstance(res['input_list'], list) or len(res['input_list']) != len(inp):
            return 'list result keys %r / entry count' % (sorted(res),)
        for e in res['input_list']:
            p = entry(e)
            if p:
                return p
        return None
    return entry(res)


# ----------------------------------------------------------------------------------------------------
# small strategies

bools = st.booleans()
grades = st.sampled_from([1, 1, 1.0, 0.5, 0, 0.1, 1 / 3, 0.7, 0, 1, 0.5, 1])
msgs = st.one_of(st.just(''), st.integers(0, 40).map(lambda k: 'zqm%d' % k),
                 st.sampled_from(['zqm two\nlines', 'zqm <b>html</b>', 'zqm é中', 'zqm \\(\\frac{1}{2}\\)', 'zqm {0} {x}',
                                  'zqm } {', 'zqm 50% %s %d']))
JUNK = ['', ' ', 'zzz', '0', ',', ';', '()', 'é中文', '١٢٣', 'zqa,', '1 2', '\t', 'x',
        '[', 'zq', ' ', '1e400', 'None', '-', 'a\nb']
junk = st.one_of(st.sampled_from(JUNK), st.text(max_size=6))


def chance(draw, pct):
    # 0 (the value Hypothesis favours and shrinks to) means 'no'
    return draw(st.integers(0, 99)) >= 100 - pct


def subset(draw, pool, lo, hi):
    hi = min(hi, len(pool))
    n = draw(st.integers(lo, hi))
    idx = draw(st.lists(st.integers(0, len(pool) - 1), min_size=n, max_size=n, unique=True))
    return [pool[i] for i in idx]


class Slot:
    """Student-text strategies for one input box: good (matches some configured alternative) / near (plausible)."""

    def __init__(self, good, near, limit=False):
        self.good, self.near = good, near
        self.limit = limit      # a SumGrader limit field: its text stays within the bounded pool (|limit| <= 2000)


def alternatives(draw, expects, sentinel=None, pins=True):
    """expects: JSON expect values -> an ItemGrader 'answers' value (single answer or tuple of answers)."""
    alts = []
    for e in expects:
        form = draw(st.integers(0, 9))
        if form < 3:
            alts.append(e)
            continue
        d = {'expect': e, 'grade_decimal': draw(grades)}
        if form < 8:
            d['msg'] = draw(msgs)
        if pins and chance(draw, 8):
            d['ok'] = draw(st.sampled_from([True, False, 'partial', 'computed']))
        alts.append(d)
    if len(alts) >= 2 and chance(draw, 15):
        # two expects sharing one answer dictionary (expect tuple)
        a, b = alts[0], alts[1]
        ea = a['expect'] if isinstance(a, dict) and 'expect' in a else a
        eb = b['expect'] if isinstance(b, dict) and 'expect' in b else b
        alts[:2] = [{'expect': {'$t': [ea, eb]}, 'grade_decimal': draw(grades), 'msg': draw(msgs)}]
    if sentinel is not None:
        alts.append({'expect': sentinel, 'grade_decimal': draw(grades)})
    if len(alts) == 1 and chance(draw, 60):
        return alts[0]
    return {'$t': alts}


# ----------------------------------------------------------------------------------------------------
# leaf families: opts(draw) -> option dict (no answers) ; answer(draw) -> (answers JSON, Slot)

S_POOL = ['zqa', 'zqb', 'zqc', 'zqd', 'zq e f', 'ZQA', 'zqg']


class StringLeaf:
    cls = 'StringGrader'
    commas = False

    def __init__(self, plain=False):
        self.plain = plain

    def opts(self, draw):
        kw = {}
        if chance(draw, 30):
            kw['wrong_msg'] = draw(st.sampled_from(['zqw1', 'zqw two\nlines']))
        if self.plain or chance(draw, 45):
            return kw
        for name, val in (('case_sensitive', False), ('strip', False), ('strip_all', True), ('clean_spaces', False)):
            if chance(draw, 25):
                kw[name] = val
        k = draw(st.integers(0, 9))
        if k < 2:
            kw['validation_pattern'] = draw(st.sampled_from(['[A-Za-z ]+', '(?i)zq.*', 'zq[a-z ]*|ZQA']))
            kw['explain_validation'] = draw(st.sampled_from(['err', 'msg', None]))
            if chance(draw, 40):
                kw['invalid_msg'] = 'zqm invalid'
        elif k < 4:
            kw[draw(st.sampled_from(['accept_any', 'accept_nonempty']))] = True
            if chance(draw, 60):
                kw['min_length'] = draw(st.integers(0, 6))
            if chance(draw, 40):
                kw['min_words'] = draw(st.integers(0, 3))
            kw['explain_minimums'] = draw(st.sampled_from(['err', 'msg', None]))
        return kw

    def answer(self, draw):
        exp = subset(draw, S_POOL, 1, 4)
        sentinel = 'zqsx' + draw(st.sampled_from('abcdefgh')) if (not self.plain and chance(draw, 30)) else None
        ans = alternatives(draw, exp, sentinel)
        variants = []
        for e in exp:
            variants += [e, ' ' + e + ' ', e + '\t', e.replace(' ', '  ')]
        near = st.one_of(st.sampled_from(S_POOL + [e.upper() for e in exp] + [e + 'x' for e in exp] + variants),
                         st.sampled_from(['zqa zqb', 'zq', 'zqq', 'one two three', 'zqé']))
        return ans, Slot(st.sampled_from(variants), near)


F_FORMS = [
    ('zqx+1', ['1+zqx', 'zqx+1+0', '(zqx+1)', 'zqx + 1', 'zqx+1.00001'],
     ['zqx', 'zqx+1.01', 'zqx-1', '2*(zqx+1)', 'zqx+1+zqy', 'zqx+4']),
    ('2*zqx', ['zqx+zqx', 'zqx*2', '2*zqx*1'], ['zqx', '4*zqx', '2*zqx+3', '-2*zqx']),
    ('zqx^2', ['zqx*zqx', '(zqx)^2', 'zqx^2.0'], ['zqx^3', '-zqx^2', '0.5*zqx^2', 'zqx^2+1']),
    ('zqx*zqy', ['zqy*zqx', 'zqx*zqy/1'], ['zqx+zqy', '3*zqx*zqy', 'zqx*zqy+2']),
    ('zqx/zqy', ['zqx*zqy^-1', '1/(zqy/zqx)'], ['zqy/zqx', '2*zqx/zqy']),
    ('sin(zqx)+zqy', ['zqy+sin(zqx)', 'sin(zqx)+zqy+0'], ['cos(zqx)+zqy', 'sin(zqx)']),
    ('0', ['zqx-zqx', '0*zqy', '0.0'], ['1e-9', 'zqx', '1']),
    ('zqf(zqx)', ['zqf(zqx)+0', 'zqx^2'], ['zqf(zqy)', 'zqf(2*zqx)']),
    ('zqn_{1}+zqn_{2}', ['zqn_{2}+zqn_{1}'], ['zqn_{1}', 'zqn_{1}+zqn_{3}']),
    ('zqc*zqx', ['zqx*zqc', '3*zqx'], ['zqc', 'zqx']),
    ('2', ['1+1', '2.0', '4/2'], ['3', '2*zqx', '2.1']),
]
F_JUNK = ['zqx+', '(zqx', 'zqz', 'zqx/0', 'sin(zqx,zqy)', '1e308*10', '[1,2]', 'zqx zqy', '', 'ln(0)', 'zqx^(1/0)',
          'Zqx', 'sin', '2(zqx)', 'zqshid']


def sample_sets(draw):
    k = draw(st.integers(0, 6))
    if k == 0:
        return {'$ss': 'real', 'v': [draw(st.sampled_from([1, 0.5, -2])), draw(st.sampled_from([5, 3, 2.5]))]}
    if k == 1:
        return {'$ss': 'int', 'v': [1, draw(st.integers(2, 6))]}
    if k == 2:
        return {'$ss': 'disc', 'v': draw(st.sampled_from([[1, 2, 3], [2.5], [1, 1.5, 4, 7]]))}
    if k == 3:
        return {'$ss': 'cplx', 're': [1, 3], 'im': [1, 2]}
    if k == 4:
        return [1, 3]
    if k == 5:
        return {'$t': [2, 3, 5]}
    return 2.5


class FormulaLeaf:
    cls = 'FormulaGrader'
    commas = True
    forms = F_FORMS
    junk = F_JUNK

    def __init__(self):
        self.samples = 5

    def base_opts(self, draw):
        kw = {'variables': ['zqx', 'zqy'], 'numbered_vars': ['zqn'], 'user_functions': {'zqf': {'$fn': 'sq'}},
              'user_constants': {'zqc': 3}}
        if chance(draw, 35):
            kw['variables'] = ['zqx', 'zqy', 'zqshid']
        return kw

    def opts(self, draw):
        kw = self.base_opts(draw)
        self.samples = draw(st.sampled_from([1, 2, 3, 3, 5, 5]))
        if self.samples != 5 or chance(draw, 30):
            kw['samples'] = self.samples
        if chance(draw, 20) and self.samples > 1:
            kw['failable_evals'] = 1
        if chance(draw, 35):
            kw['tolerance'] = draw(st.sampled_from(['0.01%', 0.01, '1%', 0, 1e-6, '5%', 0.5]))
        if chance(draw, 30) and 'variables' in kw:
            sf = {}
            for v in kw['variables']:
                if chance(draw, 50):
                    sf[v] = sample_sets(draw)
            if sf:
                kw['sample_from'] = sf
        k = draw(st.integers(0, 19))
        if k == 0:
            kw['blacklist'] = ['sin']
        elif k == 1:
            kw['whitelist'] = draw(st.sampled_from([['sin', 'cos'], [None], ['exp']]))
        elif k == 2:
            kw['forbidden_strings'] = draw(st.sampled_from([['+0'], ['*1', 'zqx*zqx'], ['zqx + zqx']]))
            if chance(draw, 50):
                kw['forbidden_message'] = 'zqm forbidden'
        elif k == 3:
            kw['required_functions'] = ['sin']
        elif k == 4:
            kw['metric_suffixes'] = True
        elif k == 5 and 'variables' in kw:
            kw['instructor_vars'] = ['zqy']
        if chance(draw, 30):
            kw['wrong_msg'] = 'zqw2'
        return kw

    def expect_value(self, draw, form):
        """expect JSON for a form: the string, or a comparer dictionary."""
        e = form[0]
        k = draw(st.integers(0, 19))
        if k < 11:
            return e
        if k < 14 and self.samples >= 3:
            ckw = {}
            for mode in ('equals', 'proportional', 'offset', 'linear'):
                if chance(draw, 50):
                    ckw[mode] = draw(st.sampled_from([None, 0, 0.1, 1 / 3, 0.5, 0.7, 1, 1.0]))
                    if chance(draw, 50):
                        ckw[mode + '_msg'] = 'zqm ' + mode
            return {'comparer_params': [e], 'comparer': {'$cmp': 'linear', 'kw': ckw}}
        if k < 16:
            return {'comparer_params': [e, draw(st.sampled_from(['3', '2*pi', 'zqx']))],
                    'comparer': {'$cmp': 'congruence'}}
        if k < 19:
            rets = st.one_of(st.sampled_from([True, False, 'partial', 'Partial']),
                             st.builds(lambda g, m: {'grade_decimal': g, 'msg': m}, grades, msgs),
                             grades.map(lambda g: {'grade_decimal': g}))
            return {'comparer_params': [e], 'comparer': {'$cmp': 'author', 'hit': draw(rets), 'miss': draw(rets)}}
        return {'comparer_params': [e], 'comparer': {'$cmp': 'equality'}}

    def answer(self, draw):
        forms = subset(draw, self.forms, 1, 3)
        exp = [self.expect_value(draw, f) for f in forms]
        ans = alternatives(draw, exp)
        # the first near miss of a form is the one a partial-credit comparer rewards (one entry off, offset, factor)
        good = [s for f in forms for s in [f[0]] + f[1] + f[2][:1]]
        near = [s for f in forms for s in f[2]] + [f[0] for f in self.forms]
        return ans, Slot(st.sampled_from(good), st.one_of(st.sampled_from(near), st.sampled_from(self.junk)))


N_FORMS = [
    ('3', ['3.0', '2+1', '6/2', '3.1'], ['4', '3.5', '-3', '30', '3*i']),
    ('4.5', ['9/2', '4.5e0', '4.6'], ['5', '45']),
    ('2^3', ['8', '8.2', '2*2*2'], ['9', '6']),
    ('1e3', ['1000', '10^3', '1k'], ['1100', '1e4']),
    ('-2', ['0-2', '-2.05'], ['2', '-3']),
    ('0', ['0.0', '1-1'], ['0.1', '1e-3']),
    ('2+3*i', ['3*i+2', '2+3*j'], ['2-3*i', '2']),
    ('zqc', ['3', 'zqc+0'], ['4']),
]
N_JUNK = ['1/0', '3+', 'three', '', '1e999', 'sqrt(-1)', 'zqx', '3,0', '0/0', 'ln(0)', '(3', '3 3', '٣']


class NumericalLeaf(FormulaLeaf):
    cls = 'NumericalGrader'
    commas = False
    forms = N_FORMS
    junk = N_JUNK

    def opts(self, draw):
        self.samples = 1
        kw = {'user_constants': {'zqc': 3}}
        if chance(draw, 40):
            kw['tolerance'] = draw(st.sampled_from(['5%', 0.01, '1%', 0, 1e-6, 0.5]))
        if chance(draw, 15):
            kw['metric_suffixes'] = True
        if chance(draw, 25):
            kw['wrong_msg'] = 'zqw3'
        return kw

    def expect_value(self, draw, form):
        e = form[0]
        k = draw(st.integers(0, 19))
        if k < 13:
            return e
        if k < 15:
            return {'comparer_params': [e, draw(st.sampled_from(['3', '2*pi', '7']))], 'comparer': {'$cmp': 'congruence'}}
        if k < 17:
            lo, hi = draw(st.sampled_from([['2', '4'], ['-3', '0'], ['0', '1e3'], ['7.5', '9']]))
            return {'comparer_params': [lo, hi], 'comparer': {'$cmp': 'between'}}
        return FormulaLeaf.expect_value(self, draw, form)


M_FORMS = [
    ('[1,2]', ['[1,2]+[0,0]', '[2,4]/2', '[1,2.00001]'],
     ['[1,3]', '[2,1]', '[1,2,3]', '5', '[[1,2]]', '[0,0]', '[2,4]', '[9,9]', '[2,3]']),
    ('[zqx,2*zqx]', ['zqx*[1,2]', '[zqx,zqx+zqx]'], ['[zqx,zqx]', '[2*zqx,zqx]', '[zqx+1,2*zqx+1]', '[2*zqx,4*zqx]']),
    ('[[1,2],[3,4]]', ['[[1,2],[3,4]]*1', 'trans([[1,3],[2,4]])'],
     ['[[1,2],[3,5]]', '[[1,0],[0,1]]', '[1,2]', '[[2,4],[6,8]]', '[[9,9],[9,9]]', '[[1,2,3],[4,5,6]]']),
    ('[1,2,3]', ['[1,2,3]*1', '[3,2,1]-[2,0,-2]'], ['[1,2,4]', '[3,2,1]', '[1,2]', '[0,2,0]']),
    ('5', ['2+3', '[1,2]*[1,2]'], ['[5]', '6', '[1,2]']),
    ('zqx*I', ['I*zqx', '[[zqx,0],[0,zqx]]'], ['zqx', 'I', '[[zqx,1],[0,zqx]]']),
]
M_JUNK = ['[1,2', '[1,[2,3]]', '[1,2]+[1,2,3]', '[[1,2],[3,4]]^0.5', '[1,2]||3', '', '[1,2]^-1', '[[1,2],[2,4]]^-1',
          'sin([1,2])', '[1,2]*[[1,2],[3,4]]*[1,2,3]', '[[[1]]]', 'det([1,2])', 'zqz', '[1;2]']


class MatrixLeaf(FormulaLeaf):
    cls = 'MatrixGrader'
    commas = True
    forms = M_FORMS
    junk = M_JUNK

    def opts(self, draw):
        kw = {'variables': ['zqx'], 'identity_dim': 2, 'max_array_dim': 2}
        if chance(draw, 25):
            kw['variables'] = ['zqx', 'zqshid']
        if chance(draw, 15):
            kw['max_array_dim'] = 1
            self.forms = [f for f in M_FORMS if '[[' not in f[0] and 'I' not in f[0]]
        self.samples = draw(st.sampled_from([1, 3, 5, 5]))
        if self.samples != 5:
            kw['samples'] = self.samples
        if chance(draw, 60):
            kw['entry_partial_credit'] = draw(st.sampled_from([0, 0.5, 1 / 3, 'proportional', 1, 0.1]))
        if chance(draw, 25):
            kw['entry_partial_msg'] = draw(st.sampled_from(['zqm entries {error_locations}', '', 'zqm some wrong']))
        if chance(draw, 60):
            kw['answer_shape_mismatch'] = {'is_raised': draw(bools),
                                           'msg_detail': draw(st.sampled_from([None, 'type', 'shape']))}
        if chance(draw, 40):
            kw['shape_errors'] = False
        if chance(draw, 20):
            kw['suppress_matrix_messages'] = True
        if chance(draw, 15):
            kw['negative_powers'] = False
        if chance(draw, 25):
            kw['tolerance'] = draw(st.sampled_from([0.01, '1%', 0, 1e-6]))
        if chance(draw, 25):
            kw['wrong_msg'] = 'zqw4'
        return kw

    def expect_value(self, draw, form):
        e = form[0]
        k = draw(st.integers(0, 19))
        if k < 13:
            return e
        if k < 17:
            ckw = {}
            if chance(draw, 80):
                ckw['entry_partial_credit'] = draw(st.sampled_from([0, 0.5, 'proportional', 1, 0.7]))
            if chance(draw, 40):
                ckw['entry_partial_msg'] = draw(st.sampled_from(['zqm cmp {error_locations}', '']))
            return {'comparer_params': [e], 'comparer': {'$cmp': 'entry', 'kw': ckw}}
        if self.samples >= 3:
            ckw = {'proportional': draw(st.sampled_from([0.5, 0.1, 1, None])),
                   'offset': draw(st.sampled_from([None, 0.5, 1 / 3]))}
            return {'comparer_params': [e], 'comparer': {'$cmp': 'linear', 'kw': ckw}}
        return e


T_EXPECTS = ['zqt1', 'zqt2', 'zqt3']
T_INPUTS = ['zqi1', 'zqi2', 'zqi3', 'zqt1', 'zqt2']


class TableLeaf:
    cls = 'TableGrader'
    commas = False

    def opts(self, draw):
        table = {}
        for e in T_EXPECTS:
            row = {}
            for i in T_INPUTS:
                if chance(draw, 60):
                    row[i] = [draw(grades), draw(msgs)]
            table[e] = row
        self.table = table
        kw = {'table': table}
        if chance(draw, 30):
            kw['wrong_msg'] = 'zqw5'
        return kw

    def answer(self, draw):
        exp = subset(draw, T_EXPECTS, 1, 3)
        ans = alternatives(draw, exp)
        good = [i for e in exp for i, (c, _) in self.table[e].items() if c > 0] or T_INPUTS
        return ans, Slot(st.sampled_from(good), st.sampled_from(T_INPUTS + ['zqi9', '']))


class SingleListLeaf:
    """SingleListGrader over a leaf family (or over another SingleListLeaf: one nesting level)."""
    cls = 'SingleListGrader'
    commas = True

    def __init__(self, base, level=0):
        self.base = base
        if base.cls == 'SingleListGrader':
            self.delims = ['|'] if base.base.commas else [';', '|']
        elif base.commas:
            self.delims = [';']
        else:
            self.delims = [',', ',', ';'] if level == 0 else [',']
        self.level = level

    def opts(self, draw):
        self.delim = draw(st.sampled_from(self.delims))
        if self.base.cls == 'SingleListGrader':
            sub_kw = self.base.opts(draw)
            if self.base.delim == self.delim:
                self.delim = '|' if self.base.delim != '|' else ';'
        else:
            sub_kw = self.base.opts(draw)
        kw = {'subgrader': {'$g': self.base.cls, 'kw': sub_kw}}
        if self.delim != ',' or chance(draw, 20):
            kw['delimiter'] = self.delim
        if chance(draw, 50):
            kw['ordered'] = draw(bools)
        if chance(draw, 40):
            kw['partial_credit'] = draw(bools)
        if chance(draw, 25):
            kw['length_error'] = draw(bools)
        self.missing_error = True
        if chance(draw, 30):
            self.missing_error = draw(bools)
            kw['missing_error'] = self.missing_error
        if chance(draw, 25):
            kw['wrong_msg'] = 'zqw6'
        if chance(draw, 5):
            kw['subgrader']['kw']['debug'] = True
        return kw

    def one_list(self, draw, n):
        items = [self.base.answer(draw) for _ in range(n)]
        return [a for a, _ in items], [s for _, s in items]

    def answer(self, draw):
        n = draw(st.integers(1, 4 if self.level == 0 and self.base.cls != 'SingleListGrader' else 3))
        lists = [self.one_list(draw, n)]
        if chance(draw, 25):
            lists.append(self.one_list(draw, n))
        exp_lists = [l for l, _ in lists]
        plain = all(isinstance(a, str) and self.delim not in a and a.strip() for l in exp_lists for a in l) \
            and self.base.cls != 'SingleListGrader'
        if plain and chance(draw, 30):
            exp_lists = [(self.delim + draw(st.sampled_from(['', ' ']))).join(l) for l in exp_lists]
        expect = exp_lists[0] if len(exp_lists) == 1 else {'$t': exp_lists}
        form = draw(st.integers(0, 9))
        if form < 3 and len(exp_lists) == 1:
            ans = expect
        elif form < 5 and len(exp_lists) > 1:
            ans = {'$t': exp_lists}
        else:
            ans = {'expect': expect, 'grade_decimal': draw(grades), 'msg': draw(msgs)}
            if chance(draw, 8):
                ans['ok'] = draw(st.sampled_from([True, False, 'partial']))
            if chance(draw, 15):
                # a second answer: the same list worth something else / reversed
                other = list(reversed(lists[0][0]))
                ans = {'$t': [ans, {'expect': other, 'grade_decimal': draw(grades), 'msg': draw(msgs)}]}
        delim = self.delim
        slot_lists = [s for _, s in lists]

        @st.composite
        def good(d):
            slots = d(st.sampled_from(slot_lists))
            parts = [d(s.good) for s in slots]
            if d(st.integers(0, 3)) == 0:
                parts = list(d(st.permutations(parts)))
            sep = delim + d(st.sampled_from(['', ' ', '']))
            return sep.join(parts)

        @st.composite
        def near(d):
            slots = d(st.sampled_from(slot_lists))
            k = d(st.integers(max(1, len(slots) - 1), len(slots) + 2))
            parts = []
            for i in range(k):
                s = slots[i % len(slots)]
                c = d(st.integers(0, 9))
                parts.append(d(s.good) if c < 5 else d(s.near) if c < 8 else d(st.sampled_from(['', ' ', 'zzz', delim])))
            sep = delim + d(st.sampled_from(['', ' ', '']))
            out = sep.join(parts)
            if d(st.integers(0, 9)) == 0:
                out += delim
            return out
        return ans, Slot(good(), near())


def item_leaf(draw, kinds=('string', 'formula', 'numerical', 'matrix', 'table')):
    k = draw(st.sampled_from(kinds))
    return {'string': StringLeaf, 'formula': FormulaLeaf, 'numerical': NumericalLeaf, 'matrix': MatrixLeaf,
            'table': TableLeaf}[k]()


# ----------------------------------------------------------------------------------------------------
# top-level builders: (draw) -> (spec, slots, single)


def _item_top(leaf):
    def builder(draw):
        kw = leaf.opts(draw)
        ans, slot = leaf.answer(draw)
        kw['answers'] = ans
        return {'$g': leaf.cls, 'kw': kw}, [slot], True
    return builder


def build_string(draw):
    return _item_top(StringLeaf())(draw)


def build_formula(draw):
    return _item_top(FormulaLeaf())(draw)


def build_numerical(draw):
    return _item_top(NumericalLeaf())(draw)


def build_matrix(draw):
    return _item_top(MatrixLeaf())(draw)


def build_singlelist(draw):
    base = item_leaf(draw, ('string', 'string', 'formula', 'table', 'numerical'))
    leaf = SingleListLeaf(base, level=1) if chance(draw, 25) else base
    return _item_top(SingleListLeaf(leaf))(draw)


I_BOUNDS = [('1', ['1.0', '2-1', '3/3'], ['1.5', '0', '-1']), ('2', ['2.0', '1+1'], ['3', '2.5']),
            ('0', ['0.0', '1-1'], ['1e-3']), ('infty', ['infty'], ['1e9', '-infty']), ('-infty', ['-infty'], ['infty']),
            ('zqx', ['zqx+0', '1*zqx'], ['zqx+1', '2*zqx']), ('pi', ['pi', '2*pi/2'], ['3.14'])]


def build_interval(draw):
    kw = {}
    use_formula = chance(draw, 25)
    if use_formula:
        kw['subgrader'] = {'$g': 'FormulaGrader', 'kw': {'variables': ['zqx'], 'allow_inf': True}}
    elif chance(draw, 25):
        kw['subgrader'] = {'$g': 'NumericalGrader',
                           'kw': {'tolerance': draw(st.sampled_from([1e-13, 0.01, '1%'])), 'allow_inf': True}}
    opening, closing = '[(', '])'
    if chance(draw, 25):
        opening, closing = draw(st.sampled_from([('[(<', '])>'), ('{[(', '}])'), ('(', ')')]))
        kw['opening_brackets'], kw['closing_brackets'] = opening, closing
    delim = ','
    if chance(draw, 20):
        delim = ';'
        kw['delimiter'] = ';'
    if chance(draw, 50):
        kw['partial_credit'] = draw(bools)
    if chance(draw, 25):
        kw['wrong_msg'] = 'zqw7'
    bounds = [b for b in I_BOUNDS if use_formula or b[0] != 'zqx']

    def one(draw):
        ob, cb = draw(st.sampled_from(opening)), draw(st.sampled_from(closing))
        lo, hi = subset(draw, bounds, 2, 2)
        form = draw(st.integers(0, 9))
        if form < 4:
            exp = '%s%s%s%s%s' % (ob, lo[0], delim + draw(st.sampled_from(['', ' '])), hi[0], cb)
        else:
            def bracket(b, pool):
                if chance(draw, 50) or len(pool) < 2:
                    return b
                other = draw(st.sampled_from([c for c in pool if c != b]))
                return {'$t': [b, {'expect': other, 'grade_decimal': draw(grades), 'msg': draw(msgs)}]}

            def bound(b):
                if chance(draw, 50):
                    return b[0]
                return {'expect': b[0], 'grade_decimal': draw(grades), 'msg': draw(msgs)}
            exp = [bracket(ob, opening), bound(lo), bound(hi), bracket(cb, closing)]
        return exp, (ob, cb, lo, hi)
    alts = [one(draw) for _ in range(draw(st.sampled_from([1, 1, 2])))]
    answers = []
    for exp, _ in alts:
        if chance(draw, 40):
            answers.append(exp)
        else:
            answers.append({'expect': exp, 'grade_decimal': draw(grades), 'msg': draw(msgs)})
    kw['answers'] = answers[0] if len(answers) == 1 else {'$t': answers}
    metas = [m for _, m in alts]

    @st.composite
    def good(d):
        ob, cb, lo, hi = d(st.sampled_from(metas))
        sp = d(st.sampled_from(['', ' ']))
        return '%s%s%s%s%s%s%s' % (sp, ob, d(st.sampled_from([lo[0]] + lo[1])), delim + sp,
                                   d(st.sampled_from([hi[0]] + hi[1])), cb, sp)

    @st.composite
    def near(d):
        ob, cb, lo, hi = d(st.sampled_from(metas))
        c = d(st.integers(0, 9))
        if c < 2:
            ob = d(st.sampled_from(opening + '[(<{|x'))
        if c in (2, 3):
            cb = d(st.sampled_from(closing + '])>}|'))
        a = d(st.sampled_from([lo[0]] + lo[1] + lo[2] + ([''] if c == 4 else [])))
        b = d(st.sampled_from([hi[0]] + hi[1] + hi[2] + ([''] if c == 5 else [])))
        if c == 6:
            a, b = b, a
        if c == 7:
            return d(st.sampled_from(['[1]', '1,2', '[1,2,3)', '[]', 'ab', '[,]', '[1' + delim + '2' + delim + ']', '(1 2)']))
        return '%s%s%s%s%s' % (ob, a, delim, b, cb)
    return {'$g': 'IntervalGrader', 'kw': kw}, [Slot(good(), near())], True


SUMS = [
    ({'lower': '1', 'upper': '5', 'summand': 'n^2', 'summation_variable': 'n'},
     [('0', '4', '(n+1)^2', 'n'), ('1', '5', 'k^2', 'k'), ('5', '1', 'n^2', 'n'), ('1', '5', 'n*n', 'n')],
     [('1', '6', 'n^2', 'n'), ('1', '5', 'n^3', 'n'), ('2', '5', 'n^2', 'n'), ('1', '5', 'n^2', 'i'),
      ('1', '5', 'm^2', 'n'), ('1.5', '5', 'n^2', 'n'), ('1', 'infty', 'n^2', 'n')]),
    ({'lower': '0', 'upper': 'infty', 'summand': '(1/2)^n', 'summation_variable': 'n'},
     [('1', 'infty', '(1/2)^(n-1)', 'n'), ('0', 'infty', '2^(-k)', 'k'), ('0', 'infty', '0.5^n', 'n')],
     [('1', 'infty', '(1/2)^n', 'n'), ('0', '3', '(1/2)^n', 'n'), ('-infty', 'infty', '(1/2)^n', 'n'),
      ('infty', 'infty', '(1/2)^n', 'n')]),
    ({'lower': '-3', 'upper': '3', 'summand': 'n*zqx+1', 'summation_variable': 'n'},
     [('-3', '3', '1+zqx*n', 'n'), ('-3', '3', '1', 'k'), ('0', '6', '(m-3)*zqx+1', 'm')],
     [('-3', '3', 'n*zqx', 'n'), ('-3', '4', 'n*zqx+1', 'n'), ('-3', '3', 'n*zqx+1', 'zqx'), ('-3', '3', 'n*zqy', 'n')]),
    ({'lower': '1', 'upper': '4', 'summand': '[n,1]', 'summation_variable': 'n'},
     [('1', '4', '[n,1]', 'n'), ('0', '3', '[k+1,1]', 'k')],
     [('1', '4', '[1,n]', 'n'), ('1', '4', 'n', 'n'), ('1', '3', '[n,1]', 'n')]),
]
SUM_POSITIONS = [None, {'summand': 1}, {'lower': 1, 'upper': 2, 'summand': 3}, {'upper': 1, 'summand': 2, 'lower': 3},
                 {'summand': 1, 'summation_variable': 2}, {'upper': 1},
                 {'summation_variable': 1, 'lower': 2, 'upper': 3, 'summand': 4}]
SUM_FIELDS = ['lower', 'upper', 'summand', 'summation_variable']
# text for a limit field is drawn from here only (|limit| <= 2000: an honest huge loop is slow, not wrong)
SUM_LIMIT_JUNK = ['', 'x', '1.5', 'i', '2*i', '-7', '12', '2000', '-2000', '3+', '(2', 'infty', '-infty', 'zqx', '1/0',
                  '[1,2]', '٣', '1e2', '10^2']


def build_sum(draw):
    ans, equiv, nearm = draw(st.sampled_from(SUMS))
    kw = {'answers': dict(ans), 'variables': ['zqx', 'zqy'],
          'infty_val': draw(st.sampled_from([20, 30, 50, 200]))}
    pos = draw(st.sampled_from(SUM_POSITIONS))
    if pos is not None:
        kw['input_positions'] = pos
    else:
        pos = {'lower': 1, 'upper': 2, 'summand': 3, 'summation_variable': 4}
    if chance(draw, 30):
        kw['even_odd'] = draw(st.sampled_from([0, 1, 2]))
    if chance(draw, 30):
        kw['samples'] = draw(st.sampled_from([1, 2, 3]))
    if chance(draw, 40):
        kw['tolerance'] = draw(st.sampled_from([1e-12, 1e-6, '1%', 0.01]))
    if chance(draw, 15):
        kw['variables'] = ['zqx', 'zqy', 'zqshid']
    order = sorted(pos, key=lambda f: pos[f])
    tuples = [tuple(ans[f] for f in SUM_FIELDS)] + equiv
    slots = []
    for f in order:
        i = SUM_FIELDS.index(f)
        goods = sorted({t[i] for t in tuples})
        nears = sorted({t[i] for t in nearm}) + (SUM_LIMIT_JUNK if i < 2 else ['', 'n+', 'zqz', 'n n', '1/0', 'j', 'pi'])
        slots.append(Slot(st.sampled_from(goods), st.sampled_from(nears), limit=i < 2))
    # consistent rewrites are tuples, so coherent inputs are offered through a joint strategy
    return {'$g': 'SumGrader', 'kw': kw}, slots, len(order) == 1, [[t[SUM_FIELDS.index(f)] for f in order] for t in tuples]


def list_leaf(draw):
    k = draw(st.integers(0, 9))
    if k < 3:
        return StringLeaf(plain=chance(draw, 60))
    if k < 7:
        return item_leaf(draw)
    return SingleListLeaf(item_leaf(draw, ('string', 'formula', 'table')))


def _inner_list(draw, leaf, size, ordered):
    """Nested ListGrader spec (no answers of its own) and the group's answers + slots."""
    kw = {'subgraders': {'$g': leaf.cls, 'kw': leaf.opts(draw)}}
    if ordered is None:
        ordered = draw(bools)
    if ordered or chance(draw, 30):
        kw['ordered'] = ordered
    if chance(draw, 30):
        kw['partial_credit'] = draw(bools)
    return {'$g': 'ListGrader', 'kw': kw}


def _group_answers(draw, leaf, size):
    lists = []
    for _ in range(draw(st.sampled_from([1, 1, 1, 2]))):
        items = [leaf.answer(draw) for _ in range(size)]
        lists.append(items)
    answers = [[a for a, _ in items] for items in lists]
    slots = [s for _, s in lists[0]]
    return (answers[0] if len(answers) == 1 else {'$t': answers}), slots


def build_list(draw):
    mode = draw(st.sampled_from(['flat-single', 'flat-single', 'flat-multi', 'grouped-single', 'grouped-multi']))
    kw = {}
    if mode == 'flat-single':
        leaf = list_leaf(draw)
        kw['subgraders'] = {'$g': leaf.cls, 'kw': leaf.opts(draw)}
        ordered = draw(bools)
        n = draw(st.integers(2, 5))
        lists = []
        for _ in range(draw(st.sampled_from([1, 1, 2, 3]))):
            lists.append([leaf.answer(draw) for _ in range(n)])
        answers = [[a for a, _ in items] for items in lists]
        kw['answers'] = answers[0] if len(answers) == 1 else {'$t': answers}
        slots = [s for _, s in draw(st.sampled_from(lists))]
    elif mode == 'flat-multi':
        ordered = True
        n = draw(st.integers(2, 5))
        leaves = [list_leaf(draw) for _ in range(n)]
        kw['subgraders'] = [{'$g': l.cls, 'kw': l.opts(draw)} for l in leaves]
        items = [l.answer(draw) for l in leaves]
        kw['answers'] = [a for a, _ in items]
        slots = [s for _, s in items]
    elif mode == 'grouped-single':
        ordered = draw(bools)
        k = draw(st.integers(2, 3))
        if ordered:
            sizes = [draw(st.integers(2, 3 if k == 2 else 2)) for _ in range(k)]
            while sum(sizes) > 8:
                sizes[-1] -= 1
        else:
            sizes = [draw(st.integers(2, 8 // k))] * k
        leaf = list_leaf(draw) if chance(draw, 50) else StringLeaf(plain=True)
        kw['subgraders'] = _inner_list(draw, leaf, sizes[0], None)
        groups = [_group_answers(draw, leaf, s) for s in sizes]
        kw['answers'] = [a for a, _ in groups]
        vec = [gi + 1 for gi, s in enumerate(sizes) for _ in range(s)]
        if chance(draw, 50):
            vec = list(draw(st.permutations(vec)))
        kw['grouping'] = vec
        its = [iter(sl) for _, sl in groups]
        slots = [next(its[gnum - 1]) for gnum in vec]
    else:
        ordered = True
        k = draw(st.integers(2, 4))
        sizes = [draw(st.sampled_from([1, 1, 2, 3])) for _ in range(k)]
        while sum(sizes) > 8:
            sizes[sizes.index(max(sizes))] -= 1
        subs, groups = [], []
        for s in sizes:
            leaf = list_leaf(draw)
            if s == 1:
                subs.append({'$g': leaf.cls, 'kw': leaf.opts(draw)})
                a, sl = leaf.answer(draw)
                groups.append((a, [sl]))
            else:
                subs.append(_inner_list(draw, leaf, s, None))
                groups.append(_group_answers(draw, leaf, s))
        kw['subgraders'] = subs
        kw['answers'] = [a for a, _ in groups]
        vec = [gi + 1 for gi, s in enumerate(sizes) for _ in range(s)]
        if chance(draw, 50):
            vec = list(draw(st.permutations(vec)))
        kw['grouping'] = vec
        its = [iter(sl) for _, sl in groups]
        slots = [next(its[gnum - 1]) for gnum in vec]
    if ordered or chance(draw, 30):
        kw['ordered'] = ordered
    if chance(draw, 40):
        kw['partial_credit'] = draw(bools)
    return {'$g': 'ListGrader', 'kw': kw}, slots, False


BUILDERS = {'String': build_string, 'Formula': build_formula, 'Numerical': build_numerical, 'Matrix': build_matrix,
            'SingleList': build_singlelist, 'Interval': build_interval, 'Sum': build_sum, 'List': build_list}


def credit_specs(draw):
    k = draw(st.integers(0, 9))
    if k < 3:
        kw = {}
        if chance(draw, 60):
            kw = {'decrease_credit_after': draw(st.integers(1, 3)), 'decrease_credit_steps': draw(st.integers(1, 4)),
                  'minimum_credit': draw(st.sampled_from([0, 0.2, 0.5, 1.0, 0.1]))}
        return {'$credit': 'linear', 'kw': kw}
    if k < 5:
        kw = {'factor': draw(st.sampled_from([0.75, 0.5, 0.0, 1.0, 0.9, 0.1]))} if chance(draw, 70) else {}
        return {'$credit': 'geometric', 'kw': kw}
    if k < 7:
        return {'$credit': 'reciprocal'}
    vals = draw(st.lists(st.sampled_from([1, 1.0, 0.5, 0.37, 0.9, 0, 0.0, 1 / 3, 0.00004, 0.99996]), min_size=1,
                         max_size=5))
    return {'$credit': 'table', 'vals': vals}


@st.composite
def grader_cases(draw, kinds=None):
    """-> {'kind', 'g' (JSON spec, debug not set), 'single', 'slots', 'joint' (coherent input tuples or None)}"""
    kind = draw(st.sampled_from(list(kinds or KINDS)))
    out = BUILDERS[kind](draw)
    g, slots, single = out[0], out[1], out[2]
    joint = out[3] if len(out) > 3 else None
    if chance(draw, 50):
        g['kw']['attempt_based_credit'] = credit_specs(draw)
        if chance(draw, 25):
            g['kw']['attempt_based_credit_msg'] = draw(bools)
    return {'kind': kind, 'g': g, 'single': single, 'slots': slots, 'joint': joint}


@st.composite
def student_inputs(draw, case):
    """Student input for a drawn case: a string (single-input graders) or a list of strings."""
    slots = case['slots']
    mode = draw(st.integers(0, 9))
    if case['joint'] and mode < 3:
        vals = list(draw(st.sampled_from(case['joint'])))
    else:
        vals = []
        for s in slots:
            c = draw(st.integers(0, 9))
            if mode < (4 if case['single'] else 6):
                vals.append(draw(s.good))
            elif mode < 8:
                vals.append(draw(s.good) if c < 6 else draw(s.near) if c < 9 else draw(junk))
            else:
                vals.append(draw(s.near) if c < 7 else draw(junk))
    if case['single']:
        if case['kind'] == 'Sum' and chance(draw, 50):
            return [vals[0]]
        return vals[0]
    if chance(draw, 10):
        # a box too many / too few (a ListGrader must refuse it, never answer with a different number of entries)
        if chance(draw, 40) and len(vals) > 1:
            vals = vals[:-1]
        else:
            vals = vals + [draw(slots[-1].good) if chance(draw, 50) else draw(junk)]
    elif mode >= 4 and chance(draw, 20):
        vals = list(draw(st.permutations(vals)))
    return vals


attempts = st.one_of(st.sampled_from([1, 1, 2, 1, 3]), st.integers(-1, 9), st.sampled_from([2, 50, 1000]))
