"""C11 - a grader's verdict depends only on its configuration and the current call; nothing else is altered."""
import itertools
import re

import numpy as np
from hypothesis import strategies as st

from vlib.core import Part, Violation

from mitxgraders import (StringGrader, FormulaGrader, NumericalGrader, MatrixGrader, SingleListGrader,
                         IntervalGrader, ListGrader)
from mitxgraders.baseclasses import ObjectWithSchema, AbstractGrader, ItemGrader
from mitxgraders.helpers.calc import evaluator, MathArray
from mitxgraders.helpers.calc import mathfuncs
from mitxgraders.sampling import set_seed
from mitxgraders.comparers import LinearComparer

STANDING_DEFAULTS = False   # this check registers and clears class defaults itself and snapshots the class tables
RULE = ("(seq12/seq20, EXHAUSTIVE) for each item-grader class (String with a validation pattern, Formula, Numerical, "
        "Matrix, Matrix with negative powers disabled, SingleList, Interval) x {answers configured, not} x {debug on, "
        "off}: every call sequence of length 3 (quick) / 4 (thorough) over the 12 events expect in {absent, valid A, "
        "valid B, invalid} x input in {right for A, wrong, malformed-or-raising}, and every sequence of length 2 / 3 over "
        "the 20 events that add 'right for B' and non-text input (sequences already in the first set skipped); every "
        "call of every sequence is judged, so all shorter sequences are covered as prefixes. (nested_debug, EXHAUSTIVE) "
        "SingleListGrader / IntervalGrader (debug on, off) over a Formula / Numerical / MatrixGrader subgrader with "
        "debug=True: every sequence of length 3 / 4 over {subgrader called directly with a valid, an absent, an invalid "
        "expect; parent called with a right, wrong, malformed input}. (random) Hypothesis lists of 10-32 operations "
        "(bursts of calls expand them to ~30 calls) over a pool of graders built from 25 templates that share subgraders, "
        "one MathArray and whole author config dictionaries: call a pool grader with any event, construct another "
        "grader from a shared dictionary, MatrixGrader(negative_powers=False) calls that raise mid-evaluation followed "
        "by negative powers where they are allowed, ListGrader / SingleListGrader / IntervalGrader over shared "
        "subgraders, evaluator calls with caller-owned scopes (incl. an author function that works in place on its "
        "argument), balanced register_defaults/clear_registered_defaults around a construction. ORACLE (a) "
        "fresh-instance differential: the outcome of each call (result with hex addresses masked, or exception type + "
        "message) equals the memoised outcome of a grader freshly built from a pristine rebuild of the same spec, called "
        "with the effective expect of the reference state machine (configured answers: expect ignored; else the current "
        "expect, else the last expect that was accepted; after a schema-valid expect that fails only when grading, an "
        "absent expect may resolve to either candidate) with the same input and sampling seed; the debug line 'Expect "
        "value inferred to be' must be present exactly when an expect was passed in this call to a grader without "
        "configured answers. (b) snapshots (container identity and shape, leaf repr/identity, array bytes) of every "
        "author config object, of the evaluator scopes, of every other pool grader's config, and of the process-wide "
        "settings (DEFAULT_*/function tables, every ObjectWithSchema subclass' default_values / default_variables / "
        "default_functions / default_suffixes / default_comparer / log_created / inferring_answers, "
        "MathArray._negative_powers, np.geterr(), np.geterrcall()) are compared after construction and after every "
        "call. Non-trivial = a raising call is followed by a judged call, or two different expects reach one grader, or "
        "two graders sharing an object are both used. Distinct by spec hash. (pairs, EXHAUSTIVE) for every ordered pair of 18 grader templates (allow_inf, deleted constants, metric suffixes, user functions/constants, negative powers off, whitelist, interval, sum, lists): building and using the first must not change what the second, built afterwards, returns - reference = the second built in a pristine forked child.")
ASSUMPTIONS = ["student input is text (non-text inputs are used only as the 'non-text' event, where the library must "
               "refuse them without side effects); expect is a string or None",
               "sampling is pinned with set_seed(spec seed) immediately before every grader call on both sides, so the "
               "fresh-instance comparison is exact, debug logs included",
               "the reference outcome of (configuration, effective expect, input, seed) is memoised per worker process; "
               "a grader's own config (where inferred answers are stored by design) is not snapshotted, only everybody "
               "else's", "registered class defaults are exercised only around the construction of a grader that is "
               "discarded before the defaults are cleared; the process-wide tables hold functions and immutable numbers, "
               "so they are fingerprinted by key order and value identity (array values also by bytes)"]
REQUIRED = {'seq/String': 7000, 'seq/Formula': 7000, 'seq/Numerical': 7000, 'seq/Matrix': 7000, 'seq/MatrixNP': 7000,
            'seq/SingleList': 7000, 'seq/Interval': 7000, 'seq/raise-then-judged': 20000, 'seq/two-expects': 10000, 'seq/ambiguous-absent-expect': 1500,
            'seq/configured': 20000, 'seq/debug': 20000, 'seq/non-text-input': 2000, 'seq/failed-inference-then-call': 2000,
            'rand/raise-then-judged': 300, 'rand/shared-dict-reuse': 150, 'rand/negpow-disabled-raise-then-negpow': 150,
            'rand/listgrader-call': 100, 'rand/evaluator': 300, 'rand/evaluator-inplace-function': 80,
            'rand/registered-defaults': 200, 'rand/shared-subgrader-direct-and-nested': 60, 'rand/two-expects': 150,
            'rand/ambiguous': 30, 'nested/direct-then-parent': 1000}

# ----------------------------------------------------------------------------------------------------
# snapshots

SCALARS = (str, int, float, complex, bool, type(None), np.generic)


def snap(o):
    """Structural snapshot: containers by identity + content, arrays by bytes, scalars by repr, the rest by id."""
    if isinstance(o, dict):
        return ('dict', id(o), tuple((repr(k), snap(v)) for k, v in o.items()))
    if isinstance(o, list):
        return ('list', id(o), tuple(snap(v) for v in o))
    if isinstance(o, tuple):
        return ('tuple', tuple(snap(v) for v in o))
    if isinstance(o, np.ndarray):
        return ('array', id(o), type(o).__name__, o.shape, str(o.dtype), o.tobytes())
    if isinstance(o, SCALARS):
        return ('leaf', type(o).__name__, repr(o))
    return ('object', id(o), type(o).__name__)


def explain(a, b, path=''):
    """(path, text) of the first difference between two snapshots."""
    if a == b:
        return None
    if a[0] != b[0]:
        return path, '%s became %s' % (a[0], b[0])
    if a[0] == 'dict':
        if a[1] != b[1]:
            return path, 'dictionary object replaced'
        ka, kb = [x[0] for x in a[2]], [x[0] for x in b[2]]
        if ka != kb:
            added, removed = [k for k in kb if k not in ka], [k for k in ka if k not in kb]
            first = (added or removed or ['<order>'])[0]
            return path + '/' + first.strip('\'"'), 'keys added %s, removed %s' % (added, removed)
        for (k, va), (_, vb) in zip(a[2], b[2]):
            r = explain(va, vb, path + '/' + k.strip('\'"'))
            if r:
                return r
    if a[0] in ('list', 'tuple'):
        ia, ib = a[-1], b[-1]
        if a[0] == 'list' and a[1] != b[1]:
            return path, 'list object replaced'
        if len(ia) != len(ib):
            return path, 'length %d became %d' % (len(ia), len(ib))
        for n, (va, vb) in enumerate(zip(ia, ib)):
            r = explain(va, vb, path + '/%d' % n)
            if r:
                return r
    return path, ('%r became %r' % (a, b))[:300]


def all_subclasses(c):
    out = [c]
    for s in c.__subclasses__():
        out += all_subclasses(s)
    return out


GLOBAL_TABLES = ('DEFAULT_VARIABLES', 'DEFAULT_FUNCTIONS', 'DEFAULT_SUFFIXES', 'METRIC_SUFFIXES', 'ARRAY_ONLY_FUNCTIONS',
                 'SCALAR_FUNCTIONS', 'MULTI_SCALAR_FUNCTIONS', 'ARRAY_FUNCTIONS', 'pauli')
CLASS_ATTRS = ('default_values', 'default_variables', 'default_functions', 'default_suffixes', 'default_comparer',
               'log_created', 'inferring_answers')


_TARGETS = []


def fingerprint(o):
    """Cheap but complete snapshot of a process-wide table: identity, keys, identity of every value (the tables hold
    functions and immutable numbers), bytes of array values.  Anything else: the value (None/bool) or its identity."""
    if isinstance(o, dict):
        vals = list(o.values())
        return ('dict', id(o), tuple(o), tuple(map(id, vals)),
                tuple(v.tobytes() for v in vals if isinstance(v, np.ndarray)))
    return o if o is None or isinstance(o, bool) else ('object', id(o))


def gsnap():
    """Process-wide settings every grader reads: tuple of fingerprints, in the order of _TARGETS (names)."""
    if not _TARGETS:
        _TARGETS.extend((n, mathfuncs, n) for n in GLOBAL_TABLES if hasattr(mathfuncs, n))
        for cls in all_subclasses(ObjectWithSchema):
            _TARGETS.extend((cls.__name__ + '.' + a, cls, a) for a in CLASS_ATTRS if hasattr(cls, a))
    out = [fingerprint(getattr(owner, attr, '<deleted>')) for _, owner, attr in _TARGETS]
    out.append(MathArray._negative_powers)
    out.append(MathArray._default_negative_powers)
    out.append(tuple(sorted(np.geterr().items())))
    out.append(id(np.geterrcall()))
    return tuple(out)


def gnames():
    return [t[0] for t in _TARGETS] + ['MathArray._negative_powers', 'MathArray._default_negative_powers', 'np.geterr',
                                        'np.geterrcall']


def explain_fp(a, b):
    if isinstance(a, tuple) and isinstance(b, tuple) and a and b and a[0] == 'dict' and b[0] == 'dict':
        if a[1] != b[1]:
            return 'the table object was replaced'
        ka, kb = list(a[2]), list(b[2])
        added, removed = [k for k in kb if k not in ka], [k for k in ka if k not in kb]
        ia, ib = dict(zip(a[2], a[3])), dict(zip(b[2], b[3]))
        changed = [k for k in ka if k in ib and ia[k] != ib[k]]
        return 'entries added %s, removed %s, rebound %s%s' % (added, removed, changed,
                                                                '' if a[4] == b[4] else ', array contents changed')
    return ('%r became %r' % (a, b))[:300]


def check_global(before, when):
    after = gsnap()
    if after == before:
        return after
    for name, x, y in zip(gnames(), before, after):
        if x != y:
            raise Violation('global-changed/' + name, '%s changed the process-wide setting %s: %s' % (
                when, name, explain_fp(x, y)))
    raise Violation('global-changed/shape', '%s changed the set of process-wide settings' % when)


def check_author(name, clsname, obj, before, when):
    after = snap(obj)
    if after != before:
        path, text = explain(before, after)
        top = (path.split('/') + ['', ''])[1] or 'object'
        raise Violation('config-mutated/%s/%s' % (clsname, top),
                        '%s altered the author\'s object %s at %s: %s' % (when, name, path or '/', text))


# ----------------------------------------------------------------------------------------------------
# outcomes

HEX = re.compile(r'0x[0-9a-fA-F]+')
INFERRED = re.compile(r'<br/>\nExpect value inferred to be .*?(?=<br/>\n|</pre>)', re.S)
LOG = re.compile(r'<pre>.*?</pre>', re.S)
RESPONSE = re.compile(r'(Student Responses?:<br/>\n.*?)(?:<br/>\n|</pre>)', re.S)


def mask(o):
    if isinstance(o, str):
        return HEX.sub('0x..', o)
    if isinstance(o, dict):
        return {str(k): mask(v) for k, v in o.items()}
    if isinstance(o, (list, tuple)):
        return [mask(v) for v in o]
    if isinstance(o, (bool, int, float)) or o is None:
        return o
    return HEX.sub('0x..', repr(o))


def outcome(g, expect, inp, seed):
    set_seed(seed)
    try:
        r = g(expect, inp)
    except Exception as e:  # noqa: BLE001 - the outcome of a call includes whatever it raises
        return ('exc', type(e).__name__, mask(str(e)))
    return ('ret', mask(r))


def mapmsg(o, fn):
    """Apply fn to the message texts of a returned result."""
    if o[0] != 'ret' or not isinstance(o[1], dict):
        return o
    r = dict(o[1])
    for k in ('msg', 'overall_message'):
        if isinstance(r.get(k), str):
            r[k] = fn(r[k])
    return ('ret', r)


def strip_inferred(o):
    return mapmsg(o, lambda s: INFERRED.sub('', s))


def strip_log(o):
    return mapmsg(o, lambda s: LOG.sub('<pre/>', s))


def short(o):
    s = repr(o)
    return s if len(s) < 420 else s[:200] + ' ... ' + s[-200:]


# ----------------------------------------------------------------------------------------------------
# reference state machine + differential, shared by all parts


class Entry:
    """A grader under test + what the oracle knows about it."""

    def __init__(self, tname, grader, configured, cfg=None, cfgname=None):
        self.t, self.g, self.configured = tname, grader, configured
        self.cfg, self.cfgname = cfg, cfgname
        self.last_ok = None      # last expect that was accepted
        self.bad = None          # schema-valid expect that failed when grading (ambiguous candidate)
        self.amb = False
        self.failed_infer = False
        self.raised = False
        self.expects = set()


def judge_call(ent, T, eidx, iidx, seed, refget, rec, label, debug):
    """Make one call on ent.g, compare it with the reference; returns (outcome, flags)."""
    expect, kind = T['E'][eidx]
    inp = T['I'][iidx]
    out = outcome(ent.g, expect, inp, seed)
    rec.calls()
    flags = set()
    if ent.failed_infer:
        flags.add('failed-inference-then-call')
    if ent.configured:
        effs, passed = [None], False
    elif expect is not None:
        effs, passed = [expect], True
    else:
        effs, passed = [ent.last_ok] + ([ent.bad] if ent.amb else []), False
        if ent.amb:
            flags.add('ambiguous')
    refs = [refget(eff, iidx) for eff in effs]
    if not passed:
        # the reference got the effective expect as an argument, so its debug log carries the inference line
        refs = [strip_inferred(r) for r in refs]
    if out not in refs:
        key = 'history/outcome-depends-on-history'
        same = [r for r in refs if r[0] == 'ret' and out[0] == 'ret' and strip_log(out) == strip_log(r)]
        if debug and same:
            # only the debug log differs: does it show another call's response / inference (stale), or lack a line?
            text = lambda o: str(o[1].get('msg', '')) + str(o[1].get('overall_message', ''))
            m = RESPONSE.search(text(out))
            n_out, n_ref = len(INFERRED.findall(text(out))), len(INFERRED.findall(text(same[0])))
            if (m is not None and isinstance(inp, str) and m.group(1) != 'Student Response:<br/>\n' + inp) or n_out > n_ref:
                key = 'history/stale-debuglog'
            else:
                key = 'debug/inferred-line-missing' if n_out < n_ref else 'history/debuglog-differs'
        elif ent.failed_infer and out[0] == 'exc':
            key = 'history/failed-inference-wedges'
        elif T.get('nested_debug') and any(r[0] == 'exc' and (r[1] == 'AttributeError' and 'debuglog' in r[2] or
                                                                 'Could not check input' in r[2]) for r in refs):
            key = 'history/nested-debug-subgrader-needs-direct-call'
        raise Violation(key, '%s: call (expect=%r, input=%r) on %s gave %s but a freshly built grader with effective '
                             'expect %r gives %s' % (label, expect, inp, ent.t, short(out), effs, short(refs[0])))
    if ent.raised:
        flags.add('raise-then-judged')
    if out[0] == 'exc':
        ent.raised = True
    if not ent.configured and expect is not None:
        ent.expects.add(expect)
        if kind == 'ok':
            ent.last_ok, ent.amb = expect, False
        elif kind == 'eval':
            ent.bad, ent.amb = expect, True
        else:
            ent.failed_infer = True
    if len(ent.expects) >= 2:
        flags.add('two-expects')
    return out, flags


# ----------------------------------------------------------------------------------------------------
# part (a): exhaustive sequences on the item graders


def MAT():
    return MathArray([[1., 2.], [3., 4.]])


def _E(a, b, x, kind):
    return [(None, 'none'), (a, 'ok'), (b, 'ok'), (x, kind)]


ITEM = {
    'String': dict(cls=StringGrader, cfg=lambda: {'validation_pattern': '[a-z]+', 'wrong_msg': 'no'},
                   conf=lambda: ('cat', {'expect': 'cow', 'grade_decimal': 0.5, 'msg': 'half'}),
                   E=_E('cat', 'dog', 'Cat9', 'eval'), I=['cat', 'dog', 'fish', 'c4t', 5]),
    'Formula': dict(cls=FormulaGrader, cfg=lambda: {'variables': ['x'], 'sample_from': {'x': [1, 3]},
                                                     'user_constants': {'c': 1.0}, 'samples': 2},
                    conf=lambda: 'x+c', E=_E('x+c', '2*x', 'x+', 'eval'), I=['c+x', 'x*2', 'x', 'x+(', 5]),
    'Numerical': dict(cls=NumericalGrader, cfg=lambda: {}, conf=lambda: {'expect': '3', 'msg': 'yes'},
                      E=_E('3', '4', '3+', 'eval'), I=['3.0', '2*2', '5', '3)', None]),
    'Matrix': dict(cls=MatrixGrader, cfg=lambda: {'max_array_dim': 2, 'samples': 2}, conf=lambda: '[1,2]',
                   E=_E('[1,2]', '[3,4]', '[1,', 'eval'), I=['[1,2]', '[3,4]', '[1,3]', '[1,2,3]', ['[1,2]']]),
    'MatrixNP': dict(cls=MatrixGrader, cfg=lambda: {'negative_powers': False, 'user_constants': {'A': MAT()},
                                                     'max_array_dim': 2, 'samples': 2},
                     conf=lambda: 'A*[1,2]', E=_E('A*[1,2]', 'A^2', 'A^-1', 'eval'),
                     I=['[5,11]', 'A*A', '[1,3]', 'A^-1*[5,11]', 5]),
    # partial-credit comparers under a reduced-credit answer: the same submission must earn the same credit on every call
    # (added after a seeded change let comparer-owned result dictionaries be scaled in place, so that credit decayed
    # 0.25, 0.125, ... over repeated calls)
    'FormulaLinear': dict(cls=FormulaGrader, cfg=lambda: {'variables': ['x'], 'sample_from': {'x': [1, 3]}, 'samples': 3,
                                                           'wrong_msg': 'no'},
                          conf=lambda: ({'expect': {'comparer': LinearComparer(proportional=0.5, offset=0.4, linear=0.2),
                                                    'comparer_params': ['x+1']}, 'grade_decimal': 0.5, 'msg': 'lin'},),
                          E=_E('x+1', '2*x', 'x+', 'eval'), I=['2*x+2', 'x+3', 'x^2', 'x+(', 5]),
    'MatrixEntry': dict(cls=MatrixGrader, cfg=lambda: {'max_array_dim': 1, 'samples': 2, 'entry_partial_credit': 'proportional',
                                                        'wrong_msg': 'no'},
                        conf=lambda: ({'expect': '[1,2,3,4]', 'grade_decimal': 0.5, 'msg': 'm'}, '[3,4,5,6]'),
                        E=_E('[1,2,3,4]', '[3,4,5,6]', '[1,', 'eval'), I=['[1,2,3,5]', '[3,4,5,7]', '[9,9,9,9]', '[1,2,3', 5]),
    # the "malformed" input parses and names only known things but fails while being evaluated with infinities allowed
    # (IntervalGrader's default subgrader, allow_inf graders): whatever evaluation switches on must be switched off again
    # on the failure path too (a seeded change left numpy's overflow handling at 'ignore' after such a call)
    'IntervalEvalFail': dict(cls=IntervalGrader, cfg=lambda: {}, conf=lambda: '[1,2)',
                             E=_E('[1,2)', '(3,4]', '[1,2,3]', 'infer'), I=['[1,2)', '(3,4]', '[1,3)', '[1/0,infty)', 5]),
    'FormulaInf': dict(cls=FormulaGrader, cfg=lambda: {'variables': ['x'], 'sample_from': {'x': [1, 3]}, 'allow_inf': True,
                                                        'samples': 2},
                       conf=lambda: 'x+1', E=_E('x+1', '2*x', 'x+', 'eval'), I=['1+x', 'x*2', 'x', 'sin(1,2)+1/0', 5]),
    'NumericalBig': dict(cls=NumericalGrader, cfg=lambda: {}, conf=lambda: '1e160',
                         E=_E('1e160', '4', '3+', 'eval'), I=['1e160', '4', '2e160', '1e160*', None]),
    'SingleList': dict(cls=SingleListGrader, cfg=lambda: {'subgrader': StringGrader()}, conf=lambda: ['a', 'b'],
                       E=_E('a,b', 'c,d', 'a,,b', 'infer'), I=['b, a', 'c,d', 'a,c', 'a,,', 5]),
    'Interval': dict(cls=IntervalGrader, cfg=lambda: {}, conf=lambda: '[1,2)',
                     E=_E('[1,2)', '(3,4]', '[1,2,3]', 'infer'), I=['[1,2)', '(3,4]', '[1,3)', '[1', 5]),
}
ELET, ILET = '-ABX', 'abwmn'
ALPHA12 = [e + i for e in ELET for i in 'awm']
ALPHA20 = [e + i for e in ELET for i in ILET]
SEQ_SEED = 7


def item_cfg(C, ans, dbg):
    cfg = C['cfg']()
    cfg['debug'] = bool(dbg)
    if ans:
        cfg['answers'] = C['conf']()
    return cfg


_REF_A = {}


def item_reference(cname, ans, dbg, eff, iidx, seed):
    key = (cname, ans, dbg, eff, iidx, seed)
    if key not in _REF_A:
        C = ITEM[cname]
        g = C['cls'](item_cfg(C, ans, dbg))
        _REF_A[key] = outcome(g, eff, C['I'][iidx], seed)
    return _REF_A[key]


def judge_seq(spec, rec):
    cname, ans, dbg, seq, seed = spec['c'], spec['ans'], spec['dbg'], spec['seq'], spec.get('seed', SEQ_SEED)
    C = ITEM[cname]
    cfg = item_cfg(C, ans, dbg)
    clsname = C['cls'].__name__
    g0 = gsnap()
    before = snap(cfg)
    g = C['cls'](cfg)
    check_author('config', clsname, cfg, before, '%s(config)' % clsname)
    g0 = check_global(g0, 'constructing %s' % clsname)
    ent = Entry(cname, g, bool(ans), cfg)
    subs = [(k, v, snap(v.config)) for k, v in cfg.items() if isinstance(v, ObjectWithSchema)]   # graders in the config
    allflags = set()
    outs = []
    for n, ev in enumerate(seq):
        eidx, iidx = ELET.index(ev[0]), ILET.index(ev[1])
        label = '%s(answers %s, debug=%s) after %r, call %d' % (clsname, 'configured' if ans else 'absent', bool(dbg),
                                                               seq[:n], n)
        out, flags = judge_call(ent, C, eidx, iidx, seed,
                                lambda eff, ii: item_reference(cname, ans, dbg, eff, ii, seed), rec, label, dbg)
        check_author('config', clsname, cfg, before, label)
        for k, v, was in subs:
            if snap(v.config) != was:
                path, text = explain(was, snap(v.config))
                raise Violation('other-grader-altered/%s/%s' % (type(v).__name__, (path.split('/') + ['', ''])[1]),
                                '%s altered the config of the %s passed as %r at %s: %s' % (
                                    label, type(v).__name__, k, path, text))
        g0 = check_global(g0, label)
        if ev[1] == 'n':
            flags.add('non-text-input')
        allflags |= flags
        outs.append(out[0] if out[0] == 'ret' else out[1])
    for f in allflags:
        rec.cls('seq/' + f.replace('ambiguous', 'ambiguous-absent-expect'))
    rec.cls('seq/' + cname)
    if ans:
        rec.cls('seq/configured')
    if dbg:
        rec.cls('seq/debug')
    rec.nontrivial('raise-then-judged' in allflags or 'two-expects' in allflags)
    return {'outcomes': outs}


def _seq_items(alphabet, length, skip=None):
    for cname in ITEM:
        for ans in (0, 1):
            for dbg in (0, 1):
                for seq in itertools.product(alphabet, repeat=length):
                    if skip is not None and all(e in skip for e in seq):
                        continue
                    yield {'c': cname, 'ans': ans, 'dbg': dbg, 'seq': list(seq)}


def items_seq12(tier):
    return _seq_items(ALPHA12, 3 if tier == 'quick' else 4)


def items_seq20(tier):
    return _seq_items(ALPHA20, 2 if tier == 'quick' else 3, skip=set(ALPHA12))


# ----------------------------------------------------------------------------------------------------
# part (b): random histories over a pool of graders sharing subgraders, arrays and config dictionaries


def zerofirst(v):
    """An author function that carelessly works in place on its argument."""
    if isinstance(v, np.ndarray) and v.size:
        v.flat[0] = 0
        return v
    return 0 * v


def build_world(flags):
    """Author-side objects shared between graders; rebuilt from scratch for every reference."""
    dbg, sub = bool(flags['debug']), bool(flags['subdebug'])
    W = {'flags': flags}
    A = W['A'] = MathArray([[1., 2.], [3., 4.]])
    W['SS'] = StringGrader(debug=sub)
    W['SF'] = FormulaGrader(variables=['x'], debug=sub)
    W['SN'] = NumericalGrader(debug=sub)
    W['SFq'] = FormulaGrader(variables=['x'])       # subgraders of SingleListGrader / IntervalGrader: debug off (a
    W['SNq'] = NumericalGrader()                    # debug=True subgrader there is the business of part nested_debug)
    W['MNP'] = MatrixGrader(answers='A^2', user_constants={'A': A}, negative_powers=False, max_array_dim=2, debug=sub,
                            answer_shape_mismatch={'is_raised': False})
    W['MP'] = MatrixGrader(user_constants={'A': A}, max_array_dim=2, debug=sub)
    # whole dictionaries an author reuses for several graders
    W['DP'] = {'debug': dbg, 'wrong_msg': 'nope'}
    W['DM'] = {'variables': ['x'], 'user_constants': {'c': 2.0, 'pi': None, 'A': A},
               'user_functions': {'f': [np.sin, np.cos], 'zf': zerofirst}, 'sample_from': {'x': [1, 2]},
               'blacklist': ['tan'], 'metric_suffixes': True, 'suppress_warnings': True, 'debug': dbg}
    W['DLS'] = {'subgrader': W['SS'], 'debug': dbg}
    W['DLN'] = {'subgrader': W['SNq'], 'debug': dbg, 'partial_credit': False}
    W['DLF'] = {'subgrader': W['SFq'], 'debug': dbg}
    # scopes a caller hands to evaluator()
    W['V'] = {'x': 2.0, 'A': A, 'v': MathArray([1., 2.]), 'n': 3}
    W['F'] = {'f': np.sin, 'zf': zerofirst}
    W['S'] = {'k': 1e3}
    return W


SHARED_OBJECTS = ('A', 'DP', 'DM', 'DLS', 'DLN', 'DLF', 'V', 'F', 'S')
SHARED_GRADERS = ('SS', 'SF', 'SN', 'SFq', 'SNq', 'MNP', 'MP')
_IGN = [(None, 'none'), ('cat', 'ok'), ('x+(', 'ok')]      # expect values for graders that must ignore expect
_LIST_S = [['cat', 'dog'], ['dog', 'cat'], ['cat', 'x'], ['cat'], 'cat', ['cat', 5]]
_MAT_I = ['A*A', 'A^-1', 'A^-1+[1,2]', '[1,2]', 'A+1', 'A^(', 5]

TEMPLATES = {
    # the shared subgraders themselves (callable directly, members of the pool from the start)
    'SS': dict(shared='SS', conf=False, E=[(None, 'none'), ('cat', 'ok'), ('dog', 'ok')], I=['cat', 'dog', 'fish', 5]),
    'SF': dict(shared='SF', conf=False, E=_E('x+1', '2*x', 'x+', 'eval'), I=['1+x', 'x*2', 'x', 'x+(', 5]),
    'SN': dict(shared='SN', conf=False, E=_E('3', '4', '3+', 'eval'), I=['3.0', '2*2', '5', '3)', None]),
    'SFq': dict(shared='SFq', conf=False, E=_E('x+1', '2*x', 'x+', 'eval'), I=['1+x', 'x*2', 'x', 'x+(', 5]),
    'SNq': dict(shared='SNq', conf=False, E=_E('3', '4', '3+', 'eval'), I=['3.0', '2*2', '5', '3)', None]),
    'MNP': dict(shared='MNP', conf=True, E=_IGN, I=_MAT_I),
    'MP': dict(shared='MP', conf=False, E=_E('A^-1', 'A^2', 'A^', 'eval'),
               I=['A^-1', 'A*A', 'A^-2*A', '[1,2]', 'A^-1+1', 'A^(']),
    # five graders from one plain dictionary
    'str_plain': dict(build=lambda W: (StringGrader, W['DP'], 'dict', 'DP'), conf=False,
                      E=[(None, 'none'), ('cat', 'ok'), ('dog', 'ok')], I=['cat', 'dog', 'fish', '', 5]),
    'num_plain': dict(build=lambda W: (NumericalGrader, W['DP'], 'dict', 'DP'), conf=False,
                      E=_E('3', '4', '3+', 'eval'), I=['3.0', '2*2', '5', '3)', None]),
    'form_plain': dict(build=lambda W: (FormulaGrader, W['DP'], 'kwargs', 'DP'), conf=False,
                       E=_E('2*pi', 'e', 'pi+', 'eval'), I=['pi*2', 'e', '3', 'pi+(', 'infty', 5]),
    'int_plain': dict(build=lambda W: (IntervalGrader, W['DP'], 'dict', 'DP'), conf=False,
                      E=_E('[1,2)', '(3,infty]', '[1,2,3]', 'infer'), I=['[1,2)', '(3,infty]', '[1,3)', '[1', 5]),
    'mat_plain': dict(build=lambda W: (MatrixGrader, W['DP'], 'dict', 'DP'), conf=False,
                      E=_E('[1,2]', '[3,4]', '[1,', 'eval'), I=['[1,2]', '[3,4]', '[1,3]', '[1,2,3]', '2k', 5]),
    # the math dictionary: FormulaGrader and MatrixGrader
    'form_dm': dict(build=lambda W: (FormulaGrader, W['DM'], 'dict', 'DM'), conf=False,
                    E=_E('x+c', 'f(x)*2k', 'x+', 'eval'),
                    I=['c+x', '2k*f(x)', 'x', 'x+(', 'tan(x)', 'pi', 'zf(A)', 'x+c+0*zf(x)']),
    'mat_dm': dict(build=lambda W: (MatrixGrader, dict(W['DM'], answers='A^2', negative_powers=False, max_array_dim=2,
                                                        answer_shape_mismatch={'is_raised': False}), 'dict', None),
                   conf=True, E=_IGN, I=_MAT_I + ['zf(A)*A', 'A^2+0*zf(A)', 'A^2*1k/1000']),
    'mat_dm_kw': dict(build=lambda W: (MatrixGrader, dict(W['DM'], answers='A^-1', max_array_dim=2), 'kwargs', None),
                      conf=True, E=_IGN, I=['A^-1', 'A^-2*A', '[1,2]', 'A^-1+1', 'zf(A)']),
    'mat_partial': dict(build=lambda W: (MatrixGrader, {'answers': '[1,2]', 'entry_partial_credit': 0.5,
                                                         'debug': W['flags']['debug']}, 'dict', None),
                        conf=True, E=_IGN, I=['[1,2]', '[1,3]', '[0,0]', '[1', '[1,2,3]']),
    'mat_default': dict(build=lambda W: (MatrixGrader, {'answers': '[1,2]', 'debug': W['flags']['debug']}, 'kwargs', None),
                        conf=True, E=_IGN, I=['[1,2]', '[1,3]', '[0,0]', '[1', '[1,2,3]']),
    'num_inf': dict(build=lambda W: (NumericalGrader, {'answers': 'infty', 'allow_inf': True}, 'dict', None),
                    conf=True, E=_IGN, I=['infty', '1', 'infty+', '2*infty']),
    # list-like item graders over shared subgraders
    'sl_ss': dict(build=lambda W: (SingleListGrader, W['DLS'], 'dict', 'DLS'), conf=False,
                  E=_E('a,b', 'c,d', 'a,,b', 'infer'), I=['b, a', 'c,d', 'a,c', 'a,,', 5]),
    'sl_sn': dict(build=lambda W: (SingleListGrader, W['DLN'], 'dict', 'DLN'), conf=False,
                  E=_E('1,2', '3,4', '1,,2', 'infer'), I=['2, 1', '3,4', '1,3', '1,,', '1,2)', 5]),
    'int_sn': dict(build=lambda W: (IntervalGrader, W['DLN'], 'dict', 'DLN'), conf=False,
                   E=_E('[1,2)', '(3,4]', '[1,2,3]', 'infer'), I=['[1,2)', '(3,4]', '[1,3)', '[1', '[1,2+)', 5]),
    'sl_sf': dict(build=lambda W: (SingleListGrader, W['DLF'], 'kwargs', 'DLF'), conf=False,
                  E=_E('x+1,2*x', 'x,x^2', 'x+1,', 'infer'), I=['2*x, 1+x', 'x,x*x', 'x,2', 'x+(,1', 5]),
    'int_sf': dict(build=lambda W: (IntervalGrader, dict(W['DLF'], answers=['(', 'x', 'x+1', ']']), 'dict', None),
                   conf=True, E=_IGN, I=['(x,1+x]', '[x,x+1]', '(x,x]', '(x', '(x+,1]']),
    'sl_nested': dict(build=lambda W: (SingleListGrader, {
        'subgrader': SingleListGrader(subgrader=W['SS'], delimiter=','), 'delimiter': ';',
        'debug': W['flags']['debug']}, 'dict', None), conf=False,
        E=_E('a,b;c,d', 'e;f', 'a,;b', 'infer'), I=['c,d;b,a', 'f;e', 'a,b;c,x', 'a;;', 5]),
    'str_tuple': dict(build=lambda W: (StringGrader, {'answers': ({'expect': 'cat', 'msg': 'm'}, 'dog'), 'wrong_msg': 'w',
                                                       'debug': W['flags']['debug']}, 'kwargs', None),
                      conf=True, E=_IGN, I=['cat', 'dog', 'fish', 5]),
    # ListGraders over shared subgraders
    'lg_ss': dict(build=lambda W: (ListGrader, {'answers': ['cat', 'dog'], 'subgraders': W['SS'],
                                                 'debug': W['flags']['debug']}, 'dict', None),
                  conf=True, E=_IGN, I=_LIST_S),
    'lg_tuple': dict(build=lambda W: (ListGrader, {'answers': (['cat', 'dog'], ['cow', {'expect': 'pig', 'msg': 'oink'}]),
                                                    'subgraders': W['SS'], 'ordered': True}, 'kwargs', None),
                     conf=True, E=_IGN, I=_LIST_S + [['cow', 'pig']]),
    'lg_sf': dict(build=lambda W: (ListGrader, {'answers': ['x+1', '2*x'], 'subgraders': W['SF'], 'ordered': True,
                                                 'debug': W['flags']['debug']}, 'dict', None),
                  conf=True, E=_IGN, I=[['1+x', 'x*2'], ['x*2', '1+x'], ['x+(', 'x'], ['x'], ['x', None]]),
    'lg_multi': dict(build=lambda W: (ListGrader, {'answers': ['x+1', '3', 'cat'], 'subgraders': [W['SF'], W['SN'], W['SS']],
                                                    'ordered': True, 'debug': W['flags']['debug']}, 'dict', None),
                     conf=True, E=_IGN, I=[['1+x', '3.0', 'cat'], ['x', '3', 'dog'], ['x+', '3', 'cat'], ['x', '3)', 'cat'],
                                            ['x', '3']]),
    'lg_mat': dict(build=lambda W: (ListGrader, {'answers': ['A^2', 'A^-1'], 'subgraders': [W['MNP'], W['MP']],
                                                  'ordered': True}, 'kwargs', None),
                   conf=True, E=_IGN, I=[['A*A', 'A^-1'], ['A^-1', 'A^-1'], ['A*A', 'A^-2*A'], ['A+1', 'A^-1'],
                                          ['A^2', 'A^-1+1']]),
    'lg_sib': dict(build=lambda W: (ListGrader, {'answers': ['sibling_3+1', 'sibling_1^2', 'x'], 'subgraders': W['SF'],
                                                  'ordered': True, 'debug': W['flags']['debug']}, 'dict', None),
                   conf=True, E=_IGN, I=[['x+1', 'x^2+2*x+1', 'x'], ['x+1', 'x^2+2*x+1', 'sibling_2'], ['x+1', '', 'x'],
                                          ['x+2', '', 'x+1'], ['x+(', 'x', 'x']]),
    # sibling variables in a grader with NOTHING to sample (NumericalGrader): the author's value still changes with every
    # submission (a seeded change evaluated "constant" author expressions once and kept the first submission's siblings)
    'lg_sibnum': dict(build=lambda W: (ListGrader, {'answers': ['sibling_2/2', '2*sibling_1'], 'subgraders': W['SN'],
                                                     'ordered': True, 'debug': W['flags']['debug']}, 'dict', None),
                      conf=True, E=_IGN, I=[['1', '2'], ['3', '6'], ['3', '2'], ['5', '10'], ['2', '4.0'], ['3+', '2'],
                                             ['6', '3']]),
    'lg_sl': dict(build=lambda W: (ListGrader, {'answers': [['a', 'b'], ['c', 'd']],
                                                 'subgraders': SingleListGrader(subgrader=W['SS']), 'ordered': True},
                                   'dict', None),
                  conf=True, E=_IGN, I=[['a,b', 'c,d'], ['b,a', 'd,c'], ['a', 'x'], ['a,,', 'c,d'], 'a']),
}
BUILDABLE = sorted(k for k, v in TEMPLATES.items() if 'build' in v)
LIST_TEMPLATES = sorted(k for k in BUILDABLE if k.startswith('lg_'))
DICT_TEMPLATES = ['str_plain', 'num_plain', 'form_plain', 'int_plain', 'mat_plain', 'form_dm', 'sl_sn', 'int_sn']
USES = {'sl_ss': 'SS', 'sl_nested': 'SS', 'lg_ss': 'SS', 'lg_tuple': 'SS', 'lg_multi': 'SS', 'lg_sl': 'SS',
        'sl_sf': 'SFq', 'int_sf': 'SFq', 'lg_sf': 'SF', 'lg_sib': 'SF', 'lg_sibnum': 'SN', 'sl_sn': 'SNq', 'int_sn': 'SNq', 'lg_mat': 'MP'}
EVAL_EXPRS = ['A*v+v', 'A^2', 'A^-1', 'v*v', 'x*A', 'f(x)*2k', 'A+1', 'v/0', '-A', 'A*A*v', 'zf(v)*2', 'zf(A)*v', 'x+',
              'y+1', 'n*v', 'zf(x)+n', 'A^-2', '[x, n]*A']
DEFAULTS = [('StringGrader', {'case_sensitive': False}), ('ItemGrader', {'wrong_msg': 'registered wrong_msg'}),
            ('FormulaGrader', {'tolerance': 0.5}), ('AbstractGrader', {'debug': True}),
            ('MatrixGrader', {'max_array_dim': 2}), ('NumericalGrader', {'tolerance': '1%'}),
            ('SingleListGrader', {'ordered': True})]
CLASSES = {c.__name__: c for c in (StringGrader, ItemGrader, FormulaGrader, AbstractGrader, MatrixGrader,
                                   NumericalGrader, SingleListGrader)}


def construct(tname, W):
    """Entry for template tname in world W (constructing the grader unless it is one of the shared ones)."""
    T = TEMPLATES[tname]
    if 'shared' in T:
        return Entry(tname, W[T['shared']], T['conf'])
    cls, cfg, form, cfgname = T['build'](W)
    before = snap(cfg)
    g = cls(cfg) if form == 'dict' else cls(**cfg)
    check_author(cfgname or 'config', cls.__name__, cfg, before,
                 'constructing %s as %s(%sconfig)' % (tname, cls.__name__, '' if form == 'dict' else '**'))
    return Entry(tname, g, T['conf'], cfg, cfgname)


_REF_B = {}


def pool_reference(flagkey, flags, tname, eff, iidx, seed):
    key = (flagkey, tname, eff, iidx, seed)
    if key not in _REF_B:
        ent = construct(tname, build_world(flags))
        _REF_B[key] = outcome(ent.g, eff, TEMPLATES[tname]['I'][iidx], seed)
    return _REF_B[key]


_REF_E = {}


def eval_outcome(W, expr):
    try:
        v, _ = evaluator(expr, W['V'], W['F'], W['S'], max_array_dim=2)
    except Exception as e:  # noqa: BLE001
        return ('exc', type(e).__name__, mask(str(e)))
    return ('ret', repr(v))


class World:
    """The history side: one world, a growing pool, and the snapshots of everything that must stay as it is."""

    def __init__(self, flags):
        self.flags = flags
        self.W = build_world(flags)
        self.pool = [construct(n, self.W) for n in SHARED_GRADERS]
        self.authors = {n: self.W[n] for n in SHARED_OBJECTS}       # name -> author-owned object
        self.owner = {n: 'shared' for n in SHARED_OBJECTS}
        self.snaps = {n: snap(o) for n, o in self.authors.items()}
        self.configs = [snap(e.g.config) for e in self.pool]
        self.g0 = gsnap()

    def add(self, ent):
        self.pool.append(ent)
        self.configs.append(snap(ent.g.config))
        if ent.cfg is not None and ent.cfgname is None:
            name = 'config#%d(%s)' % (len(self.pool) - 1, ent.t)
            self.authors[name] = ent.cfg
            self.owner[name] = type(ent.g).__name__
            self.snaps[name] = snap(ent.cfg)

    def check(self, when, clsname, own=None):
        """Everything that nobody was entitled to alter is as it was (own = index of the grader just called)."""
        for name, o in self.authors.items():
            check_author(name, clsname if self.owner[name] == 'shared' else self.owner[name], o, self.snaps[name], when)
        for k, e in enumerate(self.pool):
            if k == own:
                self.configs[k] = snap(e.g.config)
                continue
            now = snap(e.g.config)
            if now != self.configs[k]:
                path, text = explain(self.configs[k], now)
                raise Violation('other-grader-altered/%s/%s' % (type(e.g).__name__, (path.split('/') + ['', ''])[1]),
                                '%s altered the config of another grader (pool #%d, %s) at %s: %s' % (
                                    when, k, e.t, path, text))
        self.g0 = check_global(self.g0, when)


def judge_random(spec, rec):
    flags = {'debug': spec['debug'], 'subdebug': spec['subdebug']}
    flagkey = (bool(spec['debug']), bool(spec['subdebug']))
    seed = spec['seed']
    g_before = gsnap()
    H = World(flags)
    check_global(g_before, 'building the shared graders')
    seen = set()
    built_from = {}
    negpow_raised = False
    direct, nested = set(), set()
    log = []

    def new(tname, when):
        ent = construct(tname, H.W)
        H.add(ent)
        H.check(when, type(ent.g).__name__, own=len(H.pool) - 1)
        if ent.cfgname:
            built_from[ent.cfgname] = built_from.get(ent.cfgname, 0) + 1
            if built_from[ent.cfgname] >= 2:
                seen.add('shared-dict-reuse')
        return ent

    for n, tname in enumerate(spec['init']):
        new(tname, 'constructing %s (initial pool)' % tname)
    ops = []
    for op in spec['ops']:
        if op[0] == 'negpow':
            # a grader with negative powers disabled raises in the middle of an evaluation; right afterwards negative
            # powers are used where they are allowed (pool #5 = MNP, #6 = MP: the shared graders come first)
            ops += [['call', 5, 0, 1 + op[1] % 2], ['eval', 'A^-1'], ['call', 6, 1, 0]][:3 if op[1] < 2 else 2]
        elif op[0] == 'burst':
            ops += [['call', op[1], e, i] for e, i in op[2]]        # several calls in a row on one grader
        else:
            ops.append(op)
    for n, op in enumerate(ops):
        kind = op[0]
        if kind == 'new':
            new(op[1], 'op %d: constructing %s' % (n, op[1]))
            log.append('new')
        elif kind == 'call':
            k = op[1] % len(H.pool)
            ent = H.pool[k]
            T = TEMPLATES[ent.t]
            eidx, iidx = op[2] % len(T['E']), op[3] % len(T['I'])
            label = 'op %d (after %s)' % (n, ops[:n][-6:])
            out, fl = judge_call(ent, T, eidx, iidx, seed,
                                 lambda eff, ii, t=ent.t: pool_reference(flagkey, flags, t, eff, ii, seed),
                                 rec, label, True)
            H.check('%s: calling %s with expect=%r input=%r' % (label, ent.t, T['E'][eidx][0], T['I'][iidx]),
                    type(ent.g).__name__, own=k)
            seen |= fl
            inp = T['I'][iidx]
            text = ' '.join(inp) if isinstance(inp, list) and all(isinstance(x, str) for x in inp) else str(inp)
            if out[0] == 'exc' and 'Negative matrix powers have been disabled' in out[2]:
                negpow_raised = True
            elif negpow_raised and out[0] == 'ret' and '^-' in text and ent.t in ('MP', 'mat_dm_kw', 'lg_mat'):
                seen.add('negpow-disabled-raise-then-negpow')
            if isinstance(ent.g, ListGrader):
                seen.add('listgrader-call')
            if ent.t in SHARED_GRADERS:
                direct.add(ent.t)
            if ent.t in USES:
                nested.add(USES[ent.t])
            log.append(out[0] if out[0] == 'ret' else out[1])
        elif kind == 'eval':
            expr = op[1]
            key = (expr,)
            if key not in _REF_E:
                _REF_E[key] = eval_outcome(build_world(flags), expr)
            out = eval_outcome(H.W, expr)
            rec.calls()
            if out != _REF_E[key]:
                raise Violation('evaluator/outcome-depends-on-history',
                                'op %d: evaluator(%r) with the caller\'s scopes gave %s, with pristine copies of the same '
                                'scopes %s' % (n, expr, short(out), short(_REF_E[key])))
            H.check('op %d: evaluator(%r, V, F, S)' % (n, expr), 'evaluator')
            seen.add('evaluator')
            if 'zf(' in expr and out[0] == 'ret':
                seen.add('evaluator-inplace-function')
            if negpow_raised and out[0] == 'ret' and '^-' in expr:
                seen.add('negpow-disabled-raise-then-negpow')
            log.append('eval')
        elif kind == 'defaults':
            cname, values = DEFAULTS[op[1]]
            tname, events = op[2], op[3]
            T = TEMPLATES[tname]
            Wf = build_world(flags)                      # reference world: shared graders built before registration
            g_clean = H.g0
            registered = dict(values)
            reg_before = snap(registered)
            CLASSES[cname].register_defaults(registered)
            # defaults on a second level of the class chain as well (a seeded change merged the subclass's registered
            # defaults INTO the superclass's table while constructing)
            second = None
            if cname not in ('ItemGrader', 'AbstractGrader'):
                second = dict(DEFAULTS[1][1])
                ItemGrader.register_defaults(second)
                seen.add('registered-defaults-two-levels')
            try:
                H.g0 = gsnap()
                when = 'op %d: with %s.register_defaults(%r), constructing %s' % (n, cname, values, tname)
                ent = construct(tname, H.W)
                clsname = type(ent.g).__name__
                check_author('registered-defaults', clsname, registered, reg_before, when)
                H.check(when, clsname)
                for eidx, iidx in events:
                    eidx, iidx = eidx % len(T['E']), iidx % len(T['I'])
                    judge_call(ent, T, eidx, iidx, seed,
                               lambda eff, ii: outcome(construct(tname, Wf).g, eff, T['I'][ii], seed), rec,
                               when + ', then calling it', True)
                    H.check(when + ', then calling it', clsname)
                    check_author('registered-defaults', clsname, registered, reg_before, when + ', then calling it')
            finally:
                CLASSES[cname].clear_registered_defaults()
                if second is not None:
                    ItemGrader.clear_registered_defaults()
            H.g0 = check_global(g_clean, 'op %d: register_defaults + clear_registered_defaults (%s)' % (n, cname))
            seen.add('registered-defaults')
            log.append('defaults')
    if direct & nested:
        seen.add('shared-subgrader-direct-and-nested')
    for f in seen:
        rec.cls('rand/' + f)
    rec.nontrivial(bool(seen & {'raise-then-judged', 'two-expects', 'shared-dict-reuse',
                                'shared-subgrader-direct-and-nested'}))
    return {'pool': [e.t for e in H.pool], 'steps': log[-12:]}


def strat_random(tier):
    tn = st.sampled_from(BUILDABLE)
    small = st.integers(0, 9)
    which = st.one_of(st.integers(0, 9), st.integers(0, 40))
    callop = st.tuples(st.just('call'), which, small, small)
    op = st.one_of(
        callop, callop, callop, callop, callop, callop,
        st.tuples(st.just('new'), tn),
        st.tuples(st.just('eval'), st.sampled_from(EVAL_EXPRS)),
        st.tuples(st.just('eval'), st.sampled_from(EVAL_EXPRS)),
        st.tuples(st.just('negpow'), st.integers(0, 2)),
        st.tuples(st.just('burst'), which, st.lists(st.tuples(small, small).map(list), min_size=2, max_size=4)),
        st.tuples(st.just('burst'), which, st.lists(st.tuples(small, small).map(list), min_size=2, max_size=4)),
        st.tuples(st.just('defaults'), st.integers(0, len(DEFAULTS) - 1), tn,
                  st.lists(st.tuples(small, small).map(list), min_size=1, max_size=3)),
    ).map(list)
    return st.fixed_dictionaries({
        'seed': st.integers(0, 2 ** 16), 'debug': st.booleans(), 'subdebug': st.booleans(),
        'init': st.tuples(st.lists(tn, min_size=1, max_size=5), st.sampled_from(LIST_TEMPLATES),
                          st.sampled_from(DICT_TEMPLATES)).map(lambda t: t[0] + [t[1], t[2]]),
        'ops': st.lists(op, min_size=10, max_size=32)})


# ----------------------------------------------------------------------------------------------------
# part (c): a debug=True subgrader inside SingleListGrader / IntervalGrader, called directly and through the parent

ND_SUB = {
    'Formula': dict(make=lambda: FormulaGrader(variables=['x'], debug=True, samples=2), conf=False,
                    E=[(None, 'none'), ('x', 'ok'), ('x+', 'eval')], I=['x', 'x+1', 'x+(']),
    'Numerical': dict(make=lambda: NumericalGrader(debug=True), conf=False,
                      E=[(None, 'none'), ('1', 'ok'), ('1+', 'eval')], I=['1', '2', '1)']),
    'Matrix': dict(make=lambda: MatrixGrader(debug=True, samples=2), conf=False,
                   E=[(None, 'none'), ('[1,2]', 'ok'), ('[1,', 'eval')], I=['[1,2]', '[1,3]', '[1']),
    # a subgrader WITHOUT debug whose refusals are meant to be silent (explain_validation=None): what a debugging parent
    # tells it during a hand-off must not outlive that call (a seeded change left a parent-supplied debug flag on it)
    'StringQuiet': dict(make=lambda: StringGrader(validation_pattern='[a-z]+', explain_validation=None, wrong_msg='no'),
                        conf=False, E=[(None, 'none'), ('cat', 'ok'), ('Cat9', 'eval')], I=['cat', 'dog', 'c4t']),
}
ND_PARENT = {
    ('SingleList', 'Formula'): dict(make=lambda sub, dbg: SingleListGrader(answers=['x+1', '2*x'], subgrader=sub, debug=dbg),
                                    I=['x+1, 2*x', 'x, 2*x', 'x+(, 1']),
    ('SingleList', 'Numerical'): dict(make=lambda sub, dbg: SingleListGrader(answers=['1', '2'], subgrader=sub, debug=dbg),
                                      I=['1, 2', '1, 3', '1+, 2']),
    ('SingleList', 'Matrix'): dict(make=lambda sub, dbg: SingleListGrader(answers=['[1,2]', '[3,4]'], subgrader=sub,
                                                                          delimiter=';', debug=dbg),
                                   I=['[1,2]; [3,4]', '[1,2]; [0,0]', '[1; [3,4]']),
    ('Interval', 'Formula'): dict(make=lambda sub, dbg: IntervalGrader(answers=['(', 'x', 'x+1', ']'], subgrader=sub,
                                                                        debug=dbg),
                                  I=['(x, 1+x]', '(x, x]', '(x+, 1]']),
    ('Interval', 'Numerical'): dict(make=lambda sub, dbg: IntervalGrader(answers='[1,2)', subgrader=sub, debug=dbg),
                                    I=['[1,2)', '[1,3)', '[1+,2)']),
    ('SingleList', 'StringQuiet'): dict(make=lambda sub, dbg: SingleListGrader(answers=['cat', 'dog'], subgrader=sub, debug=dbg),
                                        I=['cat, dog', 'cat, emu', 'c4t, dog']),
    ('List', 'StringQuiet'): dict(make=lambda sub, dbg: ListGrader(answers=['cat', 'dog'], subgraders=sub, debug=dbg),
                                  I=[['cat', 'dog'], ['dog', 'emu'], ['c4t', 'dog']]),
}
for _k, _v in ND_PARENT.items():
    _v.update(conf=True, E=_IGN, nested_debug=True)
ND_EVENTS = ['S10', 'S00', 'S22', 'S12', 'P0', 'P1', 'P2']    # S<expect><input>: direct call of the subgrader; P<input>
_REF_N = {}


def judge_nested(spec, rec):
    pk, sk, dbg, seq, seed = spec['p'], spec['s'], bool(spec['dbg']), spec['seq'], SEQ_SEED
    TS, TP = ND_SUB[sk], ND_PARENT[(pk, sk)]
    g0 = gsnap()
    sub = Entry(sk + '(debug=True)', TS['make'](), False)
    par = Entry('%sGrader(subgrader=%sGrader(debug=True), debug=%s)' % (pk, sk, dbg), TP['make'](sub.g, dbg), True)
    g0 = check_global(g0, 'constructing ' + par.t)

    def ref_sub(eff, ii):
        key = (sk, eff, ii)
        if key not in _REF_N:
            _REF_N[key] = outcome(TS['make'](), eff, TS['I'][ii], seed)
        return _REF_N[key]

    def ref_par(eff, ii):
        key = (pk, sk, dbg, ii)
        if key not in _REF_N:
            _REF_N[key] = outcome(TP['make'](TS['make'](), dbg), None, TP['I'][ii], seed)
        return _REF_N[key]
    direct_then_parent = False
    direct = False
    for n, ev in enumerate(seq):
        label = 'after %r, call %d' % (seq[:n], n)
        if ev[0] == 'S':
            judge_call(sub, TS, int(ev[1]), int(ev[2]), seed, ref_sub, rec, label + ' (subgrader called directly)', True)
            direct = True
        else:
            judge_call(par, TP, 0, int(ev[1]), seed, ref_par, rec, label + ' (parent called)', True)
            direct_then_parent = direct_then_parent or direct
        g0 = check_global(g0, label)
    if direct_then_parent:
        rec.cls('nested/direct-then-parent')
    rec.nontrivial(direct_then_parent)
    return {'parent': par.t}


def items_nested(tier):
    length = 3 if tier == 'quick' else 4
    for (pk, sk) in ND_PARENT:
        for dbg in (0, 1):
            for seq in itertools.product(ND_EVENTS, repeat=length):
                yield {'p': pk, 's': sk, 'dbg': dbg, 'seq': list(seq)}


PARTS = [
    Part('seq12', 'enum', judge_seq, items=items_seq12, exhaustive=True),
    Part('seq20', 'enum', judge_seq, items=items_seq20, exhaustive=True),
    Part('nested_debug', 'enum', judge_nested, items=items_nested, exhaustive=True),
    Part('random', 'hyp', judge_random, strategy=strat_random, budget={'quick': 500, 'thorough': 8000}),
]


# ----------------------------------------------------------------------------------------------------------------
# 'pairs': constructing and using a grader T1 must not change what a grader T2 built AFTERWARDS returns
# (added after seeded changes that a fresh-instance differential cannot see, because the fresh instance is built in
# the already contaminated process: a class-level table shared by all allow_inf graders losing 'pi'; metric suffixes
# written into the table every grader reads).  Reference = T2 built and probed in a pristine forked child.

from vlib.isolate import run_in_fork  # noqa: E402


def _pair_templates():
    from mitxgraders import (FormulaGrader as F, NumericalGrader as N, MatrixGrader as M, IntervalGrader as I,
                             SumGrader as S, StringGrader as St, SingleListGrader as SL, ListGrader as L)
    A = lambda: MathArray([[1, 2], [3, 4]])   # noqa: E731
    from mitxgraders.comparers import MatrixEntryComparer
    shared_entry = MatrixEntryComparer(entry_partial_credit='proportional')
    shared_linear = LinearComparer(proportional=0.5, offset=0.4, linear=0.2)
    shared_num = N()
    shared_sub = F(variables=['x'])          # ONE subgrader object serving two ordered ListGraders with sibling answers
    return {
        # sibling variables: what a ListGrader hands its subgrader for ONE submission (the other boxes' formulas) must be gone
        # afterwards - also after a submission that failed (a seeded change wrote them into the subgrader's own sample_from)
        'sib_shared_a': (lambda: L(answers=['sibling_3+1', 'sibling_1^2', 'x'], subgraders=shared_sub, ordered=True),
                         [['x+1', 'x^2+2*x+1', 'x'], ['x+1', 'x^2+2*x+1', 'sibling_2'], ['x+1', '', 'x'], ['x+2', '', 'x+1']]),
        'sibnum_shared_a': (lambda: L(answers=['sibling_2/2', '2*sibling_1'], subgraders=shared_num, ordered=True),
                            [['1', '2'], ['1', '3']]),
        'sibnum_shared_b': (lambda: L(answers=['sibling_2/2', '2*sibling_1'], subgraders=shared_num, ordered=True),
                            [['3', '6'], ['3', '2'], ['5', '10']]),
        'sib_shared_b': (lambda: L(answers=['x+1', 'sibling_1*2', '3'], subgraders=shared_sub, ordered=True),
                         [['x+1', '2*x+2', '3'], ['x+1', '', '3'], ['', '2', '3'], ['x+1', '2*x+2', '']]),
        'num': (lambda: N(answers='pi'), ['pi', '3.14159', 'e', '1e400', 'infty']),
        'num_inf': (lambda: N(answers='pi', allow_inf=True), ['pi', 'infty', 'e']),
        'num_inf_nopi': (lambda: N(answers='2', allow_inf=True, user_constants={'pi': None}), ['2', 'pi']),
        'num_nopi_noe': (lambda: N(answers='2', user_constants={'pi': None, 'e': None}), ['2', 'pi', 'e']),
        'form': (lambda: F(answers='x+pi', variables=['x']), ['pi+x', 'x+3', '2k*x', 'sin(x)']),
        'form_metric': (lambda: F(answers='2000*x', variables=['x'], metric_suffixes=True), ['2k*x', '2000*x', '2M*x']),
        'form_inf': (lambda: F(answers='infty', allow_inf=True), ['infty', '-infty', 'pi']),
        'form_inf_nopi': (lambda: F(answers='x', variables=['x'], allow_inf=True, user_constants={'pi': None, 'i': None}),
                          ['x', 'pi', 'i']),
        'form_userfunc': (lambda: F(answers='f(x)', variables=['x'], suppress_warnings=True,
                                    user_functions={'f': lambda x: x * x, 'sin': lambda x: x}), ['x^2', 'sin(x)', 'f(x)']),
        'form_const': (lambda: F(answers='c*x', variables=['x'], user_constants={'c': 3.0, 'e': 7.0},
                                 suppress_warnings=True), ['3*x', 'c*x', 'e*x/7*3']),
        'form_white': (lambda: F(answers='x', variables=['x'], whitelist=[None]), ['x', 'sin(0)+x']),
        'matrix': (lambda: M(answers='A*[1,2]', user_constants={'A': A()}, max_array_dim=2),
                   ['[5,11]', 'A^-1*[5,11]', 'A*[1,2]', 'abs([3,4])']),
        'matrix_noneg': (lambda: M(answers='A*[1,2]', user_constants={'A': A()}, negative_powers=False, max_array_dim=2),
                         ['[5,11]', 'A^-1*[5,11]']),
        'interval': (lambda: I(answers='[1,pi)'), ['[1,pi)', '[1,3.1)', '[1,infty)']),
        'sum': (lambda: S(answers={'lower': '1', 'upper': '4', 'summand': 'n', 'summation_variable': 'n'}),
                [['1', '4', 'n', 'n'], ['1', '4', 'k+pi-pi', 'k'], ['1', 'infty', '2^-n*0+n*0', 'n']]),
        # function calls inside summation limits, then the same summand text under a function restriction elsewhere
        # (a seeded change merged the limits' function names into the cached parse of the summand)
        'sum_funclimit': (lambda: S(answers={'lower': '1', 'upper': 'sqrt(16)', 'summand': 'n^2', 'summation_variable': 'n'},
                                    user_functions={'half': lambda x: x / 2.0}),
                          [['1', 'sqrt(16)', 'n^2', 'n'], ['1', 'half(8)', 'n^2', 'n'], ['1', '4', 'n^2', 'n'],
                           ['cos(0)', '4', 'k^2', 'k']]),
        'sum_black': (lambda: S(answers={'lower': '1', 'upper': '4', 'summand': 'n^2', 'summation_variable': 'n'},
                                blacklist=['sqrt']),
                      [['1', '4', 'n^2', 'n'], ['1', 'sqrt(16)', 'n^2', 'n'], ['1', '4', 'k^2', 'k']]),
        'form_n2_black': (lambda: F(answers='n^2', variables=['n', 'k'], blacklist=['sqrt', 'cos']), ['n^2', 'n*n', 'k^2']),
        'form_n2_required': (lambda: F(answers='sqrt(n^4)', variables=['n', 'k'], required_functions=['sqrt']),
                             ['n^2', 'sqrt(n^4)', 'k^2']),
        # ONE comparer object in the answers of several graders (different tolerances / different expected values): what a
        # comparer does for one grader must not depend on which grader used it before
        'entry_shared_loose': (lambda: M(answers={'comparer': shared_entry, 'comparer_params': ['[1,2]']}, tolerance=0.5),
                               ['[1.2,2]', '[1,2]', '[1,5]']),
        'entry_shared_tight': (lambda: M(answers={'comparer': shared_entry, 'comparer_params': ['[1,2]']}, tolerance=0.001),
                               ['[1.2,2]', '[1,2]', '[1.0004,2]']),
        'entry_shared_pct': (lambda: M(answers={'comparer': shared_entry, 'comparer_params': ['[1,2,3]']}, tolerance='10%'),
                             ['[1.2,2,3]', '[1,2,3]', '[1,5,3]']),
        'linear_shared_x': (lambda: F(answers={'comparer': shared_linear, 'comparer_params': ['x']}, variables=['x'],
                                      tolerance=1e-6),
                            ['2*x', 'x+1', '0', '3*x+1', 'x']),
        'linear_shared_zero': (lambda: F(answers=({'comparer': shared_linear, 'comparer_params': ['0']},
                                                  {'expect': {'comparer': shared_linear, 'comparer_params': ['x+1']},
                                                   'grade_decimal': 0.5}), variables=['x'], tolerance=1e-6),
                               ['0', '2*x+2', 'x', 'x+1']),
        'string': (lambda: St(answers='cat', wrong_msg='no'), ['cat', 'dog']),
        'slist': (lambda: SL(answers=['x+1', '2*x'], subgrader=F(variables=['x'])), ['x+1, 2*x', '2*x, pi']),
        'list': (lambda: L(answers=['x', 'pi'], subgraders=F(variables=['x'])), [['x', 'pi'], ['pi', '2k']]),
    }


_PAIR_T = None


def _pt():
    global _PAIR_T
    if _PAIR_T is None:
        _PAIR_T = _pair_templates()
    return _PAIR_T


def _probe(name):
    mk, probes = _pt()[name]
    out = []
    try:
        g = mk()
    except Exception as e:  # noqa: BLE001
        return [('construct-exc', type(e).__name__, str(e)[:200])]
    for p in probes:
        set_seed(11)
        try:
            r = g(None, p)
            out.append(('ret', repr(sorted(r.items()) if 'input_list' not in r else r)))
        except Exception as e:  # noqa: BLE001
            out.append(('exc', type(e).__name__, str(e)[:200]))
    return out


_PAIR_REF = {}


def items_pairs(tier):
    names = sorted(_pt())
    for a in names:
        for b in names:
            yield {'first': a, 'then': b}


def judge_pair(spec, rec):
    a, b = spec['first'], spec['then']
    if b not in _PAIR_REF:
        _PAIR_REF[b] = run_in_fork(lambda: _probe(b))
    ref = _PAIR_REF[b]
    got = run_in_fork(lambda: (_probe(a), _probe(b))[1])
    rec.calls(2)
    rec.cls('pairs/judged')
    rec.nontrivial(a != b)
    if got != ref:
        diff = [(p, x, y) for p, x, y in zip(_pt()[b][1], got, ref) if x != y]
        raise Violation('construction-changes-other-grader/%s' % b,
                        'after building and using template %r, template %r behaves differently from a pristine '
                        'process: %r' % (a, b, diff[:2] or (got[:1], ref[:1])))
    return {'first': a, 'then': b, 'probes': len(ref)}


PARTS.append(Part('pairs', 'enum', judge_pair, items=items_pairs, exhaustive=True, prelude=False))
REQUIRED['pairs/judged'] = 300
