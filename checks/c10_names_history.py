"""C10 - reported name usage is exact and parsing is independent of parse history."""
import itertools

from hypothesis import strategies as st

from vlib.core import Part, Violation, Discard, call
from vlib import exprgen as X
from vlib.isolate import run_in_fork

from mitxgraders import FormulaGrader
from mitxgraders.helpers.calc import evaluator, parse
from mitxgraders.helpers.calc.expressions import MathParser
from mitxgraders.exceptions import MITxError
from mitxgraders.sampling import set_seed

RULE = ("(names) Hypothesis expression trees over a confusable vocabulary (names that are prefixes/suffixes of one "
        "another, a name used both as variable and as function, primes, underscores, tensor indices, suffix letters that "
        "are also variables, exponent literals with suffixes, names only inside array literals / exponents / "
        "arguments): parse(s) and evaluator(s) must report exactly the generator's variable / function / suffix sets. "
        "Non-trivial iff two names of which one is a prefix or suffix of the other, or a name in array/exponent/argument position. "
        "(history) EXHAUSTIVE: every call sequence of length <= 3 (quick) / <= 4 (thorough) over 14 strings (valid, "
        "malformed, equal up to spaces) x {parse, evaluator}, each sequence run in a forked child of a process that "
        "never parsed; every call's outcome (names, value, or error type+message) must equal the outcome of the same "
        "call made first in a pristine process and, for parse, on a freshly constructed MathParser. Non-trivial iff a "
        "failing call precedes a succeeding one or a cache key repeats. (history-inf) EXHAUSTIVE sequences of length <= 3 over 6 strings (three overflowing constants, one 120-deep nesting that dies with RecursionError) x {evaluator, evaluator with allow_inf=True, parse}, plus all pairs over 8 strings x {evaluator, allow_inf evaluator, parse, FormulaGrader call}. (random) longer sequences (<= 40 calls incl. "
        "FormulaGrader calls) over generated strings. Distinct by spec hash."
        " history-inf also walks the same strings across scopes (scalar, vector-valued with other suffix / function values, max_array_dim=1); the names vocabulary contains inf / nan / infinity-like names; 'names-fuzz' (thorough): coverage-guided campaign.")
ASSUMPTIONS = ["pool workers are forked from a parent that has imported the library but never parsed (the parser cache "
               "is empty after import); each history case runs in its own forked child, so cases do not see each other",
               "callers do not mutate the sets returned by parse() (no caller in the library does)"]
REQUIRED = {'names/confusable': 300, 'names/array-position': 100, 'names/exponent-position': 100,
            'names/var-and-func-same-name': 50, 'names/suffix-also-variable': 15, 'history/fail-then-success': 500,
            'history/repeat-key': 500, 'random/fail-then-success': 50, 'random/grader-call': 50}

# ----------------------------------------------------------------------------------------------------
# names

VARS = ['x', 'xx', 'x1', 'x_1', "x'", "x''", 'x_1_2', 'sin', 'f', 'm', 'k', 'T_{1}', 'T_{1}^{2}', 'T^{2}', 'T',
        'T_{-1}', 'e1', 'pi2', 'a_b', 'ab', 'a', 'b', "f'", 'sinh', 'M',
        # names that other number parsers (Python's float()) read as literals: to the grammar they are plain names
        'inf', 'nan', 'infinity', 'NaN', 'Inf', 'Infinity', 'INF', 'infty', 'E', 'e']
FUNCS = ['sin', 'f', "f'", 'x', 'sinh', 'sin2', 'T_{1}', 'm', 'fx', 'g_1', "g''", 'a']
SUFFIXES = ['k', 'm', 'M', '%', 'x', 'T']


@st.composite
def numbers(draw):
    n = draw(X.number_literals(None))
    if draw(st.integers(0, 9)) < 4:
        s = draw(st.sampled_from(SUFFIXES))
        return ['num', n[1] + s, 1.0]
    return n


FAMILIES = [
    (['x', 'xx', 'x1', 'x_1', "x'", "x''", 'x_1_2'], ['x', 'fx']),
    (['T', 'T_{1}', 'T_{1}^{2}', 'T^{2}', 'T_{-1}'], ['T_{1}']),
    (['sin', 'sinh', 'pi2', 'e1'], ['sin', 'sinh', 'sin2']),
    (['a', 'ab', 'a_b', 'b'], ['a', 'g_1', "g''"]),
    (['f', "f'", 'm', 'k', 'M'], ['f', "f'", 'm']),
    (['inf', 'nan', 'infinity', 'NaN', 'Inf', 'Infinity', 'INF', 'infty', 'E', 'e'], ['inf', 'nan', 'f']),
]


def name_trees(vars_=None, funcs_=None):
    vars_ = vars_ or VARS
    funcs_ = funcs_ or FUNCS
    leaf = st.one_of(numbers(), st.sampled_from(vars_).map(lambda v: ['var', v]),
                     st.sampled_from(vars_).map(lambda v: ['var', v]))

    def ext(ch):
        return st.one_of(
            ch.map(lambda c: ['neg', c]),
            st.tuples(ch, ch).map(lambda p: ['pow', p[0], p[1]]),
            st.lists(ch, min_size=2, max_size=3).map(lambda l: ['par', l]),
            st.tuples(st.sampled_from(['mul', 'div', 'add', 'sub']), ch, ch).map(list),
            st.tuples(st.sampled_from(funcs_), st.lists(ch, min_size=1, max_size=3)).map(
                lambda p: ['call', p[0], p[1]]),
            st.lists(ch, min_size=1, max_size=3).map(lambda l: ['arr', l]),
        )
    return st.recursive(leaf, ext, max_leaves=10)


def strat_names(tier):
    fam = st.lists(st.sampled_from(range(len(FAMILIES))), min_size=1, max_size=2, unique=True)
    tree = st.one_of(name_trees(), fam.flatmap(lambda ix: name_trees(
        sum((FAMILIES[i][0] for i in ix), []), sum((FAMILIES[i][1] for i in ix), []))))
    return X.fixed_dict({'tree': tree, 'style': X.styles(), 'ws': X.whitespace_styles()})


def positions(t, ctx, acc):
    """collect (name, context) for contexts 'arr' / 'exp' / 'arg'"""
    k = t[0]
    if k == 'var':
        if ctx:
            acc.add(ctx)
    elif k == 'num':
        pass
    elif k == 'call':
        if ctx:
            acc.add(ctx)
        for a in t[2]:
            positions(a, 'arg', acc)
    elif k == 'arr':
        for a in t[1]:
            positions(a, 'arr', acc)
    elif k == 'par':
        for a in t[1]:
            positions(a, ctx, acc)
    elif k == 'pow':
        positions(t[1], ctx, acc)
        positions(t[2], 'exp', acc)
    else:
        for a in t[1:]:
            positions(a, ctx, acc)
    return acc


def _validated(fn):
    fn.validated = True
    return fn


EV_VARS = {v: 1.3 for v in VARS}
EV_FUNCS = {f: _validated(lambda *a: 1.5) for f in FUNCS}
EV_SUFF = {s: 2.0 for s in SUFFIXES}


def judge_names(spec, rec):
    t = spec['tree']
    want = X.names_of(t)
    s = X.render(t, spec['style'], spec['ws'])
    kind, p = call(parse, s)
    rec.calls()
    if kind == 'err':
        if isinstance(p, MITxError):
            raise Violation('names/parse-raised', 'grammatical %r raised %s: %s' % (s, type(p).__name__, str(p)[:150]))
        raise p
    got = {'vars': set(p.variables_used), 'funcs': set(p.functions_used), 'suffixes': set(p.suffixes_used)}
    for k in ('vars', 'funcs', 'suffixes'):
        if got[k] != want[k]:
            missing, spurious = sorted(want[k] - got[k]), sorted(got[k] - want[k])
            raise Violation('names/%s-%s' % (k, 'missing' if missing else 'spurious'),
                            'parse(%r): %s reported %s, expression contains %s (missing %s, spurious %s)' % (
                                s, k, sorted(got[k]), sorted(want[k]), missing, spurious))
    kind, out = call(evaluator, s, EV_VARS, EV_FUNCS, EV_SUFF)
    rec.calls()
    if kind == 'ok':
        m = out[1]
        got2 = {'vars': set(m.variables_used), 'funcs': set(m.functions_used), 'suffixes': set(m.suffixes_used)}
        for k in ('vars', 'funcs', 'suffixes'):
            if got2[k] != want[k]:
                raise Violation('names/evaluator-%s' % k, 'evaluator(%r) metadata %s = %s, expression contains %s' % (
                    s, k, sorted(got2[k]), sorted(want[k])))
        rec.cls('names/evaluated')
    # ... and once more with not-a-number flowing through the tree (one variable bound to NaN, infinities allowed so that
    # inf - inf may arise): the reported names are those of the expression, whatever its value
    if want['vars']:
        vars_nan = dict(EV_VARS)
        vars_nan[sorted(want['vars'])[len(s) % len(want['vars'])]] = float('nan')
        kind, out = call(evaluator, s, vars_nan, EV_FUNCS, EV_SUFF, allow_inf=True)
        rec.calls()
        if kind == 'ok':
            m = out[1]
            got3 = {'vars': set(m.variables_used), 'funcs': set(m.functions_used), 'suffixes': set(m.suffixes_used)}
            for k in ('vars', 'funcs', 'suffixes'):
                if got3[k] != want[k]:
                    raise Violation('names/evaluator-%s' % k, 'evaluator(%r) with a NaN-valued variable: metadata %s = %s, '
                                    'expression contains %s' % (s, k, sorted(got3[k]), sorted(want[k])))
            rec.cls('names/evaluated-with-nan')
    # evaluation failures (shape errors of random array expressions, '[1,2]||3', ...) are not C10's business:
    # the metadata is compared only when the evaluation succeeds; parse() above was compared in every case
    allnames = want['vars'] | want['funcs'] | want['suffixes']
    confus = [a for a in allnames for b in allnames if a != b and (a.startswith(b) or a.endswith(b))]
    pos = positions(t, None, set())
    if len(confus) >= 1:
        rec.cls('names/confusable')
    if 'arr' in pos:
        rec.cls('names/array-position')
    if 'exp' in pos:
        rec.cls('names/exponent-position')
    if want['vars'] & want['funcs']:
        rec.cls('names/var-and-func-same-name')
    if want['suffixes'] & want['vars']:
        rec.cls('names/suffix-also-variable')
    rec.nontrivial(len(confus) >= 1 or bool(pos))
    return {'string': s, 'vars': sorted(got['vars']), 'funcs': sorted(got['funcs']),
            'suffixes': sorted(got['suffixes'])}


# ----------------------------------------------------------------------------------------------------
# histories

ALPHABET = ['x+y', 'x + y', 'f(x)', 'x*', '(x', 'sin(y)+z', '2k', 'f(x,)', '[x,y]', 'g(z)+$', 'y', 'sin+sin(x)',
            'X+y', 'si\tn(y)+z']
H_VARS = {'x': 2.0, 'y': 3.0, 'z': 5.0, 'sin': 7.0}
H_SUFF = {'k': 1000.0}


def _h_funcs():
    import numpy as np
    return {'f': lambda a: a * 2, 'sin': np.sin}


KEPT = {'vars': dict(H_VARS), 'funcs': {'f': lambda a: a * 2}, 'suff': dict(H_SUFF)}


def _two_args(a, b):
    return a + b


def do_event(op, s):
    """One call; returns a comparable, picklable outcome."""
    try:
        if op == 'p':
            p = parse(s)
            return ('ok', sorted(p.variables_used), sorted(p.functions_used), sorted(p.suffixes_used))
        if op == 'e':
            v, m = evaluator(s, dict(H_VARS), _h_funcs(), dict(H_SUFF), max_array_dim=2)
            return ('ok', repr(v), sorted(m.variables_used), sorted(m.functions_used), sorted(m.suffixes_used))
        if op == 'w':
            # the scalar scope, but f now takes TWO arguments (and sin none at all): f(x) is an arity error here
            v, m = evaluator(s, dict(H_VARS), {'f': _two_args, 'sin': _h_funcs()['sin']},
                             dict(H_SUFF), max_array_dim=2)
            return ('ok', repr(v), sorted(m.variables_used), sorted(m.functions_used), sorted(m.suffixes_used),
                    m.max_array_dim_used)
        if op in ('v', 'm'):
            # 'v': the same strings in ANOTHER scope - vector-valued variables, another multiplier for k, another f;
            # 'm': the scalar scope, but with one-dimensional arrays at most (the MatrixGrader default).  What is
            # reported (value, names, array dimension used) belongs to this evaluation alone.
            from mitxgraders.helpers.calc import MathArray
            if op == 'v':
                scope = {'x': MathArray([1.0, 2.0]), 'y': MathArray([3.0, 5.0]), 'z': 5.0, 'sin': 7.0}
                v, m = evaluator(s, scope, {'f': lambda a: a * 3, 'sin': _h_funcs()['sin']}, {'k': 1024.0}, max_array_dim=2)
            else:
                v, m = evaluator(s, dict(H_VARS), _h_funcs(), dict(H_SUFF), max_array_dim=1)
            return ('ok', repr(v), sorted(m.variables_used), sorted(m.functions_used), sorted(m.suffixes_used),
                    m.max_array_dim_used)
        if op == 'i':    # evaluation that tolerates infinities
            v, m = evaluator(s, dict(H_VARS), _h_funcs(), dict(H_SUFF), max_array_dim=2, allow_inf=True)
            return ('ok', repr(v), sorted(m.variables_used), sorted(m.functions_used), sorted(m.suffixes_used))
        if op in ('d', 'D'):
            # the library's DEFAULT tables (no scope supplied), without / with allow_inf
            v, m = evaluator(s, allow_inf=(op == 'D'))
            return ('ok', repr(v), sorted(m.variables_used), sorted(m.functions_used), sorted(m.suffixes_used))
        if op in ('k', 'K'):
            # a scope the caller KEEPS across calls (one dictionary object per process), without / with allow_inf;
            # the names it holds afterwards are part of the outcome
            v, m = evaluator(s, KEPT['vars'], KEPT['funcs'], KEPT['suff'], max_array_dim=2, allow_inf=(op == 'K'))
            return ('ok', repr(v), sorted(m.variables_used), sorted(m.functions_used), sorted(m.suffixes_used),
                    sorted(KEPT['vars']), sorted(KEPT['funcs']), sorted(KEPT['suff']))
        if op == 'g':
            set_seed(1)
            g = FormulaGrader(answers='x+y', variables=['x', 'y', 'z'], user_functions={'f': lambda a: a * 2},
                              metric_suffixes=True)
            r = g(None, s)
            return ('ok', r['ok'], r['grade_decimal'], r['msg'])
        raise ValueError(op)
    except MITxError as e:
        return ('exc', type(e).__name__, str(e))
    except Exception as e:  # noqa: BLE001
        return ('foreign-exc', type(e).__name__, str(e))


def fresh_parser_outcome(op, s):
    if op != 'p':
        return None
    try:
        p = MathParser().parse(s)
        return ('ok', sorted(p.variables_used), sorted(p.functions_used), sorted(p.suffixes_used))
    except MITxError as e:
        return ('exc', type(e).__name__, str(e))
    except Exception as e:  # noqa: BLE001
        return ('foreign-exc', type(e).__name__, str(e))


_REF = {}


def reference(op, s):
    """Outcome of the call made as the very first call in a pristine process (+ fresh-parser outcome)."""
    key = (op, s)
    if key not in _REF:
        _REF[key] = run_in_fork(lambda: (do_event(op, s), fresh_parser_outcome(op, s)))
    return _REF[key]


def run_sequence(events):
    return [do_event(op, s) for op, s in events]


def judge_sequence(events, rec, label):
    outs = run_in_fork(lambda: run_sequence(events))
    rec.calls(len(events))
    failed_before = False
    fail_then_ok = False
    keys = [s.replace(' ', '') for _, s in events]
    for n, ((op, s), out) in enumerate(zip(events, outs)):
        first, fresh = reference(op, s)
        if out[0] == 'foreign-exc' and first[0] != 'foreign-exc':
            raise Violation('history/foreign-exception', 'call %d %s(%r) after %r raised %s: %s' % (
                n, op, s, events[:n], out[1], out[2]))
        if out != first:
            raise Violation('history/outcome-depends-on-history',
                            'call %d: %s(%r) gave %r after the calls %r, but %r when made first in a fresh process' % (
                                n, op, s, out, events[:n], first))
        if fresh is not None and fresh != first:
            raise Violation('history/shared-parser-differs-from-fresh-parser',
                            'parse(%r) on the shared parser gave %r, a freshly constructed MathParser gives %r' % (
                                s, first, fresh))
        if out[0] == 'ok' and failed_before:
            fail_then_ok = True
        if out[0] != 'ok':
            failed_before = True
    repeat = len(set(keys)) < len(keys)
    if fail_then_ok:
        rec.cls(label + '/fail-then-success')
    if repeat:
        rec.cls(label + '/repeat-key')
    rec.nontrivial(fail_then_ok or repeat)
    return {'events': events, 'outcomes': [o[0] if o[0] != 'ok' else o for o in outs][-2:]}


EVENTS = [(op, s) for op in 'pe' for s in ALPHABET]


def items_history(tier):
    maxlen = 3 if tier == 'quick' else 4
    for L in range(1, maxlen + 1):
        for seq in itertools.product(range(len(EVENTS)), repeat=L):
            yield {'seq': list(seq)}


def judge_history(spec, rec):
    return judge_sequence([EVENTS[i] for i in spec['seq']], rec, 'history')


# the same string evaluated with and without allow_inf (a memoised value must not leak across the option)
# ... and a bracket-balanced but very deeply nested string that mentions names: parsing it dies with RecursionError
# inside pyparsing (not a ParseException); whatever the parser collected before must not leak into the next string
DEEP = 'sin(z)+' + '(' * 120 + '1' + ')' * 120
INF_EVENTS = [(op, s) for op in 'eip' for s in ['1e999', '1e308*10', '[1, 1e999]', 'x+y', '2', DEEP]]
# pairs only, over a wider alphabet: + grading by a FormulaGrader ('g'; 'sin(0)+x+y' is graded correct, so the
# post-evaluation validators run on the cached expression's name sets), + a failing allow_inf evaluation ('1/0')
# followed by an overflow inside numpy ('sin(1e200)*0+1e200*1e200' stays in Python, 'f(1e200)*1e200' too: the numpy
# route is 'sin(x)+[1e200,1]*1e200')
INF_EVENTS2 = [(op, s) for op in 'eipg' for s in ['1e999', 'x+y', 'sin(0)+x+y', '1/0', '[1e200,1]*1e200',
                                                    'sin(y)+z', '2', 'f(x)+sin(0)']]


# the same strings across scopes: scalar scope ('e'), vector scope with other suffix / function values ('v'), scalar scope
# with max_array_dim=1 ('m')
SCOPE_EVENTS = [(op, s) for op in 'evm' for s in ['[x,y]', 'x+y', '[x,y]*2', '2k', 'f(x)', '[x,2k]', 'x*y']] + \
    [('w', s) for s in ['f(x)', 'f(x,y)', 'x+y']] + [('e', 'f(x,y)')]


# default tables and a kept scope, with and without allow_inf (a seeded change made allow_inf define 'infty' IN the scope
# it was handed - the process-wide default table, or the caller's own dictionary)
DEFAULT_EVENTS = [(op, s) for op in 'dDkK' for s in ['3*infty', '1e308*10', 'pi+e', 'infty', 'x+y']]


def items_history_inf(tier):
    for L in (1, 2, 3):
        for seq in itertools.product(range(len(DEFAULT_EVENTS)), repeat=L):
            if L < 3 or len({DEFAULT_EVENTS[i][1] for i in seq}) <= 2:
                yield {'seq4': list(seq)}
    for L in (1, 2, 3):
        for seq in itertools.product(range(len(SCOPE_EVENTS)), repeat=L):
            if L < 3 or len({SCOPE_EVENTS[i][1] for i in seq}) <= 2:
                yield {'seq3': list(seq)}
    for L in range(1, 4):
        for seq in itertools.product(range(len(INF_EVENTS)), repeat=L):
            yield {'seq': list(seq)}
    for L in (1, 2):
        for seq in itertools.product(range(len(INF_EVENTS2)), repeat=L):
            yield {'seq2': list(seq)}


def judge_history_inf(spec, rec):
    if 'seq3' in spec:
        rec.cls('history/across-scopes')
        return judge_sequence([SCOPE_EVENTS[i] for i in spec['seq3']], rec, 'history')
    if 'seq4' in spec:
        rec.cls('history/default-tables-and-kept-scope')
        return judge_sequence([DEFAULT_EVENTS[i] for i in spec['seq4']], rec, 'history')
    if 'seq2' in spec:
        return judge_sequence([INF_EVENTS2[i] for i in spec['seq2']], rec, 'history')
    return judge_sequence([INF_EVENTS[i] for i in spec['seq']], rec, 'history')


# random longer sequences over generated strings


def strat_random(tier):
    small = X.trees(var_names=['x', 'y', 'z', 'sin', 'xx'], func_names=['sin', 'f', 'cos'], suffixes={'k': 1e3},
                    max_leaves=5, consts=False)
    valid = st.tuples(small, X.styles(), X.whitespace_styles()).map(lambda p: X.render(p[0], p[1], p[2]))
    broken = st.tuples(valid, st.sampled_from(['*', '(', ')', '$', ',', '+', '^', '[', '||', '2']),
                       st.integers(0, 50)).map(lambda p: p[0][:p[2] % (len(p[0]) + 1)] + p[1] + p[0][p[2] % (len(p[0]) + 1):])
    cased = valid.map(lambda v: v.swapcase())
    pool = st.lists(st.one_of(valid, valid, broken, cased, st.sampled_from(ALPHABET)), min_size=2, max_size=8).map(
        lambda l: l + [l[0].upper(), l[0].lower()])
    return pool.flatmap(lambda strs: st.lists(
        st.tuples(st.sampled_from(['p', 'e', 'e', 'g', 'i']), st.sampled_from(strs + ['1e999', '2e308+1'])).map(list),
        min_size=4, max_size=40)
    ).map(lambda ev: {'events': ev})


def judge_random(spec, rec):
    events = [tuple(e) for e in spec['events']]
    for op, s in events:
        for ch in s:
            if ch in '\t\n\r' and op == 'g':
                pass
    if any(op == 'g' for op, _ in events):
        rec.cls('random/grader-call')
    return judge_sequence(events, rec, 'random')


PARTS = [
    Part('names', 'hyp', judge_names, strategy=strat_names, budget={'quick': 5000, 'thorough': 100000}),
    # coverage-guided (atheris/libFuzzer over the same strategy and oracle; thorough tier only, vlib/fuzzworker.py)
    Part('names-fuzz', 'fuzz', judge_names, strategy=strat_names, budget={'quick': 0, 'thorough': 240000}),
    Part('history', 'enum', judge_history, items=items_history, exhaustive=True, prelude=False),
    Part('history-inf', 'enum', judge_history_inf, items=items_history_inf, exhaustive=True, prelude=False),
    Part('random', 'hyp', judge_random, strategy=strat_random, budget={'quick': 400, 'thorough': 8000}, prelude=False),
]
