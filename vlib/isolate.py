"""Process isolation: run a function in a forked child and return its (picklable) result."""
import os
import pickle
import signal
import struct
import traceback


class ChildFailed(Exception):
    pass


def run_in_fork(fn, timeout=60):
    """Fork; the child runs fn() and sends back pickle((True, value)) or (False, traceback text)."""
    r, w = os.pipe()
    pid = os.fork()
    if pid == 0:
        code = 0
        try:
            os.close(r)
            signal.alarm(timeout)
            try:
                out = (True, fn())
            except BaseException:  # noqa: BLE001
                out = (False, traceback.format_exc())
            data = pickle.dumps(out)
            with os.fdopen(w, 'wb') as f:
                f.write(struct.pack('Q', len(data)))
                f.write(data)
        except BaseException:  # noqa: BLE001
            code = 3
        finally:
            os._exit(code)
    os.close(w)
    with os.fdopen(r, 'rb') as f:
        head = f.read(8)
        data = f.read(struct.unpack('Q', head)[0]) if len(head) == 8 else b''
    _, status = os.waitpid(pid, 0)
    if not data:
        raise ChildFailed('child died (status %r) without a result' % status)
    ok, val = pickle.loads(data)
    if not ok:
        raise ChildFailed(val)
    return val
