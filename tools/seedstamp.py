#!/venv/bin/python
"""Re-run the property's quick check against a kept seeded change that was MISSED at first and, if it is now CAUGHT,
record that in seeded/<id>/meta.json.   usage: tools/seedstamp.py <id> "<what was added>" [--checks C02]"""
import json, os, subprocess, sys
HERE = os.path.dirname(os.path.dirname(os.path.abspath(__file__)))
sid, what = sys.argv[1], sys.argv[2]
d = os.path.join(HERE, 'seeded', sid)
meta = json.load(open(os.path.join(d, 'meta.json')))
checks = sys.argv[sys.argv.index('--checks') + 1] if '--checks' in sys.argv else meta['property']
r = subprocess.run([os.path.join(HERE, 'tools', 'seedcheck.py'), d, '--checks', checks], capture_output=True, text=True)
print(r.stdout[-1500:])
for c in checks.split(','):
    caught = ('check %s quick: CAUGHT' % c) in r.stdout
    buckets = [l.strip()[:300] for l in r.stdout.splitlines() if l.strip().startswith('bucket')][:3]
    prev = meta['confirmed']['checks'].get(c, {})
    if caught and prev.get('verdict', 'MISSED').startswith('MISSED'):
        meta['confirmed']['checks'][c] = {'verdict': 'CAUGHT (after strengthening; first run MISSED)', 'tier': 'quick',
                                          'buckets': buckets}
        meta['history'] = 'First run of ./check %s quick: MISSED. Strengthened: %s -> now CAUGHT (%s).' % (
            c, what, '; '.join(b.split(':')[0].replace('bucket ', '') for b in buckets))
    elif caught and c not in meta['confirmed']['checks']:
        meta['confirmed']['checks'][c] = {'verdict': 'CAUGHT', 'tier': 'quick', 'buckets': buckets}
    elif not caught:
        print('STILL MISSED by', c)
json.dump(meta, open(os.path.join(d, 'meta.json'), 'w'), indent=1)
