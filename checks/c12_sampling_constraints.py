"""C12 - every random draw satisfies all constraints its sampling set declares."""
import itertools
import math
import numbers
import os

import numpy as np
from hypothesis import strategies as st

from vlib.core import Part, Violation, Discard, Watchdog, call, lib_frames, VERIF
from vlib import forms

from mitxgraders import (RealInterval, IntegerRange, ComplexRectangle, ComplexSector, DiscreteSet,
                         SpecificFunctions, RandomFunction, RealVectors, ComplexVectors, RealMatrices,
                         ComplexMatrices, RealTensors, ComplexTensors, IdentityMatrixMultiples, SquareMatrices)
from mitxgraders.helpers.calc import MathArray
from mitxgraders.sampling import set_seed
from mitxgraders.exceptions import MITxError, ConfigError

RULE = ("A case is one sampler configuration (class + options, written in one of the documented forms: keywords, "
        "[start, stop] list, dict, defaults) plus a sampling seed; the judge builds the sampler, pins the library's "
        "RNG with set_seed(seed) and takes K draws (K = 20 quick; IntegerRange 400 so that a missed endpoint has "
        "probability < 1e-20). Every draw is tested for membership in the declared set by an oracle that only reads "
        "the configuration: closed interval bounds in either order, integer-valuedness and both endpoints attained, "
        "rectangle / annular-sector membership (argument modulo 2 pi), equality-and-type membership in the listed "
        "tuple (identity for function lists), random functions: arity (nin, wrong argument counts raise), scalar vs "
        "MathArray(output_dim,), real/complex type, |f(x)-center| <= amplitude at 50+ points per drawn function and "
        "bit-identical values when re-evaluated after further draws; arrays: MathArray, shape, real/complex, Frobenius "
        "norm in range, exact zeros of triangular matrices; identity multiples: exactly scalar*I with the scalar in "
        "the scalar sampler's set; SquareMatrices: all 288 combinations dimension 2-5 x symmetry x traceless x "
        "determinant x complex (x 4 norm ranges) are enumerated, constructor acceptance must equal the existence "
        "table written in the class doc-string, and every draw of an accepted combination must have the symmetry, "
        "trace, determinant, norm, shape and realness requested. Non-trivial = the configuration differs from the "
        "class default in at least one option and the K draws are not all equal; distinct by configuration+seed."
        " In every part rival samplers of the same class with far-away options are constructed and sampled after the sampler under test is built and before it is drawn from.")
ASSUMPTIONS = [
    "bounds, centers, amplitudes and norms are finite numbers of magnitude <= 1e6 (ComplexSector modulus and array "
    "norm ranges non-negative), as the docs describe; no NaN/inf options",
    "tolerances: interval membership 1e-12 relative; sector argument 1e-12 absolute; norms 1e-9 relative; symmetry "
    "residual 1e-12 x norm; trace 1e-11 x norm; |det-1| <= 1e-9 max(1, norm^n); |det| <= 1e-9 norm^n; random function "
    "bound amplitude (1+1e-9) + 1e-12 |center|.  Honest draws sit 3-6 orders of magnitude inside these bands "
    "(calibrated on 12 840 draws), violations by a wrong formula are O(1), so no honest case falls near a band edge",
    "numpy's det / norm / angle are trusted as the reference for the drawn matrices (dimension <= 6)",
    "the SquareMatrices existence table is the one in the doc-string of mitxgraders.matrixsampling.SquareMatrices: "
    "unsupported = determinant 0 with traceless, determinant 0 antisymmetric that is complex or real of even "
    "dimension; non-existent = determinant 1 traceless 2x2 real diagonal / real symmetric / hermitian, determinant 1 "
    "antisymmetric or antihermitian of odd dimension (74 of 288 rejected, 214 accepted)",
    "OrthogonalMatrices / UnitaryMatrices need scipy (absent) and DependentSampler does not draw at random: both "
    "outside the property",
]
REQUIRED = {
    'real/reversed': 300, 'real/degenerate': 150, 'real/negative': 300, 'int/reversed': 200, 'int/degenerate': 30,
    'int/endpoints-checked': 400, 'rect': 1000, 'sector/arg-checked': 1000, 'discrete/array-member': 700,
    'discrete/single': 100, 'specfunc': 1000, 'randfunc/input_dim=1': 1500, 'randfunc/input_dim>1': 1000,
    'randfunc/complex': 600, 'randfunc/vector-output': 600, 'array/vector': 700, 'array/triangular': 500,
    'array/rectangular': 300, 'array/tensor4': 300, 'array/complex': 1200, 'array/norm-reversed': 400,
    'identity/IntegerRange': 150, 'identity/ComplexSector': 300, 'identity/ComplexRectangle': 200,
    'identity/rawlist': 100, 'square/accepted': 856 + 1000, 'square/rejected': 296 + 300, 'square/det0': 400,
    'square/det1': 800,
}

EPS = 2.220446049250313e-16
TWO_PI = 2 * math.pi
K_QUICK, K_THOROUGH = 20, 100
K_ENUM = {'quick': 20, 'thorough': 300}
K_INT = 400          # draws from an IntegerRange: (8/9)^400 < 1e-20


def env_seed():
    return int(os.environ.get('VERIF_SEED', '1') or 1)


def guarded(judge):
    """An exception leaving the library while a documented configuration is built or drawn from is a violation.

    The runner does the same classification, but it resolves the innermost file name relative to the working
    directory; frames of compiled numpy code ('numpy/random/mtrand.pyx', e.g. randint's "low >= high") then look
    like harness files.  So the classification is done here, with the same bucket naming.
    """
    def wrapped(spec, rec):
        try:
            return judge(spec, rec)
        except (Violation, Discard, Watchdog):
            raise
        except Exception as e:  # noqa: BLE001
            inner_repo, last = lib_frames(e.__traceback__)
            if inner_repo is None:
                raise
            if os.path.isabs(last.filename) and os.path.realpath(last.filename).startswith(VERIF + os.sep):
                raise
            raise Violation('uncaught/%s/%s:%s' % (type(e).__name__, os.path.basename(inner_repo.filename),
                                                  inner_repo.name),
                            'library raised %s: %s' % (type(e).__name__, str(e)[:300]))
    wrapped.__name__ = judge.__name__
    return wrapped



# ---------------------------------------------------------------------------------------------------------
# rivals: other sampling sets of the same class, with far-away options, constructed and used AFTER the sampler under
# test was built and BEFORE it is drawn from (a problem usually holds several samplers of one class; what one of them
# declares must not depend on its siblings - a seeded change kept the ranges in a class-level dictionary)

RIVALS = {
    'RealInterval': [lambda: RealInterval([1000, 2000])],
    'IntegerRange': [lambda: IntegerRange([1000, 1003])],
    'ComplexRectangle': [lambda: ComplexRectangle(re=[1000, 2000], im=[-3000, -2000])],
    'ComplexSector': [lambda: ComplexSector(modulus=[1000, 2000], argument=[2.9, 3.0])],
    'DiscreteSet': [lambda: DiscreteSet((777.5, 888.5))],
    'SpecificFunctions': [lambda: SpecificFunctions([np.tan])],
    'RandomFunction': [lambda: RandomFunction(center=1000, amplitude=1), lambda: RandomFunction(input_dim=3, output_dim=2, center=-1000)],
    'RealVectors': [lambda: RealVectors(shape=7, norm=[1000, 2000])],
    'ComplexVectors': [lambda: ComplexVectors(shape=7, norm=[1000, 2000])],
    'RealMatrices': [lambda: RealMatrices(shape=[5, 6], norm=[1000, 2000])],
    'ComplexMatrices': [lambda: ComplexMatrices(shape=[5, 6], norm=[1000, 2000])],
    'RealTensors': [lambda: RealTensors(shape=[2, 2, 5], norm=[1000, 2000])],
    'ComplexTensors': [lambda: ComplexTensors(shape=[2, 2, 5], norm=[1000, 2000])],
    'IdentityMatrixMultiples': [lambda: IdentityMatrixMultiples(dimension=6, sampler=[1000, 2000])],
    'SquareMatrices': [lambda: SquareMatrices(dimension=6, norm=[1000, 2000]),
                       lambda: SquareMatrices(dimension=3, symmetry='antisymmetric', complex=True, norm=[1000, 2000])],
}


def rivals_then_seed(sampler, seed, rec):
    for make in RIVALS.get(type(sampler).__name__, []):
        r = make()
        v = r.gen_sample()
        if callable(v):
            v(*([0.5] * r.config['input_dim'])) if 'input_dim' in r.config else None
    rec.note('rival-samplers-built')
    set_seed(seed)


# ---------------------------------------------------------------------------------------------------------
# small oracles


def in_closed(v, lo, hi, rel=1e-12):
    tol = rel * max(abs(lo), abs(hi))
    return lo - tol <= v <= hi + tol


def is_real_number(v):
    return isinstance(v, numbers.Real) and not isinstance(v, bool) and not isinstance(v, np.ndarray)


def frob(a):
    a = np.asarray(a)
    return float(np.sqrt(np.sum(np.abs(a) ** 2)))


def short(v):
    if isinstance(v, np.ndarray):
        return np.asarray(v).tolist()
    return v


# ---------------------------------------------------------------------------------------------------------
# scalar samplers: build from a spec + membership oracle


def rng_arg(pair, form):
    """A NumberRange option value in list or dict form."""
    if form == 'dict':
        return {'start': pair[0], 'stop': pair[1]}
    return list(pair)


def build_scalar(sp):
    """-> (sampler, member(v) -> None | (clause, message), info)"""
    cls = sp['cls']
    if cls in ('RealInterval', 'IntegerRange'):
        C = RealInterval if cls == 'RealInterval' else IntegerRange
        form = sp['form']
        a, b = (1, 5) if form == 'default' else (sp['a'], sp['b'])
        if form == 'default':
            s = C()
        elif form == 'kw':
            s = C(start=a, stop=b)
        elif form == 'list':
            s = C([a, b])
        elif form == 'dict':
            s = C({'start': a, 'stop': b})
        elif form == 'stop-only':
            a = 1
            s = C(stop=b)
        else:
            raise AssertionError(form)
        lo, hi = min(a, b), max(a, b)
        if cls == 'RealInterval':
            def member(v):
                if not is_real_number(v):
                    return 'real-type', 'RealInterval sample %r (%s) is not a real number' % (v, type(v).__name__)
                if not in_closed(v, lo, hi):
                    return 'real-bounds', 'RealInterval(%r, %r) gave %r' % (a, b, v)
        else:
            def member(v):
                if not is_real_number(v) or float(v) != math.floor(float(v)):
                    return 'int-type', 'IntegerRange sample %r (%s) is not an integer' % (v, type(v).__name__)
                if not lo <= v <= hi:
                    return 'int-bounds', 'IntegerRange(%r, %r) gave %r' % (a, b, v)
        return s, member, {'lo': lo, 'hi': hi, 'a': a, 'b': b}
    if cls == 'ComplexRectangle':
        kw = {}
        re_, im_ = sp.get('re'), sp.get('im')
        if re_ is not None:
            kw['re'] = rng_arg(re_, sp.get('form'))
        if im_ is not None:
            kw['im'] = rng_arg(im_, sp.get('form'))
        s = forms.make(ComplexRectangle, kw)
        re_ = re_ if re_ is not None else (1, 3)
        im_ = im_ if im_ is not None else (1, 3)

        def member(v):
            if not isinstance(v, complex):
                return 'rect-type', 'ComplexRectangle sample %r (%s) is not complex' % (v, type(v).__name__)
            if not (in_closed(v.real, min(re_), max(re_)) and in_closed(v.imag, min(im_), max(im_))):
                return 'rect-bounds', 'ComplexRectangle(re=%r, im=%r) gave %r' % (list(re_), list(im_), v)
        return s, member, {}
    if cls == 'ComplexSector':
        kw = {}
        mod, arg = sp.get('mod'), sp.get('arg')
        if mod is not None:
            kw['modulus'] = rng_arg(mod, sp.get('form'))
        if arg is not None:
            kw['argument'] = rng_arg(arg, sp.get('form'))
        s = forms.make(ComplexSector, kw)
        mod = mod if mod is not None else (1, 3)
        arg = arg if arg is not None else (0, math.pi / 2)
        mlo, mhi = min(mod), max(mod)
        alo, ahi = min(arg), max(arg)
        full = ahi - alo >= TWO_PI - 1e-9

        def member(v):
            if not isinstance(v, complex):
                return 'sector-type', 'ComplexSector sample %r (%s) is not complex' % (v, type(v).__name__)
            r = abs(v)
            if not in_closed(r, mlo, mhi):
                return 'sector-modulus', 'ComplexSector(modulus=%r) gave |z| = %r' % (list(mod), r)
            if full or r < 1e-300:
                return None
            ph = math.atan2(v.imag, v.real)
            k0 = math.floor((alo - ph) / TWO_PI) - 1
            for k in range(k0, k0 + 4):
                if alo - 1e-12 <= ph + TWO_PI * k <= ahi + 1e-12:
                    return None
            return 'sector-argument', 'ComplexSector(argument=%r) gave arg z = %r' % (list(arg), ph)
        return s, member, {'arg_checked': not full and mhi > 0}
    raise AssertionError(cls)


def scalar_default(sp):
    if sp['cls'] in ('RealInterval', 'IntegerRange'):
        return sp['form'] == 'default' or (min(sp['a'], sp['b']), max(sp['a'], sp['b'])) == (1, 5)
    return all(sp.get(k) is None for k in ('re', 'im', 'mod', 'arg'))


def judge_scalar(spec, rec):
    sp = spec['s']
    s, member, info = build_scalar(sp)
    cls = sp['cls']
    k = K_INT if cls == 'IntegerRange' else spec['k']
    rivals_then_seed(s, spec['seed'], rec)
    draws = [s.gen_sample() for _ in range(k)]
    rec.calls(k)
    for v in draws:
        bad = member(v)
        if bad:
            raise Violation(bad[0], bad[1])
    obs = {'cls': cls, 'first': draws[0], 'distinct': len(set(draws))}
    if cls in ('RealInterval', 'IntegerRange'):
        tag = 'real' if cls == 'RealInterval' else 'int'
        a, b, lo, hi = info['a'], info['b'], info['lo'], info['hi']
        if a > b:
            rec.cls(tag + '/reversed')
        if a == b:
            rec.cls(tag + '/degenerate')
        if lo < 0:
            rec.cls(tag + '/negative')
        if cls == 'IntegerRange':
            n = hi - lo + 1
            # both endpoints must be attainable: judged when missing one in K draws has probability < 1e-20
            if n == 1 or k * math.log(n / (n - 1.0)) > 46.1:
                rec.cls('int/endpoints-checked')
                seen = set(int(v) for v in draws)
                for end, name in ((lo, 'low'), (hi, 'high')):
                    if end not in seen:
                        raise Violation('int-endpoint', 'IntegerRange(%r, %r): %s endpoint %d never drawn in %d draws '
                                        '(values seen %r)' % (a, b, name, end, k, sorted(seen)))
    elif cls == 'ComplexRectangle':
        rec.cls('rect')
    else:
        rec.cls('sector')
        if info['arg_checked']:
            rec.cls('sector/arg-checked')
    rec.nontrivial(not scalar_default(sp) and len(set(draws)) > 1)
    return obs


NUM = st.one_of(st.integers(-20, 20), st.floats(-100, 100, allow_nan=False).map(lambda x: round(x, 3)),
                st.sampled_from([0, 1, -1, 0.5, 1e-9, -2.5, 7.25, 1e6, -1e6, math.pi, -1e-9, 1e-3]))
NONNEG = st.one_of(st.integers(0, 20), st.floats(0, 100, allow_nan=False).map(lambda x: round(x, 3)),
                   st.sampled_from([0, 1, 0.5, 1e-9, 7.25, 1e6, 1e-3]))
ANGLE = st.one_of(st.floats(-10, 10, allow_nan=False).map(lambda x: round(x, 3)),
                  st.sampled_from([0, math.pi, -math.pi, math.pi / 2, -math.pi / 2, 2 * math.pi, 1, -3, 3.5]),
                  st.integers(-7, 7))


def pairs(elem):
    """[start, stop]: 2/5 increasing, 2/5 reversed, 1/5 degenerate (constructed, since Hypothesis likes duplicates)."""
    def build(t):
        x, y, kind = t
        if kind == 2:
            return [x, x]
        lo, hi = min(x, y), max(x, y)
        if lo == hi:
            hi = lo + 1
        return [lo, hi] if kind == 0 else [hi, lo]
    return st.tuples(elem, elem, st.sampled_from([0, 0, 1, 1, 2])).map(build)


def scalar_specs(kinds=('RealInterval', 'IntegerRange', 'ComplexRectangle', 'ComplexSector')):
    forms = st.sampled_from(['kw', 'list', 'dict', 'kw', 'list', 'stop-only', 'default'])
    real = st.tuples(pairs(NUM), forms).map(
        lambda t: {'cls': 'RealInterval', 'a': t[0][0], 'b': t[0][1], 'form': t[1]})
    width = st.sampled_from([0, 1, 2, 3, 1, 2, 3, 4, 5, 7, 8, 20, 1000])
    integer = st.tuples(st.one_of(st.integers(-50, 50), st.sampled_from([0, 1, -1, 10 ** 6, -10 ** 6])), width,
                        st.booleans(), forms).map(
        lambda t: {'cls': 'IntegerRange', 'a': t[0] + (t[1] if t[2] else 0), 'b': t[0] + (0 if t[2] else t[1]),
                   'form': t[3]})
    lform = st.sampled_from(['list', 'list', 'dict'])
    rect = st.tuples(st.one_of(st.none(), pairs(NUM)), st.one_of(st.none(), pairs(NUM)), lform).map(
        lambda t: {'cls': 'ComplexRectangle', 're': t[0], 'im': t[1], 'form': t[2]})
    sector = st.tuples(st.one_of(st.none(), pairs(NONNEG)), st.one_of(st.none(), pairs(ANGLE)), lform).map(
        lambda t: {'cls': 'ComplexSector', 'mod': t[0], 'arg': t[1], 'form': t[2]})
    table = {'RealInterval': real, 'IntegerRange': integer, 'ComplexRectangle': rect, 'ComplexSector': sector}
    return st.one_of(*[table[k] for k in kinds])


SEEDS = st.integers(0, 2 ** 31 - 1)


def kdraws(tier):
    return st.just(K_QUICK) if tier == 'quick' else st.sampled_from([K_QUICK, K_THOROUGH])


def strat_scalars(tier):
    return st.fixed_dictionaries({'s': scalar_specs(), 'seed': SEEDS, 'k': kdraws(tier)})


# ---------------------------------------------------------------------------------------------------------
# identity multiples over every scalar sampler


def judge_identity(spec, rec):
    dim = spec['dim']
    kw = {}
    if dim is not None:
        kw['dimension'] = dim
    d = dim if dim is not None else 2
    sp = spec['s']
    if sp is None:
        member = build_scalar({'cls': 'RealInterval', 'form': 'default'})[1]
        label = 'default'
    elif sp['cls'] == 'rawlist':
        kw['sampler'] = [sp['a'], sp['b']]
        member = build_scalar({'cls': 'RealInterval', 'form': 'list', 'a': sp['a'], 'b': sp['b']})[1]
        label = 'rawlist'
    else:
        inner, member, _ = build_scalar(sp)
        kw['sampler'] = inner
        label = sp['cls']
    # 'complex' and 'norm' are documented as ignored
    if spec.get('norm') is not None:
        kw['norm'] = spec['norm']
    s = forms.make(IdentityMatrixMultiples, kw)
    rivals_then_seed(s, spec['seed'], rec)
    k = spec['k']
    firsts = []
    for _ in range(k):
        m = s.gen_sample()
        rec.calls()
        if not isinstance(m, MathArray):
            raise Violation('identity-type', 'IdentityMatrixMultiples sample is %s, not MathArray' % type(m).__name__)
        if m.shape != (d, d):
            raise Violation('identity-shape', 'dimension %d gave shape %r' % (d, m.shape))
        a = np.asarray(m)
        c = a[0, 0]
        if not np.array_equal(a, c * np.eye(d)) or np.count_nonzero(a - np.diag(np.diag(a))):
            raise Violation('identity-multiple', 'sample is not a scalar times the identity: %r' % (a.tolist(),))
        c = c.item()
        if isinstance(c, complex) and label in ('default', 'rawlist', 'RealInterval', 'IntegerRange'):
            if c.imag != 0:
                raise Violation('identity-scalar', 'real scalar sampler gave complex multiple %r' % (c,))
            c = c.real
        if label in ('ComplexRectangle', 'ComplexSector'):
            c = complex(c)
        bad = member(c)
        if bad:
            raise Violation('identity-scalar', 'multiple %r is outside the scalar sampler\'s set: %s' % (c, bad[1]))
        firsts.append(c)
    rec.cls('identity/' + label)
    rec.nontrivial((dim not in (None, 2) or sp is not None) and len(set(firsts)) > 1)
    return {'dim': d, 'sampler': label, 'first': firsts[0]}


def strat_identity(tier):
    raw = pairs(NUM).map(lambda p: {'cls': 'rawlist', 'a': p[0], 'b': p[1]})
    return st.fixed_dictionaries({
        'dim': st.one_of(st.none(), st.integers(2, 6)),
        's': st.one_of(st.none(), raw, scalar_specs(), scalar_specs()),
        'norm': st.one_of(st.none(), st.none(), st.just([7, 9])),
        'seed': SEEDS, 'k': kdraws(tier)})


# ---------------------------------------------------------------------------------------------------------
# discrete sets and function lists


def build_member(e):
    t = e[0]
    if t == 'i':
        return int(e[1])
    if t == 'f':
        return float(e[1])
    if t == 'c':
        return complex(e[1], e[2])
    if t == 'a':
        return MathArray(e[1])
    if t == 'ac':
        return MathArray(np.array(e[1]) + 1j * np.array(e[2]))
    raise AssertionError(t)


def same_member(v, m):
    if isinstance(m, MathArray):
        return (isinstance(v, MathArray) and v.shape == m.shape and v.dtype == m.dtype
                and np.array_equal(np.asarray(v), np.asarray(m)))
    return type(v) is type(m) and v == m


def judge_discrete(spec, rec):
    members = [build_member(e) for e in spec['members']]
    snapshot = [np.array(m, copy=True) if isinstance(m, MathArray) else m for m in members]
    if any(isinstance(m, MathArray) for m in members):
        # a look-alike set built (and drawn from) first: the same structure, array members that differ from the listed ones
        # only in the 12th significant digit - below what an array's printed form shows (a seeded change remembered
        # validated configurations by their repr)
        alike = [MathArray(np.asarray(m) * (1 + 1e-11) + 1e-11) if isinstance(m, MathArray) else m for m in members]
        rival = DiscreteSet(alike[0]) if spec['single'] else DiscreteSet(tuple(alike))
        rival.gen_sample()
        rec.cls('discrete/look-alike-set-built-first')
    if spec['single']:
        s = DiscreteSet(members[0])
        members = members[:1]
    else:
        s = DiscreteSet(tuple(members))
    rivals_then_seed(s, spec['seed'], rec)
    k = spec['k']
    hit = set()
    for _ in range(k):
        v = s.gen_sample()
        rec.calls()
        idx = [i for i, m in enumerate(members) if same_member(v, m)]
        if not idx:
            raise Violation('discrete-member', 'DiscreteSet sample %r is not one of the listed values' % (short(v),))
        if any(v is members[i] for i in idx):
            rec.note('discrete/identical-object')
        hit.add(idx[0])
    for m, m0 in zip(members, snapshot):
        if isinstance(m, MathArray) and not np.array_equal(np.asarray(m), m0):
            raise Violation('discrete-member', 'a listed MathArray was modified by sampling')
    if any(isinstance(m, MathArray) for m in members):
        rec.cls('discrete/array-member')
    if all(not isinstance(m, MathArray) for m in members):
        rec.cls('discrete/numbers-only')
    if spec['single']:
        rec.cls('discrete/single')
    rec.nontrivial(len(hit) > 1)
    return {'n_members': len(members), 'members_drawn': len(hit)}


def strat_discrete(tier):
    small = st.floats(-50, 50, allow_nan=False).map(lambda x: round(x, 2))
    vec = st.lists(small, min_size=1, max_size=4)
    mat = st.tuples(st.integers(1, 3), st.integers(1, 3)).flatmap(
        lambda rc: st.lists(st.lists(small, min_size=rc[1], max_size=rc[1]), min_size=rc[0], max_size=rc[0]))
    elem = st.one_of(
        st.integers(-9, 9).map(lambda x: ['i', x]), small.map(lambda x: ['f', x]),
        st.tuples(small, small).map(lambda t: ['c', t[0], t[1]]),
        vec.map(lambda v: ['a', v]), mat.map(lambda m: ['a', m]),
        st.integers(1, 3).flatmap(lambda n: st.tuples(st.lists(small, min_size=n, max_size=n),
                                                      st.lists(small, min_size=n, max_size=n))).map(
            lambda t: ['ac', t[0], t[1]]))
    return st.fixed_dictionaries({'members': st.lists(elem, min_size=1, max_size=6),
                                  'single': st.sampled_from([False, False, False, True]),
                                  'seed': SEEDS, 'k': kdraws(tier)})


class _Callable(object):
    def __call__(self, x):
        return x + 1


def _square(x):
    return x * x


FUNC_POOL = [np.sin, np.cos, np.tan, abs, math.sqrt, _square, lambda x: 2 * x, lambda x, y: x + y, _Callable(),
             np.exp, float]


def judge_specfunc(spec, rec):
    fs = [FUNC_POOL[i] for i in spec['idx']]
    if spec['single']:
        fs = fs[:1]
        s = SpecificFunctions(fs[0])
    else:
        s = SpecificFunctions(list(fs))
    rivals_then_seed(s, spec['seed'], rec)
    hit = set()
    for _ in range(spec['k']):
        f = s.gen_sample()
        rec.calls()
        idx = [i for i, g in enumerate(fs) if f is g]
        if not idx:
            raise Violation('specfunc-member', 'SpecificFunctions sample %r is not one of the listed functions' % (f,))
        hit.add(idx[0])
    rec.cls('specfunc')
    if spec['single']:
        rec.cls('specfunc/single')
    rec.nontrivial(len(hit) > 1)
    return {'listed': len(fs), 'drawn': len(hit)}


def strat_specfunc(tier):
    return st.fixed_dictionaries({'idx': st.lists(st.integers(0, len(FUNC_POOL) - 1), min_size=1, max_size=6),
                                  'single': st.sampled_from([False, False, False, True]),
                                  'seed': SEEDS, 'k': kdraws(tier)})


# ---------------------------------------------------------------------------------------------------------
# random functions

RF_DEFAULTS = {'input_dim': 1, 'output_dim': 1, 'num_terms': 3, 'center': 0, 'amplitude': 10, 'complex': False}
ALPHAS = [math.sqrt(2) % 1, math.sqrt(3) % 1, math.sqrt(5) % 1, math.sqrt(7) % 1]
N_POINTS = 50


def eval_points(spec, in_dim):
    """Explicit points of the spec + a Kronecker low-discrepancy sequence in [-scale, scale]^in_dim."""
    pts = [list(p[:in_dim]) for p in spec['pts'] if len(p) >= in_dim]
    scale, phase = spec['scale'], spec['phase']
    for k in range(1, N_POINTS + 1):
        pts.append([scale * (2 * ((phase[d] + k * ALPHAS[d]) % 1.0) - 1) for d in range(in_dim)])
    return pts


def judge_randfunc(spec, rec):
    opts = {k: v for k, v in spec['opts'].items() if v is not None}
    cfg = dict(RF_DEFAULTS, **opts)
    in_dim, out_dim = cfg['input_dim'], cfg['output_dim']
    center, amp, cx = cfg['center'], cfg['amplitude'], cfg['complex']
    s = forms.make(RandomFunction, opts)
    # classes count what the generator reached (also when the case then ends in a violation)
    rec.cls('randfunc/input_dim=1' if in_dim == 1 else 'randfunc/input_dim>1')
    if cx:
        rec.cls('randfunc/complex')
    if out_dim > 1:
        rec.cls('randfunc/vector-output')
    rec.cls('randfunc/num_terms=%d' % cfg['num_terms'])
    rivals_then_seed(s, spec['seed'], rec)
    pts = eval_points(spec, in_dim)
    bound = amp * (1 + 1e-9) + 1e-12 * abs(center)
    funcs, first_vals = [], None
    worst = 0.0
    varied = False
    for fi in range(spec['nf']):
        f = s.gen_sample()
        rec.calls()
        funcs.append(f)
        if getattr(f, 'nin', None) != in_dim:
            raise Violation('randfunc-arity', 'input_dim=%d but function.nin = %r' % (in_dim, getattr(f, 'nin', None)))
        vals, copies = [], []
        for x in pts:
            v = f(*x)
            rec.calls()
            if out_dim == 1:
                if isinstance(v, np.ndarray) or np.ndim(v) != 0 or not isinstance(v, numbers.Number):
                    raise Violation('randfunc-output-dim', 'output_dim=1 but f returned %s %r' % (
                        type(v).__name__, short(v)))
            else:
                if not isinstance(v, MathArray) or v.shape != (out_dim,):
                    raise Violation('randfunc-output-dim', 'output_dim=%d but f returned %s of shape %r' % (
                        out_dim, type(v).__name__, np.shape(v)))
            if bool(np.iscomplexobj(v)) != bool(cx):
                raise Violation('randfunc-realness', 'complex=%r but f returned %r' % (cx, short(v)))
            dev = float(np.max(np.abs(np.asarray(v) - center)))
            if not dev <= bound:        # also catches nan
                key = 'randomfunction-bound/input_dim>1' if in_dim > 1 else 'randomfunction-bound'
                raise Violation(key, '|f(x) - center| = %r exceeds amplitude %r (input_dim=%d, num_terms=%d, '
                                'complex=%r) at x=%r' % (dev, amp, in_dim, cfg['num_terms'], cx, x),
                                ratio=dev / amp)
            worst = max(worst, dev / amp)
            vals.append(v)
            copies.append(np.array(v, copy=True))
        # a value handed out earlier must not change when the same function is evaluated elsewhere (a seeded change
        # returned views of one reused output buffer: f(x) - f(y) == 0 inside a formula)
        for x, v, c in zip(pts, vals, copies):
            if not np.array_equal(np.asarray(v), c):
                raise Violation('randfunc-returned-value-aliased', 'the value returned for f(%r) was %r and reads %r '
                                'after f was evaluated at other points' % (x, short(c), short(v)))
        if any(not np.array_equal(copies[0], c) for c in copies[1:]):
            varied = True
        if fi == 0:
            first_vals = [c if out_dim > 1 else v for v, c in zip(vals, copies)]
        # wrong numbers of arguments must be refused
        for wrong in (in_dim - 1, in_dim + 1):
            status, res = call(f, *([0.5] * wrong))
            if status == 'ok' or not isinstance(res, MITxError):
                raise Violation('randfunc-arity', 'input_dim=%d: calling f with %d argument(s) gave %s' % (
                    in_dim, wrong, 'a value' if status == 'ok' else repr(res)))
    # a drawn function is fixed: same values after further draws, other samplers and reseeding
    set_seed(spec['seed'] + 1)
    RandomFunction(input_dim=in_dim, output_dim=out_dim).gen_sample()(*pts[0])
    RealInterval().gen_sample()
    f0 = funcs[0]
    for x, v in zip(pts, first_vals):
        v2 = f0(*x)
        if (out_dim == 1 and type(v2) is not type(v)) or not np.array_equal(np.asarray(v), np.asarray(v2)):
            raise Violation('randfunc-not-fixed', 'f(%r) was %r, later %r' % (x, short(v), short(v2)))
    rec.maximum('randfunc worst |f-center|/amplitude (input_dim%s)' % ('=1' if in_dim == 1 else '>1'), worst)
    rec.nontrivial(bool(opts) and cfg != RF_DEFAULTS and varied)
    return {'config': cfg, 'worst_ratio': worst, 'f0(x0)': short(first_vals[0])}


def strat_randfunc(tier, in_dims=(None, 1, 1, 1)):
    opt = lambda s: st.one_of(st.none(), s, s, s)  # noqa: E731
    coord = st.one_of(st.floats(-10, 10, allow_nan=False), st.integers(-5, 5), st.sampled_from([0, 0.0, 1e4, -1e3]))
    return st.fixed_dictionaries({
        'opts': st.fixed_dictionaries({
            'input_dim': st.sampled_from(list(in_dims)),
            'output_dim': opt(st.integers(1, 3)),
            'num_terms': opt(st.sampled_from([1, 1, 2, 3, 7])),
            'center': opt(st.one_of(st.integers(-10, 10), st.floats(-1000, 1000, allow_nan=False).map(
                lambda x: round(x, 3)), st.sampled_from([0.5, 1.5, -2.5, 1e6]))),
            'amplitude': opt(st.one_of(st.integers(1, 10), st.floats(0.001, 1000, allow_nan=False).map(
                lambda x: round(x, 4)), st.sampled_from([0.5, 2, 1e-3, 1e6]))),
            'complex': opt(st.booleans())}),
        'nf': st.just(3 if tier == 'quick' else 6),
        'pts': st.lists(st.lists(coord, min_size=4, max_size=4), min_size=0, max_size=4),
        'scale': st.sampled_from([1, 3, 5, 10, 10, 100, 1e4]),
        'phase': st.lists(st.floats(0, 1, allow_nan=False, exclude_max=True), min_size=4, max_size=4),
        'seed': SEEDS})


# ---------------------------------------------------------------------------------------------------------
# vectors, matrices, tensors

ARRAY_CLASSES = {'RealVectors': (RealVectors, False, (3,)), 'ComplexVectors': (ComplexVectors, True, (3,)),
                 'RealMatrices': (RealMatrices, False, (2, 2)), 'ComplexMatrices': (ComplexMatrices, True, (2, 2)),
                 'RealTensors': (RealTensors, False, None), 'ComplexTensors': (ComplexTensors, True, None)}


def check_array_common(m, shape, cx, norm, what, check_norm=True, pinned_real=False):
    """Checks shared by all array samplers; returns (numpy view, frobenius norm).

    pinned_real: the declared constraints leave only real-valued members (complex antisymmetric 2x2 of determinant
    1 is +-[[0,1],[-1,0]]), so only the complex type is demanded, not a non-zero imaginary part.
    """
    if not isinstance(m, MathArray):
        raise Violation('array-type', '%s sample is %s, not MathArray' % (what, type(m).__name__))
    if tuple(m.shape) != tuple(shape):
        raise Violation('shape', '%s: declared shape %r, sample has %r' % (what, tuple(shape), tuple(m.shape)))
    a = np.asarray(m)
    if not np.all(np.isfinite(a)):
        raise Violation('not-finite', '%s: sample has non-finite entries %r' % (what, a.tolist()))
    nm = frob(a)
    if cx:
        if not np.iscomplexobj(a) or (nm > 0 and not pinned_real and not np.any(a.imag != 0)):
            raise Violation('complexness', '%s: declared complex but sample is real: %r' % (what, a.tolist()))
    elif np.iscomplexobj(a):
        raise Violation('realness', '%s: declared real but sample is complex: %r' % (what, a.tolist()))
    if check_norm:
        lo, hi = min(norm), max(norm)
        if not lo * (1 - 1e-9) <= nm <= hi * (1 + 1e-9):
            raise Violation('norm-range', '%s: norm %r outside declared range %r' % (what, nm, list(norm)))
    return a, nm


def judge_array(spec, rec):
    C, cx, default_shape = ARRAY_CLASSES[spec['cls']]
    kw = {}
    shape = spec['shape']
    if shape is None:
        shape_t = default_shape
    else:
        shape_t = (shape,) if isinstance(shape, int) else tuple(shape)
        kw['shape'] = tuple(shape) if spec['shape_form'] == 'tuple' and not isinstance(shape, int) else shape
    norm = spec['norm']
    if norm is not None:
        kw['norm'] = rng_arg(norm, spec['norm_form'])
    else:
        norm = [1, 5]
    tri = spec.get('tri')
    if tri is not None:
        kw['triangular'] = tri
    if spec.get('say_complex'):
        kw['complex'] = cx          # stating the only allowed value explicitly is documented as legal
    s = forms.make(C, kw)
    rivals_then_seed(s, spec['seed'], rec)
    what = '%s(%s)' % (spec['cls'], ', '.join('%s=%r' % kv for kv in sorted(kw.items())))
    first = None
    varied = False
    for _ in range(spec['k']):
        m = s.gen_sample()
        rec.calls()
        a, nm = check_array_common(m, shape_t, cx, norm, what)
        if tri == 'upper' and np.count_nonzero(np.tril(a, -1)):
            raise Violation('triangular', '%s: entries below the diagonal are not zero: %r' % (what, a.tolist()))
        if tri == 'lower' and np.count_nonzero(np.triu(a, 1)):
            raise Violation('triangular', '%s: entries above the diagonal are not zero: %r' % (what, a.tolist()))
        if first is None:
            first = a
        elif not np.array_equal(first, a):
            varied = True
    nd = len(shape_t)
    rec.cls('array/vector' if nd == 1 else 'array/matrix' if nd == 2 else 'array/tensor%d' % nd)
    if tri is not None:
        rec.cls('array/triangular')
    if nd == 2 and shape_t[0] != shape_t[1]:
        rec.cls('array/rectangular')
    if cx:
        rec.cls('array/complex')
    if norm[0] > norm[1]:
        rec.cls('array/norm-reversed')
    if norm[0] == norm[1]:
        rec.cls('array/norm-degenerate')
    rec.nontrivial(bool(kw) and varied)
    return {'config': what, 'norm_first': frob(first)}


def strat_arrays(tier):
    normv = st.one_of(st.integers(1, 20), st.floats(0.01, 100, allow_nan=False).map(lambda x: round(x, 3)),
                      st.sampled_from([1, 5, 0.5, 1e-6, 1e6, 10, 20]))
    norm = st.one_of(st.none(), pairs(normv), pairs(normv), st.just([0, 1]))
    nform = st.sampled_from(['list', 'list', 'dict'])
    base = {'norm': norm, 'norm_form': nform, 'seed': SEEDS, 'k': kdraws(tier), 'say_complex': st.booleans()}
    vec = st.fixed_dictionaries(dict(
        base, cls=st.sampled_from(['RealVectors', 'ComplexVectors']),
        shape=st.one_of(st.none(), st.integers(1, 8), st.integers(1, 8).map(lambda n: [n])),
        shape_form=st.sampled_from(['list', 'tuple'])))
    mat = st.fixed_dictionaries(dict(
        base, cls=st.sampled_from(['RealMatrices', 'ComplexMatrices']),
        shape=st.one_of(st.none(), st.lists(st.integers(1, 5), min_size=2, max_size=2),
                        st.lists(st.integers(2, 5), min_size=2, max_size=2)),
        shape_form=st.sampled_from(['list', 'tuple']),
        tri=st.sampled_from([None, 'upper', 'lower', 'upper', 'lower'])))
    ten = st.fixed_dictionaries(dict(
        base, cls=st.sampled_from(['RealTensors', 'ComplexTensors']),
        shape=st.lists(st.integers(1, 3), min_size=3, max_size=4),
        shape_form=st.sampled_from(['list', 'tuple'])))
    return st.one_of(vec, mat, mat, ten)


# ---------------------------------------------------------------------------------------------------------
# SquareMatrices: the full option grid

SYMMETRIES = [None, 'diagonal', 'symmetric', 'antisymmetric', 'hermitian', 'antihermitian']
SQ_NORMS = [None, [2, 6], [10, 6], [3, 3]]


def documented_rejection(dim, sym, tr, det, cx):
    """The existence table of the SquareMatrices doc-string.  Returns a reason or None (= must be accepted).

    'complex' is forced to True for hermitian / antihermitian (documented), so "real" below means: complex=False
    and a symmetry other than those two.
    """
    cplx = cx or sym in ('hermitian', 'antihermitian')
    if det == 0:
        # "To achieve zero determinant, we attempt to subtract lambda*I ... This can't be done for traceless matrices
        #  ..., and we also can't handle zero determinant antisymmetric matrices that are complex, or real in even
        #  dimensions."
        if tr:
            return 'zero determinant + traceless is unsupported'
        if sym == 'antisymmetric' and (cplx or dim % 2 == 0):
            return 'zero determinant antisymmetric, complex or real even dimension, is unsupported'
    if det == 1:
        if dim == 2 and tr:
            if sym in ('diagonal', 'symmetric') and not cplx:
                return 'real %s traceless unit-determinant 2x2 does not exist' % sym
            if sym == 'hermitian':
                return 'hermitian traceless unit-determinant 2x2 does not exist'
        if dim % 2 == 1 and sym in ('antisymmetric', 'antihermitian'):
            return 'odd-dimension unit-determinant %s does not exist' % sym
    return None


def items_square(tier):
    base = env_seed()
    idx = 0
    for dim, sym, tr, det, cx in itertools.product([2, 3, 4, 5], SYMMETRIES, [False, True], [None, 0, 1],
                                                   [False, True]):
        for norm in SQ_NORMS:
            idx += 1
            yield {'dim': dim, 'sym': sym, 'tr': tr, 'det': det, 'cx': cx, 'norm': norm,
                   'seed': (base * 1000003 + idx * 7919) % (2 ** 31), 'k': K_ENUM[tier]}


def check_square_draw(m, dim, sym, tr, det, cplx, norm, what, rec):
    a, nm = check_array_common(m, (dim, dim), cplx, norm, what, check_norm=det != 1,
                               pinned_real=(sym == 'antisymmetric' and dim == 2 and det == 1))
    if nm == 0:
        raise Violation('norm-range', '%s: zero matrix' % what)
    if sym == 'diagonal':
        if np.count_nonzero(a - np.diag(np.diag(a))):
            raise Violation('symmetry', '%s: off-diagonal entries are not zero: %r' % (what, a.tolist()))
    elif sym is not None:
        res = {'symmetric': a - a.T, 'antisymmetric': a + a.T, 'hermitian': a - a.conj().T,
               'antihermitian': a + a.conj().T}[sym]
        r = frob(res) / nm
        rec.maximum('square symmetry residual / norm', r)
        if r > 1e-12:
            raise Violation('symmetry', '%s: %s residual %.3g x norm: %r' % (what, sym, r, a.tolist()))
    if tr:
        t = abs(np.trace(a)) / nm
        rec.maximum('square |trace| / norm', t)
        if t > 1e-11:
            raise Violation('traceless', '%s: |trace| = %.3g x norm: %r' % (what, t, a.tolist()))
    if det is not None:
        d = np.linalg.det(a)
        if det == 1:
            err = abs(d - 1)
            rec.maximum('square |det-1|', float(err))
            if not err <= 1e-9 * max(1.0, nm ** dim):
                raise Violation('det1', '%s: determinant %r, norm %r: %r' % (what, complex(d), nm, a.tolist()))
        else:
            err = abs(d) / nm ** dim
            rec.maximum('square |det| / norm^n', float(err))
            if not err <= 1e-9:
                raise Violation('det0', '%s: determinant %r, norm %r: %r' % (what, complex(d), nm, a.tolist()))
    return a


def judge_square(spec, rec):
    dim, sym, tr, det, cx, norm = (spec[k] for k in ('dim', 'sym', 'tr', 'det', 'cx', 'norm'))
    kw = {'dimension': dim, 'symmetry': sym, 'traceless': tr, 'determinant': det, 'complex': cx}
    if spec.get('omit_defaults'):
        dflt = {'dimension': 2, 'symmetry': None, 'traceless': False, 'determinant': None, 'complex': False}
        kw = {k: v for k, v in kw.items() if not (v is dflt[k] or (k == 'dimension' and v == 2))}
    if norm is not None:
        kw['norm'] = norm
    else:
        norm = [1, 5]
    what = 'SquareMatrices(%s)' % ', '.join('%s=%r' % kv for kv in sorted(kw.items()))
    reason = documented_rejection(dim, sym, tr, det, cx)
    status, s = call(SquareMatrices, **kw)
    rec.calls()
    if status == 'err':
        if not isinstance(s, MITxError):
            raise s
        if reason is None:
            raise Violation('existence/rejected-supported', '%s is a documented-supported combination but the '
                            'constructor raised %s: %s' % (what, type(s).__name__, s))
        if not isinstance(s, ConfigError):
            raise Violation('existence/wrong-error', '%s raised %s instead of ConfigError' % (what, type(s).__name__))
        rec.cls('square/rejected')
        return {'config': what, 'rejected': reason}
    if reason is not None:
        raise Violation('existence/accepted-unsupported', '%s was accepted, but the documentation says: %s' % (
            what, reason))
    cplx = cx or sym in ('hermitian', 'antihermitian')
    rivals_then_seed(s, spec['seed'], rec)
    first, varied = None, False
    for _ in range(spec['k']):
        m = s.gen_sample()
        rec.calls()
        a = check_square_draw(m, dim, sym, tr, det, cplx, norm, what, rec)
        if first is None:
            first = a
        elif not np.array_equal(first, a):
            varied = True
    rec.cls('square/accepted')
    if det is not None:
        rec.cls('square/det%d' % det)
    if sym is not None:
        rec.cls('square/' + sym)
    if tr:
        rec.cls('square/traceless')
    default = (dim, sym, tr, det, cx) == (2, None, False, None, False) and spec['norm'] is None
    rec.nontrivial(not default and varied)
    return {'config': what, 'norm_first': frob(first), 'det_first': complex(np.linalg.det(first))}


def strat_square(tier):
    """Random companion of the grid: other norm ranges, options omitted instead of spelled out."""
    normv = st.one_of(st.integers(1, 20), st.floats(0.01, 100, allow_nan=False).map(lambda x: round(x, 3)))
    return st.fixed_dictionaries({
        'dim': st.integers(2, 5), 'sym': st.sampled_from(SYMMETRIES), 'tr': st.booleans(),
        'det': st.sampled_from([None, 0, 1]), 'cx': st.booleans(),
        'norm': st.one_of(st.none(), pairs(normv)), 'omit_defaults': st.booleans(),
        'seed': SEEDS, 'k': kdraws(tier)})


PARTS = [
    Part('square_grid', 'enum', guarded(judge_square), items=items_square, exhaustive=True),
    Part('square_random', 'hyp', guarded(judge_square), strategy=strat_square,
         budget={'quick': 4000, 'thorough': 100000}),
    Part('scalars', 'hyp', guarded(judge_scalar), strategy=strat_scalars,
         budget={'quick': 12000, 'thorough': 250000}),
    Part('identity', 'hyp', guarded(judge_identity), strategy=strat_identity,
         budget={'quick': 4000, 'thorough': 100000}),
    Part('discrete', 'hyp', guarded(judge_discrete), strategy=strat_discrete,
         budget={'quick': 3000, 'thorough': 60000}),
    Part('specfunc', 'hyp', guarded(judge_specfunc), strategy=strat_specfunc,
         budget={'quick': 1200, 'thorough': 20000}),
    # two parts so that a violation of the bound for several arguments cannot end the one-argument search early
    Part('randfunc_1arg', 'hyp', guarded(judge_randfunc), strategy=strat_randfunc,
         budget={'quick': 5000, 'thorough': 80000}),
    Part('randfunc_nargs', 'hyp', guarded(judge_randfunc), strategy=lambda tier: strat_randfunc(tier, (2, 2, 3, 4)),
         budget={'quick': 4000, 'thorough': 60000}),
    Part('arrays', 'hyp', guarded(judge_array), strategy=strat_arrays,
         budget={'quick': 9000, 'thorough': 200000}),
]
