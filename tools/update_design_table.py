#!/venv/bin/python
"""Rewrites the seeded-changes table of DESIGN.md (between the seeded-table markers) from seeded/*/meta.json."""
import os, subprocess
HERE = os.path.dirname(os.path.dirname(os.path.abspath(__file__)))
p = os.path.join(HERE, 'DESIGN.md')
s = open(p).read()
table = subprocess.check_output([os.path.join(HERE, 'tools', 'seeded_table.py')]).decode()
table = '\n'.join(l for l in table.splitlines() if not l.startswith('WARNING'))
B, E = '<!-- seeded-table:begin -->', '<!-- seeded-table:end -->'
if 'SEEDED_TABLE_PLACEHOLDER' in s:
    s = s.replace('SEEDED_TABLE_PLACEHOLDER', B + '\n' + E)
a, b = s.index(B) + len(B), s.index(E)
s = s[:a] + '\n' + table + '\n' + s[b:]
parts = subprocess.check_output([os.path.join(HERE, 'tools', 'parts_table.py')], stderr=subprocess.DEVNULL).decode()
parts = '\n'.join(l for l in parts.splitlines() if not l.startswith('WARNING'))
B2, E2 = '<!-- parts-table:begin -->', '<!-- parts-table:end -->'
if B2 in s:
    a, b = s.index(B2) + len(B2), s.index(E2)
    s = s[:a] + '\n' + parts + '\n' + s[b:]
open(p, 'w').write(s)
print('tables updated')
